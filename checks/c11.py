"""C11 — clone() is a faithful, independent deep copy (DESIGN §3 C11)."""
import sup


def main(tier):
    c = sup.Check('C11', tier, 'exploration')
    quick = tier == 'quick'
    c.set_deadline(600 if quick else 2400)
    args = [] if quick else ['--thorough']
    c.build('asan', ['c11'])
    c.run_family('asan', 'c11', 'foreign-eq', args=args, chunk=1, per_case_timeout=30)
    c.run_family('asan', 'c11', 'resets-api', args=args, chunk=2, per_case_timeout=30)
    c.run_family('asan', 'c11', 'eqpos-api', args=args, chunk=60, per_case_timeout=5)
    c.run_family('asan', 'c11', 'twins-api', args=args, chunk=2, per_case_timeout=30)
    c.run_family('asan', 'c11', 'imports-api', args=args, chunk=1, per_case_timeout=30)
    c.run_family('asan', 'c11', 'clone-api', args=args, chunk=6 if quick else 16, per_case_timeout=30)
    # the parser costs 1.6 ms per document under ASan and every single mutation needs a fresh parse: the mutation phase of the parsed
    # origin runs on the plain build (value oracle); thorough additionally runs the before-mutation oracle of the parsed origin under ASan
    c.build('plain', ['c11'])
    c.run_family('plain', 'c11', 'eqpos-parsed', args=args, chunk=60, per_case_timeout=5)
    c.run_family('plain', 'c11', 'twins-parsed', args=args, chunk=4, per_case_timeout=30)
    c.run_family('plain', 'c11', 'imports-parsed', args=args, chunk=1, per_case_timeout=30)
    c.run_family('plain', 'c11', 'clone-parsed', args=args, chunk=6 if quick else 16, per_case_timeout=30)
    if not quick:
        c.run_family('asan', 'c11', 'clone-parsed-pre', args=args, chunk=32, per_case_timeout=10)
    return c.finish(
        rule='a case is one generated model (index = mixed-radix number of its 8 dimensions: hierarchy shape, encapsulation ids, units flavour, reset flavour, '
             'imports, equivalences, math, ids) in one origin (built through the API / printed and parsed back); inside a case EVERY entity of the model is '
             'cloned (counter clones) and for every entity EVERY member of the mutation alphabet is applied to a fresh original and, separately, to a fresh '
             'clone (counter mutations); judged = clones + mutations. Distinct by construction (index -> model is injective; entity and mutation are '
             'enumerated by position).',
        assumptions=[
            'content = canonical dump through public getters (ids, encapsulation ids, import url/id/reference, math canonicalised, isOrderSet+order, reset variables '
            'by name, variable units by name, all equivalences with mapping and connection ids), child order preserved; printed forms compared with the '
            'repository printer (non-model entities wrapped in a scratch model after removing equivalences, which lone clones are documented not to carry)',
            '"shares no mutable state": no object reachable from the clone (entities, units of variables, variables of resets, import sources) is reachable from '
            'the original\'s model; the resolving model an import source points to is outside both graphs and not counted',
            'causal attribution: a field class already reported on its own (reset order presence, encapsulation id, mapping/connection id) is repaired on the '
            'clone from outside before content/printed form/equals are compared, so any OTHER difference is still reported',
            'import sharing (families imports-*: imported component I with an imported component J as child / as child of a local child / as sibling, with or without '
            'imported units, every partition of these entities into shared ImportSource objects): besides the printed forms, the sharing PARTITION of the import sources in '
            'traversal order must be the same in original and clone (checked for every component and model clone of every family)',
            'twins (families twins-*: content-equal sibling components (top level / encapsulated), variables, units and resets, with equivalences, resets and shared '
            'import sources attached to the first, the later or both twins; own units of variable twins as separate equal objects or ONE shared object): same oracle; '
            'equivalences are compared by index path, so a link made to the wrong twin is an extra/missing equivalence. One connection id per component pair is used: '
            'two different ids on one pair cannot be written in a document and make equivalenceConnectionId() depend on object addresses (not judged here)',
            'equivalence positions (families eqpos-*: all ordered forests on 2..5 components of depth <= 3 x every subset of components bearing a variable - the others '
            'are pure containers or empty leaves - x every pair of variable-bearing positions connected by one equivalence with ids, plus all pairs at once: 3678 '
            'models): the oracle before mutation on every entity (the model and every component level); no mutation phase for this grid',
            'foreign-eq (a variable equivalent to a variable outside the model) is a carve-out of the semantic oracle: judged only for no crash, original '
            'untouched, and the clone\'s equivalences among its own variables equal to the original\'s',
            'reset links (family resets-api: variable and test_variable each in {own, sibling, child, no component, null}): strict = presence and name of both '
            'links, equals both ways, printed form, the linked object is never one of the original graph, and a link to a variable of the reset\'s OWN component is '
            're-targeted to the variable at the same position of the cloned component; a link to a variable of another component or of no component is only '
            'required to keep serialisation/equality/independence (the clone holds a private parentless copy: recorded as outcome reset-link:*, not judged, since '
            'neither the statement nor the documentation of clone() promises re-targeting there); the parser can only produce own-component or null links, so '
            'this grid has no parsed origin',
            'quick enumerates a sub-grid of the dimensions (3x2x2x3x2x3x1x1 = 216 models); thorough the full grid (4x2x4x5x3x4x2x2 = 7680 models); '
            'the API origin runs under ASan/UBSan, the mutation phase of the parsed origin on the plain build (thorough repeats its before-mutation oracle under ASan)',
        ])
