"""C15 — issue reporting is coherent across all services (DESIGN §3 C15)."""
import os, sup


def main(tier):
    c = sup.Check('C15', tier, 'exploration')
    quick = tier == 'quick'
    c.set_deadline(600 if quick else 2400)
    c.build('asan', ['c15'])
    corpus_flavour = 'asan'
    if quick:
        # one <math> block costs 50-80 ms to validate under ASan (16 ms plain); the quick tier runs the document corpus on the plain library
        c.build('plain', ['c15'])
        corpus_flavour = 'plain'
    env = {'VERIF_TIER': tier, 'C15_SCRATCH': c.scratch}
    c.run_family('asan', 'c15', 'rules', env=env)
    c.run_family('asan', 'c15', 'anyelement', env=env)
    c.run_family('asan', 'c15', 'explain', env=env, chunk=4, per_case_timeout=30)
    c.run_family('asan', 'c15', 'imports', env=env, per_case_timeout=5)
    c.run_family('asan', 'c15', 'attrgrid', env=env, per_case_timeout=10)
    c.run_family(corpus_flavour, 'c15', 'corpus', env=env, chunk=12 if quick else 8, per_case_timeout=30)
    if corpus_flavour == 'plain':
        # a crash on the plain library is a bare SIGSEGV; re-run exactly those documents on the ASan library so that the
        # crash is classified by kind and function (and can be matched against known findings narrowly)
        crashed = [v for v in c.raw if v['family'] == 'corpus' and v.get('flavour') == 'plain' and v['sig'].startswith('crash:')]
        c.raw = [v for v in c.raw if not (v['family'] == 'corpus' and v.get('flavour') == 'plain' and v['sig'].startswith('crash:'))]
        for i in sorted({v['i'] for v in crashed}):
            c.run_family('asan', 'c15', 'corpus', lo=i, hi=i + 1, env=env, per_case_timeout=120, nsamples=0)
        c.notes.append('%d corpus documents crashed the plain library and were re-run under ASan for classification' % len({v['i'] for v in crashed}))
    slots = 2 if quick else 3
    return c.finish(
        rule='rules: every Issue::ReferenceRule value (0..UNSPECIFIED) x 3 levels on an issue built through Issue::IssueImpl; anyelement: 16 element-type values '
             '(15 enumerators + 1 outside) x 21 stored-object kinds x 8 accessors; explain: one scenario per failing path of parser/importer/annotator/analyser '
             '(strict and permissive where the service has modes); imports: every ordered list of <= %d imports, each (component|units) x 14 library files on disk '
             '(valid, CellML 1.1, errors related/unrelated to the imported entity, warnings, not XML, empty, missing, missing target, nested, cyclic, missing units) '
             'x strict/permissive importer, resolved twice (disk, then library) and flattened; corpus: every single deviation (delete/duplicate/rename/empty an '
             'element; delete/rename/empty/garbage/copy-sibling-value an attribute) of 4 seed documents x strict/permissive through parser, validator, printer '
             '(with and without autoIds), analyser, importer (resolve + flatten + analyse), annotator; attrgrid: every element of a CellML 2.0 and a 1.1 base document '
             '(all element kinds, component_ref at 3 nesting levels) x every position in its attribute list x {unknown attribute, same-local-name attribute in a foreign / the CellML '
             'namespace, required attribute missing (+ unknown attribute at every position), attribute value unresolvable (+ unknown attribute at every position)} x strict/permissive '
             'parser, then validator, printer, importer. Every case is distinct by construction (index -> case is '
             'injective); judged = cases in which at least one service call was followed by the coherence checker' % slots,
        assumptions=[
            'coherence checker = vf::loggerIncoherence in harness/common.hpp, written from the statement: counts add up; error/warning/message(i) enumerate issue(j) of that level in order; '
            'index = count, count+1 and SIZE_MAX return null for all four accessors; description non-empty; level and rule inside their enumerations; heading/url do not throw; '
            'exactly the typed getter designated for item()->type() may return an object and it is the stored object; the stored std::any has the pointer type that belongs to the type',
            'in addition (harness/c15.cpp, every issue of every call made by this check): an item whose type is not UNDEFINED holds an existing object of that kind (the designated getter is non-null; for MATH the stored Component is non-null)',
            '"fails" is read from the statement: parseModel/flattenModel return null, resolveImports returns false, an annotator typed getter returns nullptr / item() returns an UNDEFINED item / '
            'assignId returns "" / assignAllIds or assignIds return false without a model, analysed type is INVALID, UNDER-, OVER- or UNSUITABLY_CONSTRAINED',
            'assignAllIds()/assignIds() returning false because nothing lacked an id is not a failure and is not judged',
            'whether resolveImports SHOULD have succeeded is C07\'s property and is not judged here',
        ],
        extra_cov={'import_slots': slots})
