"""C14 — CellML 1.0/1.1 documents are faithfully transformed in permissive mode (DESIGN §3 C14)."""
import sup


def main(tier):
    c = sup.Check('C14', tier, 'exploration')
    quick = tier == 'quick'
    c.set_deadline(170 if quick else 1700)
    c.build('plain', ['c14'])
    c.build('asan', ['c14'])
    c.run_family('plain', 'c14', 'legacy-q' if quick else 'legacy-t', per_case_timeout=5)
    c.run_family('plain', 'c14', 'order-q' if quick else 'order-t', per_case_timeout=5)
    c.run_family('plain', 'c14', 'extras', per_case_timeout=5)
    # sanitizer sub-family: every 7th (quick) / every 2nd (thorough) slice of the quick space, plus the extras
    n = c.families['c14/' + ('legacy-q' if quick else 'legacy-t')]['count']
    if quick:
        c.run_family('asan', 'c14', 'legacy-q', lo=0, hi=min(n, 12000), per_case_timeout=20)
    else:
        c.run_family('asan', 'c14', 'legacy-q', per_case_timeout=20)
    c.run_family('asan', 'c14', 'order-q', hi=2500 if quick else None, per_case_timeout=20)
    c.run_family('asan', 'c14', 'extras', per_case_timeout=20)
    return c.finish(
        rule='a case is one (model spec, vector of legacy spelling choices): index -> (spec, choices) is injective because a choice dimension that does '
             'not apply to a spec has radix 1. The spec is rendered as CellML 2.0 and as CellML 1.0/1.1 by string concatenation written for this check; '
             'judged = cases for which the permissive parse of the 1.x text was compared with the strict parse of the 2.0 text (canonical dump through '
             'public getters, interface "none" == absent), its issue levels inspected, the transformed model validated, printed and re-read, and the strict '
             'parser run on the 1.x text (>= 1 error, empty model). Specs: h = labelled forests on <= 2 (thorough 3) components x 1|2 variables x every '
             'subset of <= 2 admissible connections x id patterns; v = variable attribute product; u = units definitions; i = imports (1.1 only); m = math. '
             'Choices (all combinations): namespace 1.0|1.1; encapsulation group alone | containment group before | after | both relationship_refs in one '
             'group; map_components first|last; public/private_interface in both orders x "none" spelled out|omitted; in/out patterns (in,out)|(out,in)|(out,out); '
             'units in the model | in the only component that uses them; cmeta:id | id; litre/metre | liter/meter (variable units, unit references); prefix of '
             'cellml:units declared on math | cn | model; with | without 1.x-only constructs (RDF on model/component/variable, reaction+variable_ref+role, '
             'base_units="yes"). order = child order wherever CellML 1.x leaves it open, each order dimension over its coupled choices with the rest canonical: position of the relationship_ref(s) in the encapsulation group (before / after / between two component_ref trees / split) x 4 group forms x both relationship_ref orders; every order of the model child blocks [RDF, imports, units, components, groups, connections] x containment group x 1.x-only constructs; every order of the component child kinds [RDF, units, variables, reaction, math] x units inside the component; map_components between the map_variables; import children and import elements reversed x block orders (quick: identity, reverse and all rotations of each permutation on 2 rich specs + forests on <= 3 components + every 7th variable spec + every 3rd import spec + math; thorough: every permutation on all of them). extras = 19 single constructs x 2 namespaces on a fixed document (RDF inside each remaining element, unit offset="0.0", '
             'cmeta:id on group / connection, meter in cellml:units, a foreign prefix for the 1.x namespace, prefixed elements)',
        assumptions=[
            'in/out -> interface mapping per the 1.x semantics: public_interface in|out -> public, private_interface in|out -> private, both -> public_and_private, '
            'none or absent -> no interface; an absent 2.0 interface and interface="none" are the same content',
            'the 2.0 connection id is written on map_components (where the permissive parser reads it); the 2.0 encapsulation id is written on the encapsulation group',
            'a units definition moves into a component only if that component alone uses it and no other units refer to it (1.x scoping), so the hoisted model is unambiguous',
            'resets do not exist in 1.x and are not generated; imports only appear in 1.1 documents',
            'the strict parse of my 2.0 rendering is the reference; that it equals the API-built model is C02\'s check on the same specs',
        ])
