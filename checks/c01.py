"""C01 — no input can crash, hang or corrupt the processing pipeline (DESIGN §3 C01)."""
import os
import sup


def main(tier):
    c = sup.Check('C01', tier, 'exploration')
    quick = tier == 'quick'
    only = os.environ.get('C01_ONLY')
    c.set_deadline(int(os.environ.get('C01_DEADLINE', 170 if quick else 1750)))
    c.build('asan', ['c01'])

    def fam(name, **kw):
        if only and name not in only.split(','):
            return
        c.run_family('asan', 'c01', name, **kw)

    fam('seeds', per_case_timeout=30, chunk=1)
    fam('cycles', per_case_timeout=20, chunk=4)
    fam('dev1_mf', per_case_timeout=5)
    fam('shape_q', per_case_timeout=10)
    fam('scale', per_case_timeout=60, chunk=1)
    if not quick:
        fam('shape_d3', per_case_timeout=10)
        fam('dev1_math', per_case_timeout=10)
        fam('shape_t', per_case_timeout=10)
        fam('dev2_mf', per_case_timeout=5)
    return c.finish(
        rule='TODO',
        assumptions=['TODO'])
