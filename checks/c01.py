"""C01 — no input can crash, hang or corrupt the processing pipeline (DESIGN §3 C01).

One harness (harness/c01.cpp, asan flavour; the 1000-element scale members also on the plain flavour, whose stack frames
are the real ones). case = (seed document set, <= 2 deviations, parser mode[, isolated pipeline stage])."""
import json
import os
import time
import sup


HANG_CONFIRM_S = 120  # same horizon as the "alone" re-run of the supervisor


class C01Check(sup.Check):
    """The supervisor confirms every new violation class by replaying it twice with a 600 s limit; for a hang that is 4 x 600 s.
    A hang is confirmed here with the horizon that defined it."""

    def rerun(self, v):
        if v.get('sig') != 'hang':
            return super().rerun(v)
        import subprocess
        exe = sup.binpath(v['flavour'], v['harness'])
        e = dict(os.environ)
        e.update(sup.ASAN_ENV)
        try:
            r = subprocess.run([exe, 'run', v['family'], str(v['i']), str(v['i'] + 1)] + list(v.get('args', [])), capture_output=True, env=e, timeout=HANG_CONFIRM_S)
        except subprocess.TimeoutExpired:
            return ['hang']
        sigs = [json.loads(l)['sig'] for l in r.stdout.decode('utf-8', 'replace').splitlines() if l.startswith('{') and '"sig"' in l]
        if r.returncode != 0:
            sigs.append(sup.crash_signature(r.stderr.decode('utf-8', 'replace'), r.returncode))
        return sigs


def main(tier):
    c = C01Check('C01', tier, 'exploration')
    quick = tier == 'quick'
    only = os.environ.get('C01_ONLY')
    c.build('asan', ['c01'])
    if not quick:
        c.build('plain', ['c01'])
    # the deadline bounds the exploration; a library rebuild after a change of /repo (up to ~80 s) is not counted against it
    c.set_deadline(int(os.environ.get('C01_DEADLINE', 175 if quick else 2100)) + (time.time() - c.t0))

    def fam(name, flavour='asan', **kw):
        if only and name not in only.split(','):
            return
        t = time.time()
        c.run_family(flavour, 'c01', name, **kw)
        c.notes.append('family %s: %.1f s wall' % (name, time.time() - t))

    # quick: every seed; every single deviation (families a-d + document bytes) of the math-free seeds x both parser modes;
    # MathML shapes of depth <= 2 (quick blocks); scale up to 250; cycles of length 1-3, every stage in isolation
    # hang horizon for the connection graphs: 60 s in the shard, then 120 s alone (HEAD needs about 1 s per case under ASan)
    fam('conn', per_case_timeout=4, chunk=1)
    fam('seeds', per_case_timeout=30, chunk=1)
    fam('cycles', per_case_timeout=20, chunk=6)
    fam('scale', per_case_timeout=60, chunk=2)
    fam('dev1_mf', per_case_timeout=5)
    fam('dev1_math_q', per_case_timeout=10)
    fam('shape_q', per_case_timeout=10)
    if not quick:
        fam('scale_hang', flavour='plain', per_case_timeout=4, chunk=1)
        fam('scale_mid', per_case_timeout=60, chunk=1)
        fam('scale_big', flavour='plain', per_case_timeout=120, chunk=1)
        fam('shape_d3', per_case_timeout=10)
        fam('dev1_math', per_case_timeout=10)
        fam('shape_t', per_case_timeout=10)
        fam('dev2_mf', per_case_timeout=5)
    # every raw report of the run, for triage (not part of the evidence)
    os.makedirs(os.path.join(sup.V, 'build', 'scratch'), exist_ok=True)
    json.dump([{k: v.get(k) for k in ('family', 'i', 'sig')} for v in c.raw], open(os.path.join(sup.V, 'build', 'scratch', 'C01.raw.%s.json' % tier), 'w'))
    weak = c.counters.get('weak_oracle_illformed', 0) + c.counters.get('weak_oracle_invalid', 0)
    return c.finish(
        rule='a case is (seed document set, deviation(s), parser mode[, isolated stage]); index -> case is injective by construction (mixed-radix / prefix-sum '
             'decoding, pairs by triangular index). Families: seeds (22 seed sets x 2 modes); dev1_* = EVERY single deviation of the alphabet at EVERY '
             'applicable location of a seed: (a) attribute := each entry of the hostile menu of its kind (numeric, identifier, reference incl. self and '
             'every same-kind name of the document set -> cycles of length 1-3, interface, href incl. own key, id, namespace declarations), delete / '
             'duplicate / rename / add attribute, text of ci/cn; (b) element delete, duplicate, move under every other element, rename to every CellML '
             '(MathML inside math) element name, namespace := 8 URIs for the element alone and for its subtree; (c) 15 kinds of inserted child (text, '
             'comment, CDATA, character/undefined/declared entity references, PI, foreign elements) at every child position; (d) truncation at every '
             'token boundary; (x) 22 document-level byte edits (prolog, encodings, BOM, UTF-16, DOCTYPE, entity amplification, NUL, trailing data); '
             'dev1_math_q (quick) = the attribute/text family (a) and every insertion into a ci/cn token element (also in front of its text; comments, PIs, 1000, 30000 and 60000 blanks) of 3 small math seeds (ode, math-small, power-units; thorough: all deviations of all 5), among them powers/roots of a non-dimensionless quantity whose exponent is a variable (initial_value := numbers, 1e999, empty, variable references); dev2_mf = every PAIR from a reduced alphabet (every 5th menu entry, delete/duplicate, one move target per parent name, ...) of the math-free '
             'seeds; shape_* = MathML trees over the validator\'s own vocabulary (supportedMathMLElements) + {csymbol, lambda, semantics, unknownop, sum}: '
             'apply(head, 0-3 ci|cn operands) and container(name, 0-3 children) top-level and as right-hand side, apply(H, C) for all H and C, one arbitrary '
             'operand among <= 3, containers with one arbitrary child, 10 filled qualifier forms in 5 arrangements, depth 3 over 14 arity-sensitive operators; '
             'scale = 18 structures (incl. 600n blanks inside a token and between elements) x n in {1,10,100} (thorough: 250, and 1000 on the plain build) x 8 isolated stages x 2 modes; conn = variable-equivalence networks (clique K_n and complete bipartite K_n,n for n in {4,8,12,16}; chain, star, ring for n in {10,100}; an ODE + reset inside and a constant outside the network; valid by construction) x 8 isolated stages with a 60 s / 120 s-alone hang horizon; cycles = 12 kinds x length 1-3 x 8 isolated '
             'stages x 2 modes. judged = cases whose pipeline ran and returned (the crash oracle covers the others: a dead worker is a violation at that index); '
             '%d of the judged cases also carry the weak expectation ">= 1 error/warning reported"' % weak,
        assumptions=[
            'crash oracle: ASan + UBSan (asan flavour), process exit status, uncaught exceptions via std::terminate, hang = no return within 30x the per-case limit when run alone',
            'a stack overflow is named after the recursive function(s) found in a backtrace of the interrupted context (harness-side SIGSEGV handler in front of ASan\'s), so that the class is stable',
            'depth/size 1000 members are run on the plain (-O2) build only: sanitizer stack frames are several times larger than real ones, so an overflow at depth 1000 under ASan is not evidence',
            'weak expectation only where beyond dispute: text that libxml2 (called directly by the harness) finds ill-formed must give a parser error; a 2.0 main document with an '
            'invalid number / identifier character / unknown element / non-blank text in a CellML element must give >= 1 error or warning in parser or validator; whether '
            'a *valid* document is accepted, and which rule is cited, is C04',
            'documents larger than 64 KiB are generated but not judged (outside the statement)',
            'import hrefs never name an existing file (base path is a nonexistent directory): the library of imported documents is in memory (Importer::addModel), '
            'the main document is reachable under its own key; device files and network locators are not in the menu',
            'the exponential-time witness (units DAG with 2^64 paths) is run in the thorough tier only; the quick tier holds members of the same shape that terminate',
            'Units::scalingFactor/compatible/equivalent and the Annotator are not part of the pipeline of this property',
        ])
