"""C07 — import resolution terminates, succeeds exactly when possible, reports failures (DESIGN §3 C07)."""
import os, time
import sup

RULE = ('every import graph of a shape is a distinct case by construction (mixed-radix index -> per entity one of: concrete with each local '
        'units-reference pattern / import of each same-kind entity of each file, own file included); each graph is rendered as CellML 2.0 text and '
        'delivered twice (files on disk + resolveImports(model, base); Importer::addModel library); fault families apply every single fault '
        '(file missing; truncated at 6 prefix classes; other XML; CellML 1.1 with strict and permissive importer; 2.0 with parse errors / validation '
        'errors / parser warnings; every entity of every library file removed; every back-edge that closes an import cycle) at every position of '
        'every resolvable graph whose files are all reachable; repair families run resolve(fault) -> [flatten] -> repair -> {importer as is, after '
        'removeAllModels(), new importer} x {same root object, root parsed again} -> resolve -> flatten. judged = resolveImports calls compared with '
        'the reference graph search')

ASSUMPTIONS = [
    'reference: an import is satisfiable iff its file is present, is well-formed CellML 2.0 (or 1.x for a permissive importer), contains the referenced '
    'entity of the same kind, and everything that entity depends on (its import; the units a concrete component or its encapsulated child uses; the local '
    'units a concrete units definition references) is satisfiable without revisiting an entity on the dependency path',
    'graphs whose files import from each other although no entity depends on itself are generated and run (termination, Logger coherence, '
    'false => at least one issue) but their truth value is not judged (excluded by the statement)',
    'graphs in which the only cycle consists of ordinary (non-imported) units: either return value of resolveImports is accepted; termination, '
    'true => hasUnresolvedImports()==false and flatten consistency are judged',
    'a needed file that is well-formed XML in the 2.0 namespace but has parser-level errors (an unknown element): either return value accepted',
    'files with validation-level errors or parser warnings only must still resolve: the importer does not validate',
    'after a repair, a resolution with the same importer WITHOUT removeAllModels() and a library refilled with re-used model objects are recorded, not judged '
    '(the library cache is documented)',
    'faults are placed in the library files (f1..); the root model is always parsed from intact text',
    'library content: coherent count/key(i)/library(i)/library(key); after a successful on-disk resolution every needed file must be present under '
    'base+name; extra entries are recorded only',
]


def main(tier):
    c = sup.Check('C07', tier, 'fault_enumeration')
    quick = tier == 'quick'
    c.set_deadline(int(os.environ.get("C07_DEADLINE", 170 if quick else 1700)))
    c.build('asan', ['c07'])
    c.build('plain', ['c07'])
    env = {'VERIF_TIER': tier, 'VERIF_SCRATCH': c.scratch}  # per-worker directories <scratch>/<pid>/ disappear with the check's own scratch directory
    kw = dict(env=env, per_case_timeout=5)
    def run(fl, fam, **k2):
        t = time.time()
        k = dict(kw)
        k.update(k2)
        r = c.run_family(fl, 'c07', fam, **k)
        c.notes.append('%s/%s: %d cases in %.1fs' % (fl, fam, r['evaluated'], time.time() - t))
        if os.environ.get('C07_TIMING'):
            print(c.notes[-1])
    small = dict(chunk=25)
    if quick:
        run('asan', 'selftest')
        run('asan', 'graphs-g2', **small)
        run('asan', 'faults-g2', **small)
        run('asan', 'repairs-g2', **small)
        for fam in ('graphs-g3', 'graphs-h2', 'graphs-u3', 'graphs-e3', 'graphs-n2', 'graphs-r3', 'faults-g3', 'faults-h2', 'faults-u3', 'faults-e3', 'faults-n2', 'faults-r3', 'repairs-g3', 'repairs-n2', 'repairs-r3', 'layouts-g2', 'layoutsq-g3'):
            run('plain', fam)
    else:
        run('asan', 'selftest')
        for fam in ('graphs-g2', 'faults-g2', 'repairs-g2'):
            run('asan', fam, **small)
        for fam in ('graphs-g3', 'faults-g3', 'repairs-g3'):
            run('asan', fam)
        for fam in ('graphs-h2', 'graphs-u3', 'graphs-d3', 'graphs-e3', 'faults-h2', 'faults-u3', 'faults-d3', 'faults-e3', 'repairs-h2', 'repairs-u3', 'repairs-d3', 'repairs-e3', 'graphs-n2', 'graphs-r3', 'graphs-m2', 'graphs-n3', 'faults-n2', 'faults-r3', 'faults-m2', 'faults-n3', 'repairs-n2', 'repairs-r3', 'repairs-m2', 'repairs-n3', 'layouts-g2', 'layouts-q3', 'layouts-h2', 'graphs-g4', 'faults-g4', 'graphs-k3', 'faults-k3'):
            run('plain', fam)
    return c.finish(rule=RULE, assumptions=ASSUMPTIONS,
                    extra_cov={'fault_scenarios': c.counters.get('fault_scenarios', 0), 'repair_sequences': c.counters.get('repair_sequences', 0)})
