"""C20 — external variables turn unknowns into inputs without disturbing the rest (DESIGN §3 C20)."""
import sup

def main(tier):
    c = sup.Check('C20', tier, 'exploration')
    quick = tier == 'quick'
    c.set_deadline(1500 if quick else 3300)
    c.build('plain', ['lcx'])
    if quick:
        c.run_family('plain', 'c20.py', 'ext', args=['--n=2', '--lean=1'], per_case_timeout=30, chunk=40, nsamples=2)
        c.run_family('plain', 'c20.py', 'sdep', args=['--lean=1'], per_case_timeout=30, chunk=25, nsamples=1)
    else:
        c.run_family('plain', 'c20.py', 'ext', args=['--n=3', '--edges=1'], per_case_timeout=30, chunk=150, nsamples=2)
        c.run_family('plain', 'c20.py', 'sdep', per_case_timeout=30, chunk=50, nsamples=1)
    return c.finish(
        rule='every dependency graph on n variables (quick n <= 2 complete; thorough n <= 3 with at most one read edge per model for n = 3) x every placement over two connected components x every '
             'marking of <= 2 variables as external (home variable of each class incl. states, constants, computed constants, algebraic and NLA unknowns; a non-primary twin; both twins; the VOI; '
             'a variable outside the model) x every declared dependency of <= 1 other variable (each legal one, itself, a foreign variable), plus every under-constrained variant whose dropped '
             'equation defines the marked variable; plus (n = 3) every single marking with TWO declared dependencies living in different components, also with names shared across components; (quick: no self-reading states / guessed unknowns in the n <= 2 part); plus family sdep: every graph on 2-3 variables (<= 2 read edges between variables for n = 3, reads of the VOI not counted) with a state x every placement (quick: one component or alternating) x every non-state variable that something reads, marked external with a declared dependency on each state or state-dependent variable whose value does not depend on it (declared through the home variable and through each non-home member of its class, components in either order; with unrelated padding equations listed last / first; a marked variable that nothing reads only in one padded variant); every run has a SECOND evaluation point: the states are moved as an integrator would, the callback of an external variable with a state-dependent declared dependency answers differently, ONLY computeVariables is called, and every non-external value must match the equations at the new states; judged = markings analysed and compared with the unmarked analysis and the construction, and whose generated C and Python ran with a recording callback',
        assumptions=[
            'the callback returns a fixed value per external variable; dependency order is judged at the LAST invocation for an external variable (initialiseVariables may call the callback before computed constants exist)',
            'a marking whose class the analyser itself treats as primary (its AnalyserVariable::variable() is the marked twin) needs no message',
            'markings that remove every state of the model are run but not judged (the variable of integration is left dangling; the statement does not say what that model is)',
            'declared dependencies are chosen among variables that do not themselves depend on the marked variable; in family ext dependencies on states are not generated (family sdep generates them)',
            'second evaluation point: voi is NOT moved (by design only state/rate-based equations and external variables are computed again by computeVariables, so a variable that depends on voi alone is as fresh as the last computeRates call); rates are not compared there; an external variable without a state-dependent declared dependency answers the same value at both points',
            'implicit equations whose unknown carries an initial guess read no other variable: next to another variable CellML cannot tell a guess from a constant, libcellml resolves it by equation order and, by design, discards an equation all of whose unknowns are external - no reading-independent oracle exists there (tried and withdrawn, see DESIGN 8.4)',
        ])
