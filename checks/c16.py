"""C16 — numeric text recognised per the CellML grammar, never crashes (DESIGN §3 C16)."""
import sup

def main(tier):
    c = sup.Check('C16', tier, 'exploration')
    quick = tier == 'quick'
    env = {'C16_ALPHABET': '019+-.eE a' if quick else '0123456789+-.eE a', 'C16_MAXLEN': '5'}
    c.set_deadline(900 if quick else 3000)
    c.build('asan', ['c16'])
    c.build('plain', ['c16'])
    c.run_family('asan', 'c16', 'rec', env=env)
    c.run_family('asan', 'c16', 'attr', env=env)
    c.run_family('asan', 'c16', 'cnsingle', env=env, per_case_timeout=5)
    c.run_family('plain', 'c16', 'cn', env=env, per_case_timeout=20, chunk=8 if quick else 64)
    c.run_family('asan', 'c16', 'roundtrip', env=env, hi=None if not quick else None)
    return c.finish(
        rule='every string of length <= 5 over the alphabet %r (plus a fixed list of extreme strings) is a distinct case by construction '
             '(index -> string is injective); it is placed in every numeric position (5 attribute positions, 3 cn positions, packed 128 per math '
             'block with bisection on disagreement) and given to the recognisers/converters directly; judged = cases compared against the '
             'reference DFA written from the property statement; round trip: all doubles d.dd x 10^k, k in [-320,308], both signs' % env['C16_ALPHABET'],
        assumptions=[
            'reference grammar: real = -?digits with at most one "." and >=1 digit, optional [eE][+-]?digits; integer = [+-]?digits (from the statement)',
            'cn content is compared after whitespace stripping, and a plain cn takes a basic real (no exponent) as in the CellML 2.0 grammar; e-notation cn takes basic real <sep/> integer',
            'empty prefix / initial_value attributes are not judged: the object model cannot distinguish empty from absent',
            'out-of-range = strtod/strtol report ERANGE (the notion std::stod/std::stoi use)',
            'quick tier collapses the ten digits to {0,1,9}; thorough uses all ten',
        ])
