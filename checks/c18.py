"""C18 — variable-equivalence queries agree with the connection graph, regardless of object addresses, query order and
repetition (DESIGN §3 C18, §1.1 shape M).

(a) graph part, asan: all graphs x placements x query orders on the real allocator.
(b) address part, plain: key model explored exhaustively per address window; every collision witness replayed on real
    Variable objects placed at the witness addresses; the model is bound to the code by reading the key the real code stored."""
import os
import time
import sup


def main(tier):
    c = sup.Check('C18', tier, 'model_checking')
    quick = tier == 'quick'
    env = {
        'C18_MAXN': '4' if quick else '5',
        'C18_NBASES': '12' if quick else '24',
        'C18_WINDOW_MIB': '64' if quick else '256',
        'C18_WITNESS_CAP': '50' if quick else '1000000',
        'C18_DENSE': '1024' if quick else '2048',
    }
    c.build('asan', ['c18'])
    c.build('plain', ['c18'])
    c.deadline = time.time() + (170 if quick else 1700)  # exploration budget, counted after the (lock-serialised) builds
    # (a) real allocator, ASan+UBSan
    c.run_family('asan', 'c18', 'graph', env=env, per_case_timeout=5)
    c.run_family('asan', 'c18', 'perm', env=env, chunk=1, per_case_timeout=600)
    # (c) histories: id operations interleaved with add/remove (explicit-state search, implementation = transition relation)
    os.environ['VERIF_TIER'] = tier  # xstate picks its depth bound from it; replays inherit it
    c.run_family('asan', 'c18', 'ids3', env=env, per_case_timeout=3000, nsamples=1)
    c.run_family('asan', 'c18', 'ids4', env=env, per_case_timeout=3000, nsamples=1)
    c.run_family('asan', 'c18', 'life5', env=env, per_case_timeout=3000, nsamples=1)
    # (b) the enumerator against brute force, then the windows, then the binding grids
    c.run_family('plain', 'c18', 'selfcheck', env=env, chunk=1, per_case_timeout=300)
    c.run_family('plain', 'c18', 'window', env=env, chunk=1, per_case_timeout=900)
    c.run_family('plain', 'c18', 'grid', env=env, chunk=1, per_case_timeout=900)
    k = c.counters
    g = lambda name: int(k.get(name, 0))
    bound = g('bind_equal') > 0 and g('bind_differs') == 0 and g('bind_key_not_scalar') == 0 and g('bind_unobservable') == 0
    if not bound:
        c.notes.append('model_bound:false - the cache of the real code is not keyed by the modelled K(a,b) (equal=%d differs=%d not-scalar=%d unobservable=%d); '
                       'the verdict rests on the formula-agnostic part: end-to-end replays at the model\'s colliding addresses and all-pairs correctness + observed-key injectivity '
                       'on the spread and dense address sets' % (g('bind_equal'), g('bind_differs'), g('bind_key_not_scalar'), g('bind_unobservable')))
    extra = {
        'states': g('graph_states') + g('perm_states') + g('states') + g('model_sums_enumerated') + g('grid_pairs_judged'),
        'transitions': g('graph_transitions') + g('perm_transitions') + g('transitions') + g('address_transitions'),
        'traces_validated_against_impl': g('graph_traces') + g('perm_traces') + g('transitions') + g('address_traces'),
        'history_machines': {'states': g('states'), 'transitions': g('transitions'), 'depth_bounded': g('machines_depth_bounded'), 'fixpoint': g('machines_to_fixpoint')},
        'model_bound': bound,
        'key_model': {
            'formula': 'K(a,b) = (((s*(s+1)) mod 2^64) >> 1) + max(a,b), s = a+b  (src/analysermodel.cpp)',
            'windows': int(env['C18_NBASES']), 'window_MiB': int(env['C18_WINDOW_MIB']),
            'sums_enumerated': g('model_sums_enumerated'), 'near_sum_pairs': g('model_near_sum_pairs'),
            'colliding_sum_pairs': g('model_colliding_sum_pairs'), 'concrete_colliding_address_pair_pairs': g('model_concrete_collisions'),
            'colliding_sum_pairs_only_with_overlapping_objects': g('model_colliding_sum_pairs_only_with_overlapping_objects'),
            'witnesses_replayed_on_real_code': g('witnesses') - g('witnesses_unplaceable'), 'witnesses_unplaceable': g('witnesses_unplaceable'),
            'real_key_equals_model_key': g('bind_equal'), 'real_key_differs': g('bind_differs'), 'real_key_not_scalar': g('bind_key_not_scalar'),
            'cache_unobservable': g('bind_unobservable'),
            'wrong_answers_of_real_code_at_placed_addresses': g('address_wrong_answers'),
        },
        'state_count_rule': 'states = distinct (model, set of pairs already asked) cache-population states per model in the graph/perm parts + sums enumerated by the key model '
                            '+ address pairs judged on the binding grids; transitions = queries executed on the real code; traces = query orders / witness scenarios executed on the real code',
    }
    return c.finish(
        rule='history (ids3/ids4/life5): breadth-first search over ALL API histories up to depth %s / %s / %s on 3 / 4 / 5 variables (one per component) over the alphabet addEquivalence, addEquivalence with ids, removeEquivalence (unordered pairs), '
             'removeAllEquivalences (each variable), set/remove mapping and connection id (every ordered pair: direct, indirect and unconnected) and DESTROY (variable removed from its component and its last reference dropped: it leaves the universe, '
             'its neighbours keep an expired entry); life5 uses the lean alphabet (no 4-argument add, mapping id only, unordered pairs); states are de-duplicated by the observable state plus the private id-map entries and the RAW neighbour lists '
             '(order and expired slots); in every reached state, over the live variables: neighbour lists = reference edges and symmetric, hasEquivalentVariable direct and indirect, areEquivalentVariables on two fresh analyses asked in opposite orders (2x), both id getters; ' % (('5', '4', '4') if quick else ('6', '5', '5')) +
             'graph: every (n <= %s variables, 2-3 components, flat/chain hierarchy (n = 5: flat only), every assignment of variables to components, every edge set) is one case by construction; every case is asked '
             'all ordered pairs incl. (v,v), 3x each, in lexicographic order (fresh analysis), reverse order (second fresh analysis) and with each pair first (post-analysis cache restored); '
             'perm: n <= 3, every permutation of the n*n ordered pairs; window: all 2S/16 sums of 16-byte-aligned addresses of an S = %s MiB window are enumerated, T(s) sorted, every pair of sums '
             'with |dT| < S expanded - this yields ALL key collisions inside the window; the lowest and highest expansion with non-overlapping 32-byte objects is replayed on real Variables placed at those '
             'addresses (connected/unconnected roles both ways, component order both ways, analysed model and fresh analyser model, both query orders, 3x); grid: 141 spread addresses and %s consecutive '
             '32-byte objects per base, all pairs both orientations; judged = cases whose answers were compared with union-find reachability over equivalentVariable(i) lists'
             % (env['C18_MAXN'], env['C18_WINDOW_MIB'], env['C18_DENSE']),
        assumptions=[
            'identifiers are decorations of a pair of equivalent variables: they never change connectivity; the getters return "" for a pair that is not linked (documented), the last identifier given to the pair while it was linked otherwise; a new direct equivalence starts without identifiers, the 4-argument addEquivalence sets both; removing a direct equivalence removes its identifiers',
            'reference = union-find over the public equivalentVariable(i) lists; areEquivalentVariables(v,v) must be true; the value of hasEquivalentVariable(v,true) on v itself is not fixed by the statement (only required to be stable)',
            'edges removed or variables destroyed between queries are out of scope (the analyser model documents a static model)',
            'addresses: 16-byte aligned (malloc alignment), live objects of sizeof(Variable) = 32 bytes do not overlap; windows are a finite list of bases typical of brk heaps, mmap arenas, ASan/macOS/Windows heaps, each explored exhaustively',
            'per colliding pair of sums only the lowest and the highest admissible expansion are replayed (the number of all concrete expansions is counted); quick replays the first %s witnesses per window' % env['C18_WITNESS_CAP'],
            'a witness whose pages are already occupied in the harness process is counted as unplaceable, not judged',
            'whether the collision also misleads the analysis itself (analysis fails / wrong number of analyser variables) is recorded as an outcome, not judged here (C05)',
        ],
        extra_cov=extra)
