"""C12 — operations are pure: no hidden state, no mutation of their input (DESIGN §3 C12).

Every history runs in a forked child of a pristine process, every probe in a forked grandchild (the hidden state is
process-global). HARNESS:* signatures (abstraction error, API twin != parsed model, non-deterministic reference)
are harness defects: exit 2, never a VIOLATION line."""
import os, sup


def main(tier):
    c = sup.Check('C12', tier, 'model_checking')
    quick = tier == 'quick'
    maxlen = 2 if quick else 3
    c.set_deadline(int(os.environ.get('C12_DEADLINE', '600' if quick else '2400')))
    libdir = os.path.join(c.scratch, 'lib')
    twinlen = 1 if quick else 2
    singles = '0' if quick else '1'
    env = {'C12_MAXLEN': str(maxlen), 'C12_TWINLEN': str(twinlen), 'C12_QUERY_SINGLES': singles, 'C12_LIBDIR': libdir, 'VERIF_TIER': tier}
    env_asan = {'C12_MAXLEN': '1', 'C12_TWINLEN': '1', 'C12_LIBDIR': libdir, 'VERIF_TIER': tier}
    c.build('plain', ['c12'])
    c.build('asan', ['c12'])
    # the API-built argument models are bound to what a fresh strict parse returns (every service probe)
    c.run_family('plain', 'c12', 'selftest', env=env, chunk=1, per_case_timeout=60)
    # BFS to closure over the abstract global-state tuple (validates the abstraction)
    c.run_family('plain', 'c12', 'closure', env=env, per_case_timeout=900)
    # all histories of length <= maxlen, each followed by every probe
    fam = c.run_family('plain', 'c12', 'hist', env=env, chunk=22 if quick else 64, per_case_timeout=60)
    # small sub-family under ASan+UBSan (fork is 20x dearer there): histories of length <= 1
    c.run_family('asan', 'c12', 'hist_asan', env=env_asan, chunk=2, per_case_timeout=120)
    # conflicting-twin dimension: every service on a document and on its twin (same names, other meanings), every order, on one
    # instance, with and without the caller destroying all models/results between the calls; the same under ASan+UBSan
    twin = c.run_family('plain', 'c12', 'twin', env=env, chunk=3 if quick else 16, per_case_timeout=60)
    c.run_family('asan', 'c12', 'twin_asan', env=env_asan, lo=33, chunk=3, per_case_timeout=120)  # second half = the destroying mode (33 = 1 + 32 histories)

    # queries are inert: every getter / lookup of every long-lived service instance (present, absent, out-of-range arguments),
    # inserted at every position of every history of length <= 1; quick: 9 sweeps (bisected on anomaly), thorough: + every
    # single getter; under ASan: all getters at once
    qf = c.run_family('plain', 'c12', 'query', env=env, chunk=9 if quick else 41, per_case_timeout=60)
    c.run_family('asan', 'c12', 'query_asan', env=env_asan, hi=28, chunk=2, per_case_timeout=120)  # positions 'alone' and 'after the op' (1 + 27)

    harness = [v for v in c.raw if v['sig'].startswith('HARNESS:')]
    c.raw = [v for v in c.raw if not v['sig'].startswith('HARNESS:')]
    for v in harness[:10]:
        print('HARNESS-ERROR C12 %s at %s[%d]: %s' % (v['sig'], v['family'], v['i'], str(v.get('detail'))[:600]))
    if harness:
        c.exhaustive = False
        c.notes.append('harness errors: %s' % sorted(set(v['sig'] for v in harness)))

    nops = 27
    pairs = fam['evaluated'] * nops + twin['evaluated'] * 32 + qf['evaluated'] * nops
    states = int(c.counters.get('states', 0))
    transitions = int(c.counters.get('transitions', 0))
    rc = c.finish(
        rule='hist: index -> history over the %d-operation alphabet (mixed radix, every length 0..%d), each history executed once in a forked child '
             'and followed by EVERY operation as a probe in a forked grandchild; judged = (history, probe) pairs compared with the same probe in a '
             'fresh process (raw model dump incl. raw math strings, text, issue list with descriptions), + argument unchanged, + second call on the '
             'same instance observes the same, + every object returned earlier dumps as when returned, + Analyser::model() exposes only the model '
             'just analysed. closure: BFS over the tuple of all public libxml2 globals + parser-initialised flags + DTD-decompressed flag until no '
             'new tuple appears; every transition re-observes all probes and must agree with the first history that reached the same tuple. '
             'A finding is attributed to the known blank-handling leak only if it vanishes when xmlKeepBlanksDefaultValue is put back to its '
             'fresh value after every library call of the same history (counterfactual re-run).' % (nops, maxlen),
        assumptions=[
            'process-global state = libxml2 main-thread globals (exported data symbols, read with dlsym), libxml2 parser-initialised statics and libcellml\'s static MathML DTD string (both read through the ELF symbol table; "n/a" if stripped); other hidden globals would show up only as abstraction errors',
            'service probes take the model returned by the latest parse of the same document in this history, else an API-built twin; the selftest family proves every twin indistinguishable from a fresh strict parse for every service probe',
            'a service probe whose ARGUMENT differs from the fresh one (it came out of an earlier, already judged, call of the history) is judged in the counterfactual world only',
            'Importer::resolveImports and Annotator::assignAllIds mutate their model by contract: no frame condition is judged for them; the annotator probe works on a private model with a fresh Annotator',
            'twin family: alphabet of 32 operations = 16 service/parser calls on a document and on its conflicting twin (every name kept, every meaning changed: units definitions, variable units and initial values, moved ids, import references and imported file content, numbers in the math); histories of length <= %d over it, each in two modes (caller keeps / destroys all models and results after each history op), each followed by all 32 operations; the Importer library is documented instance state and is not part of the resolve observation' % twinlen,
            'query family: 72 getters/lookups in 9 groups (Importer library by key / by index, Logger getters of all 7 loggers, Annotator lookups known / unknown-wrong-kind-out-of-range / enumerations, Analyser getters and external-variable lookups, Generator getters and repeated code, strict flags) on a world with a long-lived Annotator holding a model and one registered external variable; a history with a query inserted (before the op, after the op, alone) must be followed by exactly the probe observations, findings, crashes AND instance state (importer library with keys, every issue list, external variables, analyser/generator models, annotator ids) of the history without it; the query Annotator\'s own issue list is the documented result channel of its lookups and is excluded',
            'generate probes (C, Python, C with power operator) all work on ONE AnalyserModel per world, obtained from an own Analyser and held; its dump includes every equation AST with the parent-link consistency of every node',
            'the asan sub-families cover histories of length <= 1 only (twin family: the destroying mode only)',
        ],
        extra_cov={'states': states, 'transitions': transitions, 'traces_validated_against_impl': transitions + fam['evaluated'],
                   'history_probe_pairs': pairs, 'max_history_length': maxlen, 'alphabet_size': nops,
                   'closure_reached': bool(c.counters.get('closure_reached', 0))},
        nontrivial=None)
    if harness and rc != 1:
        return 2  # harness defect (abstraction error / twin mismatch / non-deterministic reference), not a violation
    return rc
