"""C19 — model repair helpers establish what they promise (DESIGN §3 C19)."""
import sup


def main(tier):
    c = sup.Check('C19', tier, 'exploration')
    quick = tier == 'quick'
    env = {'C19_TIER': tier}
    c.set_deadline(900 if quick else 3000)
    c.build('asan', ['c19'])
    c.build('plain', ['c19'])
    c.run_family('plain' if quick else 'asan', 'c19', 'fix1', env=env)
    c.run_family('plain', 'c19', 'fix2x', env=env)
    c.run_family('plain', 'c19', 'fix2', env=env)
    c.run_family('plain', 'c19', 'fix3', env=env)
    c.run_family('asan', 'c19', 'link', env=env)
    c.run_family('plain' if quick else 'asan', 'c19', 'cleanc', env=env)
    c.run_family('asan', 'c19', 'cleanu', env=env)
    n12, n3, nc1, nc2, ul = (4, 3, 4, 3, 4) if quick else (5, 4, 5, 4, 5)
    return c.finish(
        rule='fixVariableInterfaces: every rooted forest given by a parent vector p[i] in {-1,0..i-1} on 1..%d components (1..%d for three links) x every hub component x every ordered '
             'sequence of 1, 2 (3) distinct target places among the other forest components, a component of another model, a component outside any model and "no component" x '
             'all 6^(k+1) initial interface strings from {unset, public, private, public_and_private, none, foo} on hub and targets (fix2, fix3); fix1 uses the whole menu of 24 strings on both variables '
             '(adds 18 invalid strings holding each legal value as prefix / suffix / infix, reordered, space-separated and case variants) and fix2x the whole menu on the hub of every two-link structure on <= 3 (thorough 4) components; plus a bystander without '
             'equivalence and an already sufficient connected pair; linkUnits: 2 layouts x 6^4 units assignments; clean(): every forest on 0..%d components with one seed '
             '(14 emptiness variants) in every slot and every forest on 0..%d components with two seeds (second slot may lie inside the first seed), every sequence of <= %d units '
             'over 7 kinds; distinct by construction (index -> case is injective)' % (n12, n3, nc1, nc2, ul),
        assumptions=[
            'required interface computed from the parent vector: public towards a sibling or the parent component, private towards a child component; everything else (grandparent, cousin, other model, component without model, variable without component) makes the equivalence unfixable',
            'a variable with an unfixable equivalence must keep its interface string ("If the interface type for a variable cannot be set correctly, it is left unchanged"); a variable whose string already suffices must keep it; otherwise any sufficient result is accepted',
            'when true is returned the validator must raise no issue with a MAP_VARIABLES_* rule on the model; other validator issues (the deliberately invalid bystander string "foo") are ignored',
            'an invalid interface string is never sufficient, whatever legal value it contains; only the exact strings public, private, public_and_private can be',
            'two variables of the same component are never connected (the statement lists siblings, parent/child and unreachable pairs only)',
            'clean(): "empty" exactly as documented in model.h; a component that is nothing but an import or carries nothing but an encapsulation id, and a units that is nothing but an import, are not covered by the wording - either outcome is accepted for them (reference is a set)',
            'remaining children must keep their order; the model is compared through the independent canonical dump (common.hpp), unsorted',
        ])
