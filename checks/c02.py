"""C02 — printing then parsing a model preserves its content (DESIGN §3 C02)."""
import sup


def main(tier):
    c = sup.Check('C02', tier, 'exploration')
    quick = tier == 'quick'
    c.set_deadline(170 if quick else 1700)
    c.build('plain', ['c02'])
    c.build('asan', ['c02'])
    if quick:
        plain = ['h-q', 'h-a', 'v', 'u-q', 'r-q', 'i-q', 'ip-q', 'm', 'text-1']
        asan = ['h-a', 'v', 'r-q', 'i-q', 'text-1']
    else:
        plain = ['h-t3', 'h-t4', 'v', 'u-t', 'r-t', 'i-t', 'ip-t', 'm', 'text-1', 'text-2']
        asan = ['h-a', 'h-q', 'v', 'u-q', 'r-q', 'i-q', 'ip-q', 'm', 'text-1']
    for f in plain:
        # service-history dimension (parsers/printers with a past): everywhere, except the largest quick family
        c.run_family('plain', 'c02', f, per_case_timeout=5, args=['--hist=0'] if (quick and f == 'h-q') else [])
    for f in asan:
        c.run_family('asan', 'c02', f, per_case_timeout=20)
    return c.finish(
        rule='a case is one model spec decoded from its index (mixed radix / block table; index -> spec is injective within a family) or one '
             '(attribute position(s), text) edit of a fixed full-featured model; judged = cases taken through: API build -> validator -> my own XML '
             'rendering read by the strict parser and compared with the API-built model (canonical dump through public getters) -> print -> independent '
             'libxml2 well-formedness -> strict parse -> same dump -> print -> parse -> same dump; then (service-history dimension; all families, in the quick tier all but h-q) the same printed text is read back by four more strict parsers with a past (has read this document before / read a CellML 1.1 document permissively / read non-XML and an error-ridden 2.0 document / all of these plus the documents of cases i-1 and i-2) - same dump, same number of issues as the fresh parser - and printed by a printer that has printed another model. Families: h = every labelled rooted forest on <= 3 '
             '(quick; thorough 4) components x 1|2 variables x every subset of <= 2 (thorough: <= 3 on 3 components) admissible variable pairs x every '
             'listing order x orientation x 5 id patterns x 2 name orders (h-a, the sanitizer sub-family of the quick tier: <= 2 components, subsets of <= 3); v = variable attribute product; u = units (1 definition: all '
             '(reference,prefix,exponent,multiplier)^<=2; 2 and 3 definitions: every acyclic reference structure, every listing order); r = resets '
             '(variable x test_variable x order x ids x 5 shapes, two resets, resets on equivalent variables); i = imports (forests x import mask x '
             'imported units x source sharing x ids x connection subsets incl. placeholder variables); ip = imported components at every position: every labelled forest on <= 4 (thorough 5) components x every non-empty import mask x with/without imported units x own/shared ImportSource x ids; m = math blocks x cellml prefix declared on '
             'math/cn/model; text-1 = 33 attribute positions x 11 texts; text-2 (thorough) = all pairs of 29 positions x 11^2 texts',
        assumptions=[
            'content = the canonical dump of harness/common.hpp (names, ids, units children, hierarchy, variable attributes, equivalences with mapping/connection ids, resets, '
            'imports as (url, import id, reference) per imported entity, math canonicalised by an independent libxml2 canonicaliser; children sorted; doubles at 15 digits)',
            'connection ids are given to every variable pair of a component pair (what the parser produces); Variable::setEquivalenceConnectionId is not used to build '
            'models because it leaves per-pair-inconsistent ids when one variable is mapped to two variables of the other component (domain note 2)',
            'the encapsulation id and component_ref ids are only set where an encapsulation element exists; placeholder variables of imported components carry a name only',
            'standard unit names are never used as names of user units (domain note 3); no equivalence to a parentless variable (domain note 4)',
            'part (ii): names stay non-empty and unique (the second text of a pair gets the suffix _2); the menu holds XML character data only',
            '"validator accepted" is decided by the real validator on the original model; for refused models only content preservation is judged',
        ])
