"""C04 — the validator accepts valid models and rejects every rule violation (DESIGN §3 C04, fault catalogue §4.2)."""
import json, os, subprocess
import sup


def main(tier):
    c = sup.Check('C04', tier, 'fault_enumeration')
    quick = tier == 'quick'
    env = {'C04_TIER': tier}
    c.set_deadline(900 if quick else 2700)
    c.build('plain', ['c04'])
    c.build('asan', ['c04'])
    exe = sup.binpath('plain', 'c04')
    catalogue = json.loads(subprocess.run([exe, 'injectors'], capture_output=True, text=True, check=True, env=dict(os.environ, **env)).stdout)
    # the crash class (6 faulted models) on the ASan+UBSan library
    c.run_family('asan', 'c04', 'cyc', env=env, per_case_timeout=60, chunk=1)
    # math-free families on the plain library (0.05 ms per validation): every injector at every location of every base
    c.run_family('plain', 'c04', 'chain', env=env)
    c.run_family('asan', 'c04', 'chain', env=env, hi=2000 if quick else 20000)
    for fam in ('h', 'u', 'v', 'i'):
        c.run_family('plain', 'c04', fam, env=env, chunk=2000 if fam == 'h' else None)
    # math-bearing families (16-75 ms per validation): one case = one injector on one base
    c.run_family('plain', 'c04', 'mops', env=env, per_case_timeout=10)
    c.run_family('plain', 'c04', 'm', env=env, per_case_timeout=60, chunk=1)
    c.run_family('plain', 'c04', 'r', env=env, per_case_timeout=120, chunk=1)
    names = json.loads(subprocess.run([exe, 'per'], capture_output=True, text=True, check=True, env=dict(os.environ, **env)).stdout)  # per family: ['base', injector...]
    per = {k: len(v) for k, v in names.items()}  # cases per base
    # memory-safety sub-family: the smallest bases of every family again on the ASan+UBSan library
    c.run_family('asan', 'c04', 'h', env=env, hi=per['h'] * (150 if quick else 1200), per_case_timeout=20)
    c.run_family('asan', 'c04', 'i', env=env, hi=per['i'] * (40 if quick else 600), per_case_timeout=20)
    c.run_family('asan', 'c04', 'r', env=env, hi=per['r'] * (2 if quick else 5), per_case_timeout=600, chunk=1)
    c.run_family('asan', 'c04', 'm', env=env, hi=per['m'] * (1 if quick else 3), per_case_timeout=600, chunk=1)
    # vacuity: an injector without a single location anywhere is a harness bug
    # (the statistics of a worker that died are lost: a crash inside an injector is itself one location of that injector)
    for v in c.raw:
        if v['sig'].startswith('crash:') or v['sig'] == 'hang':
            n = 'units-cycle-under-connection' if v['family'] == 'cyc' else 'conn-units-incompatible-chain' if v['family'] == 'chain' else names[v['family']][v['i'] % per[v['family']]]
            c.counters['loc:' + n] = c.counters.get('loc:' + n, 0) + 1
    empty = [n for n in catalogue if c.counters.get('loc:' + n, 0) == 0]
    if empty:
        raise sup.HarnessError('injectors without any applicable location: %s' % ', '.join(empty))
    c.extra_cov['faults_injected_per_injector'] = {n: c.counters.get('loc:' + n, 0) for n in catalogue}
    c.extra_cov['injectors'] = len(catalogue)
    c.notes.append("families h, i, r, m are run twice (plain: all cases; asan: the cases of the smallest bases), so their 'evaluated' exceeds 'count' by the asan share; faults_injected_per_injector counts both")
    return c.finish(
        rule='case = (base model, injector): index -> (base, injector) is a bijection and the bases of a family are the complete product of its grammar '
             'dimensions (component forests of <= %d components in every shape/child order x 1-2 variables x every set of <= 3 admissible connections x '
             'connection/units/naming/decoration patterns; one units definition in every reference/prefix/exponent/multiplier combination; variable '
             'attributes; 0-2 resets over 1-3 connected components; imports: every non-empty subset of 5 import kinds x shared/own source x resolved/unresolved; '
             'equation shapes and one valid use of every supported MathML element; units chains of 1-4 user-defined levels with an exponent from {1,2,-1,0.5%s} at every level x prefix/multiplier decoration x 4 innermost units, paired across a connection with base^p for every p a wrong reduction could produce, verdict from the harness-side product of exponents). Each injector is applied at every applicable location of the base, one fault '
             'at a time; judged = validations compared with the expected-rule table in harness/c04.cpp (plus one zero-issue check per base)' % (3 if quick else 4, '' if quick else ',3'),
        assumptions=[
            'valid = valid by construction from the grammar in harness/c04.cpp; models are built through the API, never parsed',
            'expected rule sets are written from the CellML 2.0 rule names / section headings (table at the top of the fault catalogue in harness/c04.cpp); a neighbouring rule is accepted only where listed there',
            'cyclic units are injected only on units that no connected variable reaches; the cycle-under-connection class is the separate family cyc (6 cases)',
            'math-bearing families (r, m) run the injectors for which resets/math matter (reset-*, math-*, ids of reset/test_value/reset_value, names referenced from ci); all other injectors meet the same location classes on the math-free families',
            'a math fault replaces the right-hand side (component math) or the whole value expression (test_value/reset_value); the per-operator bases (mops) are judged by oracle 1 only',
            'arity table: operand counts as libcellml states them for each MathML 2.0 operator family (relational exactly 2, n-ary logical >= 2, plus >= 1, times >= 2, min/max >= 2, rem/divide/power exactly 2, unary exactly 1)',
            'importing the same units twice (same source and reference) is treated as a fault because the validator implements it as a reading of 2.3.2; no valid base does it',
            'quick tier: forests of <= 3 components, rotated reset attribute combinations; thorough: <= 4 components (decoration dimensions rotated at size 4), all reset combinations, all SI prefixes and standard unit names',
        ])
