"""C08 — unit compatibility and scaling obey the algebra of units (DESIGN §3 C08)."""
import json, subprocess, os
import sup


def main(tier):
    c = sup.Check('C08', tier, 'exploration')
    quick = tier == 'quick'
    env = {'C08_TIER': tier}
    c.set_deadline(900 if quick else 3000)
    c.build('plain', ['c08'])
    c.build('asan', ['c08'])
    info = json.loads(subprocess.run([sup.binpath('plain', 'c08'), 'poolinfo'], capture_output=True, text=True, env=dict(os.environ, **env), check=True).stdout)
    n, s = info['pool'], info['subpool']
    # one case = one row: member a against every member b (pairs), every (b, c) of the sub-pool (triples), every b of the sub-pool (validator)
    c.run_family('plain', 'c08', 'pairs', env=env, per_case_timeout=10, chunk=max(1, n // 128))
    c.run_family('plain', 'c08', 'triples', env=env, per_case_timeout=30, chunk=max(1, (s + 15) // 16))
    c.run_family('plain' if quick else 'asan', 'c08', 'special', env=env)
    c.run_family('asan', 'c08', 'unchecked', env=env)
    c.run_family('asan', 'c08', 'twins', env=env)
    c.run_family('plain' if quick else 'asan', 'c08', 'validator', env=env, per_case_timeout=30, chunk=max(1, s // 64))
    c.run_family('plain', 'c08', 'generator', env=env, per_case_timeout=120, chunk=max(1, s // 64))
    c.counters['pool_members'] = n
    c.counters['subpool_members'] = s
    c.counters['reduction_classes'] = info['classes']
    c.counters['members_in_si_ratio_domain'] = info['in_si_domain']
    c.counters['ordered_pairs'] = n * n
    c.counters['triples'] = s ** 3
    return c.finish(
        rule='pool U = every units definition over references {metre, second, gram, litre, volt, dimensionless, user base units apple, pear, earlier members}, '
             'prefix {none, milli, kilo, 3, -2}, exponent {1, 2, -1, 0.5, 0}, multiplier {1, 1000, 0.25}: all 600 one-child definitions; all ordered pairs of a child menu '
             '(two children, both orders); nesting depth 1 and 2 over a fixed list of inner definitions; each as an imported units (Importer::addModel) and reached through an '
             'imported intermediate; one definition reaching the same imported units twice (imp*imp, two imports of it, import x local / imported intermediate using it, both orders); every built-in name as a childless object; parentless definitions over built-in references (%d members, %d reduction classes, kinds %s). '
             'Undefined arguments: null, 8 hand-listed kinds, and every sequence of 1..3 unit children over {dangling, 2-cycle member, self reference, nested dangling, unresolved import, '
             'import of missing units | metre, user base unit, user units, resolved import} with at least one undefined child, direct / behind an intermediate / as imported library definition; '
             'each against every sub-pool member, the hand-listed ones, null and itself in both orders (isDefined false, compatible false, factor 0, equivalent false). Judged: ALL %d ordered pairs of U (one evaluation = one row of %d pairs), ALL %d triples of a %d-member sub-pool holding every reduction class, every null/undefined/'
             'parentless argument against the sub-pool, every order/indirection twin, one validated two-component model per ordered pair of the sub-pool, and one analysed model with '
             'generated C executed per ordered pair of the sub-pool with equal reduction; '
             'distinct by construction (index -> definition is injective)' % (n, info['classes'], json.dumps(info['kinds'], sort_keys=True), n * n, n, s ** 3, s, ),
        assumptions=[
            'reference: exact rational reduction to {base: exponent} and log10 scale a + b*log10(2) written from the CellML 2.0 units table and the rule unit = multiplier * (prefix * reference)^exponent; shares no code or table with libcellml',
            'factor = SI(units2)/SI(units1) ("units2 = factor*units1", units.h) is judged only where prefixes and multipliers sit on unit children of exponent 1 at every level (statement carve-out); elsewhere positivity, f(a,b)*f(b,a)=1, f(a,c)=f(a,b)*f(b,c), child-order and import invariance are judged',
            'user base units are identified by name; an import of a user base unit keeps its name (renaming imports of base units is outside the pool: the statement does not say whether the alias is a new base)',
            'relative tolerance 1e-12 on factors; equivalent is judged against compatible && factor == 1.0 exactly as the statement says, and against the exact reference inside the SI-ratio domain',
            'validator family: members with imports are resolved and flattened first (the validator does not follow imports); a flattened model whose units no longer reduce as the imports described is counted, not judged (flattening is C06); hint numbers are compared with tolerance 2e-6 (the message prints six decimals)',
            'the validator hint expresses the mismatch as units(v1)/units(v2) like the base-unit exponents next to it, i.e. k = log10 scalingFactor(units2, units1, false)',
            'generator family: c1{v1 [a] = 1} ~ c2{v2 [b]; y = v2}; the generated C (implementationCode) is executed by a small evaluator (numbers, variables[i], *, /) and y must equal SI(a)/SI(b) (rel 1e-9) inside the SI-ratio domain, Units::scalingFactor(b, a) outside it',
            'quick tier: two-children menu 4 references x 6 attribute triples, 8 inner definitions; thorough: 5 x 16, 14 inner definitions',
        ])
