"""One entry per claimed property: level, technique, texts. bin/mkmanifest turns this into MANIFEST.json."""
ALL = ['C%02d' % i for i in range(1, 21)]
CHECKS = {
 'C06': dict(level='exploration', ref='3/C06',
   technique='bounded-exhaustive product of import structures x instances x units configurations x name clashes; flat model validated, analysed, compiled and run against ground-truth values',
   text='The full product (34560 file sets; quick: a 3600-member sub-product) of import structure (leaf, encapsulated child, child that is an import, import of an import, grandchild with units of its own) x one or two instances x local components of the importing model encapsulated under the import instance (none, two, three) x one or two math blocks x library units '
        '(incl. units defined through other units to depth 3, units used only in cn, two units the library itself imports and uses against their declaration order) x units-name clashes (equal and different definitions, local and imported, two levels below the import) x component-name clashes x root units '
        'imports: resolveImports succeeds, flattenModel returns a model without imports that validates with zero issues, the argument model and every library model are unchanged, the flat model analyses as algebraic '
        'and its generated C and Python give the ground-truth value (unit scales included) of the root variables.',
   note='Trusted: ground truth computed in harness/c06.py from the spec, lcx canonical dumps (common.hpp), gcc/CPython. Not covered: ODE/NLA content in imported components, more than three library files, resets in imported components.'),
 'C20': dict(level='exploration', ref='3/C20',
   technique='bounded-exhaustive enumeration of dependency graphs x external-variable markings x declared dependencies; analysis compared with the unmarked analysis, generated code run with a recording callback',
   text='Every dependency graph (n <= 2 complete in quick) in every placement, with every marking of up to two variables as external (states, constants, computed constants, algebraic and NLA unknowns, '
        'non-primary twins, both twins, the VOI, a foreign variable) and every declared dependency of at most one variable (legal and illegal): exactly the marked classes become external with a placeholder '
        'equation, variables that do not depend on them keep type and equation type, an under-constrained model whose only unknown is marked becomes valid, VOI/twin/foreign markings leave the analysis valid and '
        'are reported with a message, addDependency refuses itself and foreign variables; the generated C and Python obtain external values only through the callback, invoke it (last) after the declared '
        'dependency holds its final value, and every other value equals the reference. Family sdep: an external variable whose declared dependency is a state or depends on one (also declared through a non-home member of its class), on every graph with a state (n <= 3, at most two read edges between variables, reads of the VOI not counted), also next to unrelated padding equations; '
        'every run is judged at a second evaluation point too (states moved, such an external answers differently, only computeVariables called): no value may stay stale.',
   note='Trusted: lib/depgraph.py reference values, lcx dump, gcc/CPython. Not covered: n > 3, more than two declared dependencies, a moved VOI at the second point (by design not recomputed).'),
 'C17': dict(level='exploration', ref='3/C17',
   technique='bounded-exhaustive enumeration of analysed models (expression shapes, dependency graphs with external variables, invalid models); generated C compiled with -Wall -Wextra -Werror and loaded, Python exec\'d, structure compared with the AnalyserModel',
   text='For every model of the C03 shape enumeration (wrappers algebraic / ODE / NLA, every helper-requiring operator alone and nested in every operand position) and every external-variable '
        'model of the C20 enumeration: the C interface+implementation compile without any diagnostic except unused-parameter/-variable, STATE_COUNT / VARIABLE_COUNT and every VOI/STATE/VARIABLE_INFO entry '
        '(name, units, component, type, NUL inside its declared buffer) equal the AnalyserModel, every declared function is defined exactly once with the same signature, each helper function is emitted '
        'iff some equation AST uses its operator under that profile, and the Python module loads with the same tables; for missing, null, invalid, under-/over-/unsuitably constrained models all code strings are empty.',
   note='Trusted: gcc 12 diagnostics, ctypes view of the loaded library, the AST walk through the public AnalyserEquationAst API. Not covered: custom profiles.'),
 'C01': dict(level='exploration', ref='3/C01',
   technique='deviation-bounded exhaustive enumeration: every document within <= 1 (quick) / <= 2 (thorough) deviations of 22 seed document sets, plus exhaustive MathML shape, scale and cycle '
             'families, driven through the whole pipeline under ASan+UBSan with crash isolation per case',
   text='22 seed sets (CellML 2.0 units/variables/encapsulation/connections/resets/imports with library documents, 1.0, 1.1, math, non-CellML, empty, garbage) x EVERY single deviation at '
        'every location (hostile attribute values by kind incl. self/cyclic references, attribute delete/duplicate/rename/add, element delete/duplicate/move-under-every-element/rename-to-every-'
        'element-name/8 namespaces, 15 inserted node kinds at every child position, truncation at every token boundary, 22 byte-level edits) x {strict, permissive} parser; all pairs of a reduced '
        'alphabet (thorough); all MathML trees apply(head, 0-3 operands), container(name, 0-3 children), apply(H, C) over the validator\'s vocabulary + 5 unsupported names (quick), one arbitrary '
        'operand among <= 3, depth 3 over 14 arity-sensitive operators (thorough); 16 scale structures at n in {1,10,100} (thorough: 250, and 1000 on the plain build) 14 dense/sparse connection graphs (K_n, K_n,n up to n = 16; chain/star/ring up to 100) with a hang horizon, and 12 cycle kinds of length 1-3, each '
        'pipeline stage in isolation. Every stage (parse, validate, print +autoIds +reparse, isDefined/hasImports/requiresImports/isResolved on every entity, resolve + flatten with an in-memory '
        'library under both importer modes, analyse, generate C and Python) runs on whatever the previous one returned. Complete for the stated bounds; nothing is sampled.',
   note='Trusted: ASan/UBSan and the exit status as crash oracle, libxml2 (called directly) as the reference for well-formedness, a harness-side SIGSEGV handler that names a stack overflow after '
        'the recursive function, the mini DOM that edits the seeds. The weak "is reported" expectation speaks only for ill-formed XML and four kinds of plainly invalid deviations (C04 owns the '
        'rule-level verdicts). Not covered: documents more than two deviations from a seed, import hrefs that name existing files or devices, encodings beyond the listed byte edits.'),
 'C05': dict(level='exploration', ref='3/C05',
   technique='bounded-exhaustive enumeration of dependency graphs x placements x order/renaming transformations, against ground truth computed from the construction',
   text='All dependency graphs on up to 3 variables (kind of definition x read sets, within an edge bound per tier) spread over two connected components in every way are analysed under '
        'nine order/renaming transformations; model type and every variable role are compared with ground truth from the construction, every valid AnalyserModel is checked for the '
        'well-formedness rules of the statement (each class once, dense indices, equation/variable cross-references, dependencies, topological order, NLA siblings), the classification must '
        'be identical across all transformations, and the generated code of the identity layout is executed and compared with reference values, both after the usual call sequence and after the states were moved and only computeVariables was called (nothing may stay stale). Kinds of definition include coupled systems of implicit equations with initial guesses spanning components. Dropped/duplicated equations and dropped '
        'initial values must be classified under-/over-constrained with an issue.',
   note='Trusted: lib/depgraph.py ground truth (derived from the enum documentation), lcx dump of the AnalyserModel through the public API. Not covered: n > 3, more than two components, '
        'second-order ODEs and cyclic explicit definitions (judged nowhere), units.'),
 'C03': dict(level='exploration', ref='3/C03',
   technique='bounded-exhaustive enumeration of MathML expression-tree shapes x context wrappers; generated C compiled and run, generated Python executed, against an independent reference evaluator',
   text='Every expression tree of depth <= 2 over the whole supported MathML operator set (each parent x operand position x child operator, constants, cn forms) and '
        'depth-3 chains over the precedence-sensitive operators is placed in five contexts (computed constant; algebraic variable reading a state and the VOI; dx/dt = E '
        'mentioning x itself; implicit NLA equation; operands living in another component in millimetres / kilometres, i.e. with unit scaling through connections) and evaluated at up to three leaf valuations; the compiled C and the executed Python must give the reference value of '
        'every variable, rate and state and agree with each other, and NLA objective functions must vanish at the reference solution. Shapes are packed 32 per model and '
        'any anomalous pack is bisected to single shapes; the thorough tier re-runs the depth-1/2 family unpacked.',
   note='Trusted: lib/mexpr.py reference evaluator (written from the MathML/CellML specifications), gcc -O0, CPython, tolerance 1e-9. Not covered: trees deeper than 3, '
        'non-finite or ill-conditioned valuations, units scaling other than the two prefix scalings of wrapper w5 (see C08/C06 for the general case).'),
 'C09': dict(level='model_checking', ref='3/C09',
   technique='explicit-state breadth-first search over API call histories with the real library as the transition relation, de-duplicated by a canonical state key and run to '
             'the fixpoint of reachable states, each transition judged by a reference model (set of allowed post-states) and by state invariants; plus an exhaustive '
             '(entry point x argument class x receiver state) matrix under ASan/UBSan with crash isolation',
   text='(a) Nine state machines over tiny universes with forced collisions: component forest (models M0,M1; components c0,c1 structurally identical, c2 distinct; '
        '433 operations: addComponent incl. self/ancestor insertion, remove x3, take x2, replace x3 with searchEncapsulated t/f, removeAll, contains, dropping the '
        "harness's reference to a component or model), variables in components, units in models (incl. replaceUnits x3, model destruction), resets in components (incl. "
        'setVariable/setTestVariable, which change structural equality), equivalences on 4 variables (both orders, self-pairs), equivalence ids on 3 variables (2- and '
        '4-argument addEquivalence, set/remove mapping and connection ids, hidden id maps in the state key), equivalence lifetime (variables removed from components, '
        'references to variables/components/model dropped; the number of expired weak entries a variable still carries is part of the state key). After EVERY transition of the equivalence machines every query of the equivalence API (hasEquivalentVariable direct and indirect, id getters, equivalentVariable(i) up to count, count+0 and SIZE_MAX) is asked on every live variable with null, a never-connected variable and every live variable as argument and compared with the reference graph; add/removeEquivalence and the id setters with a null / never-connected partner are transitions that must be refused and change nothing. All run to the fixpoint of their canonical state space (quick: 7 machines, about 1.3e4 states / 7.2e5 '
        'transitions; thorough adds the full reset alphabet and a 4-variable lifetime machine bounded at depth 6). Invariants in every state: every listed child reports '
        'its container as parent, nothing listed twice or by two containers, hierarchy acyclic, equivalence symmetric, equivalentVariable(i) non-null below the count, ids '
        'symmetric. (b) 281 entry points of the object model, Annotator, Importer, Analyser, AnalyserExternalVariable, AnalyserModel/Variable/Equation, Generator, Printer, '
        'Validator, Parser and Logger, each with every applicable argument class {null, never added, owner destroyed, index == count, SIZE_MAX, unknown name, empty name} '
        'and receiver state {fresh, populated, owner destroyed; for variables also: equivalent variable destroyed, expired entry still held}: must not crash; target roles must be refused (false/null/empty/issue) and leave the canonical state of '
        'every reachable object unchanged.',
   note='Trusted: the reference models in harness/c09*.hpp (vectors + parent map + held flags; structural equality recomputed independently), observation through public '
        'getters plus weak_ptr liveness (hidden id maps read through the pimpl only for the state key), ASan/UBSan and fork isolation as crash oracle. Limits: universes of 3 '
        'entities per kind; states behind a reported violation are not expanded; calls that add an entity to its current parent are generated but not judged; the entry-point '
        'table is hand-written, but every run cross-checks it against src/api/libcellml/*.h (119 public methods with an entity/index/name parameter must all be present, else exit 2); '
        'no random long-history pass; no cross-machine search.'),
 'C10': dict(level='exploration', ref='3/C10',
   technique='bounded-exhaustive enumeration of ALL ordered pairs and ALL triples of a per-kind pool (bases, every child-order permutation, every single mutation at every '
             'depth, 0-3 identical children, not-covered variants, null) built through the API, judged by equality of an independent canonical dump (children as multisets)',
   text='For each kind (model, component, variable, units, reset, import source) the pool is {bases with depth-2 content (thorough: depth 3)} + {all permutations of every child list} + '
        '{every covered attribute altered / emptied, every child removed / added as copy of a sibling / added fresh, at every depth} + {0,1,2,3 identical children} + {same content with a '
        'parent / equivalences / order-presence flag / own units objects: must stay equal} + {empty entity, null} (quick: 212/159/41/64/64/8 members). equals(a,b) is called for ALL ordered '
        'pairs (against an independently built twin and inside one build incl. a->equals(a)) and compared with reference equality; transitivity is checked on ALL triples (real calls, memoised per '
        'process; determinism checked on every pair); all kinds are also compared with each other (look-alike name/id). Every pool is also built a second time with an alias registry (every content-equal import source, own units object of a variable and free-standing reset variable is ONE shared '
        'instance across the pool) and all ordered pairs are judged again (pairs-shared; thorough: pairs2-shared). Thorough adds every double mutation of the depth-2 bases against base and '
        'all single mutants in both directions (34 M pairs). Unit exponents/multipliers only take identical or clearly different values (carve-out of the statement).',
   note='Trusted: the canonical dump through public getters (harness/c10c11.hpp; never calls equals()), the JSON->API builder, ASan/UBSan. The classifier that names a mismatch '
        '(receiver-strictly-fewer / set-not-multiset) only chooses the signature; every mismatch is reported. Pools come from one base per kind (two for units): content shapes outside '
        'depth <= 3 and more than two simultaneous mutations are not covered.'),
 'C11': dict(level='exploration', ref='3/C11',
   technique='bounded-exhaustive enumeration of a grid of generated models (API-built and printed-then-parsed), every entity cloned, then every single mutation of a mutation '
             'alphabet applied to original and (separately) clone on fresh objects; judged by independent canonical dumps, printer output, equals(), parent and object identity',
   text='Models = full grid over 8 dimensions (hierarchy shape 4, encapsulation ids 2, units flavour 4 incl. imported and variable-owned units, reset flavour 5 incl. unset order / variable of '
        'another component / null variables, imports 3 incl. two components sharing one import source, equivalences 4 incl. mapping+connection ids, math 2, ids 2: 7680 models thorough, '
        '216 quick), each built through the API and re-read from its printed form. Every model, component, units, variable and reset is cloned: field-by-field content incl. isOrderSet, encapsulation '
        'ids, import references, equivalences with ids; printed forms; equals both ways; no parent; no object shared with the original; equivalences closed over the clone. Then every member of '
        'the alphabet (all setters on every reachable sub-entity, add/remove of every child kind, equivalence add/remove/ids, import source url/id through the entity, ~50-250 per entity) is '
        'applied to a fresh original and to a fresh clone and the other side must be unchanged (0.4 M mutations quick). A reset-link grid (2 shapes x variable in {own, sibling, child, no component, null} x test_variable in the same five x order set/unset = 100 models) gets the same oracle and mutation phase, '
        'plus: a link to a variable of the reset\'s own component must be re-targeted to the clone\'s variable at the same position. An import-sharing grid (imported component with an imported child / grandchild below a local child / sibling, with or without imported units, every partition of these entities into shared '
        'import-source objects: 21 models, API-built and parsed) adds: the sharing partition of import sources is the same in original and clone. A twins grid (122 models, API-built and parsed: content-equal sibling components / variables / units / resets with equivalences, resets and shared import sources on the first, '
        'the later or both twins) gets the same oracle. An equivalence-position grid (all ordered forests on 2..5 components of depth <= 3 x which components bear a variable x which pair of them is connected, or all pairs: 3678 models, '
        'API-built and parsed) is judged with the oracle before mutation on every entity. A further family clones models with an equivalence to a variable outside '
        'the model (no crash, own equivalences unchanged).',
   note='Trusted: canonical dumps (common.hpp, c10c11.hpp), the JSON->API builder, the repository printer/parser for the parsed origin and the printed-form comparison, ASan/UBSan. Known field '
        'losses are repaired on the clone from outside before the whole-object comparisons so that other differences still surface. The mutation phase of the parsed origin runs without ASan. Only one '
        'mutation per run; models have <= 4 components and 2 variables each.'),
 'C16': dict(level='exploration', ref='3/C16',
   technique='bounded-exhaustive enumeration of all strings of length <= 5 over the numeric alphabet in every numeric position, against a reference DFA',
   text='Every string of length <= 5 over {digits,+,-,.,e,E,space,a} (quick: digits collapsed to 0,1,9; thorough: all ten) plus a list of extreme strings is placed in '
        'every numeric position (unit exponent/multiplier/prefix, initial_value, reset order, cn plain / e-notation mantissa / exponent) and handed to the '
        'recognisers and converters directly; verdict and converted value are compared with a DFA and strtod/strtol reference; all doubles d.dd x 10^k are '
        'round-tripped through printer and parser. Complete for the stated bound; nothing is sampled.',
   note='Trusted: reference DFA written from the statement, glibc strtod/strtol, libxml2 attribute handling, ASan/UBSan as crash oracle. Longer strings are covered only by the fixed extreme list.'),
 'C18': dict(level='model_checking', ref='3/C18',
   technique='explicit enumeration of all connection graphs x query orders on the real code, plus an exhaustively explored model of the cache-key arithmetic '
             'over address windows that is bound to the code by placing real Variable objects at the witness addresses and reading the key the code stored',
   text='(a) every graph on n <= 4 (quick) / 5 (thorough) variables, every assignment of the variables to 2-3 components (flat siblings, and for n <= 4 also nested), is built through the API and '
        'analysed; all ordered pairs incl. (v,v) are asked 3x each of Variable::hasEquivalentVariable(v,true) and AnalyserModel::areEquivalentVariables in lexicographic, reverse '
        'and each-pair-first order, and for n <= 3 in ALL permutations of the ordered pairs; answers are compared with union-find reachability over the equivalentVariable(i) lists. '
        '(b) the key K(a,b) read from analysermodel.cpp is explored over 12 (quick) / 24 (thorough) windows of 64 / 256 MiB of 16-byte-aligned addresses: all sums are enumerated, '
        'sorted by T(s) and every near-equal pair expanded, which yields ALL key collisions inside a window (the enumerator is cross-checked against brute force on scaled-down word widths); '
        'each witness is replayed on real Variables placed at the colliding addresses (harness-owned operator new + mmap(MAP_FIXED_NOREPLACE)), connected/unconnected both ways, '
        'both component and query orders, on the analysed model and on a fresh analyser model; the key the real code stored in mCachedEquivalentVariables is compared with K on every witness, '
        'on 141 spread addresses and on 1024 / 2048 consecutive objects per base (all pairs). If the code is keyed differently the evidence says model_bound:false and the verdict rests on '
        'the end-to-end replays and all-pairs correctness + observed-key injectivity on those address sets.'
        ' (c) histories: breadth-first search over all API histories up to depth 5 / 6 on 3 variables, 4 / 5 on 4 variables and (lean alphabet) 4 / 5 on 5 variables that interleave addEquivalence (with and without ids), removeEquivalence, '
        'removeAllEquivalences, set/remove mapping and connection id on direct, indirect and unconnected pairs (both argument orders) and the DESTRUCTION of a variable (removed from its component, last reference dropped; neighbours keep an expired entry), '
        'de-duplicated by observable state + private id-map entries + raw neighbour lists (order, expired slots); in every reached state, over the live variables: neighbour lists equal the reference edges and are symmetric, hasEquivalentVariable (direct and indirect) and '
        'areEquivalentVariables (two fresh analyses asked in opposite orders) equal reachability over the live edges, and both id getters are judged: identifiers are decorations that never change connectivity, and a pair that is not linked has the id "".',
   note='Trusted: union-find reference, the placement allocator (an address is only used when the kernel maps exactly that page), glibc/ASan allocators for part (a), the one-line key model (only used to FIND '
        'candidate addresses; every verdict is an answer of the real code). Windows are a finite list of bases, each explored exhaustively; absence of collisions elsewhere is claimed only '
        'structurally (observed key = ordered address pair). Address-dependent wrong answers in part (a) would depend on the allocator layout and are not replayable; part (b) owns them.'),
 'C08': dict(level='exploration', ref='3/C08',
   technique='bounded-exhaustive enumeration of a pool of units definitions; all ordered pairs and all triples of a class-complete sub-pool judged by an exact rational reference reduction',
   text='Pool U = every units definition over references {metre, second, gram, litre, volt, dimensionless, user base units, earlier members}, prefix {none, milli, kilo, 3, -2}, '
        'exponent {1, 2, -1, 0.5, 0}, multiplier {1, 1000, 0.25}: all 600 one-child definitions, all ordered pairs of a child menu (two children, both orders), nesting depth 1 and 2, '
        'each also imported (Importer::addModel) and reached through an imported intermediate, every built-in name as a childless object, parentless definitions one definition reaching the same resolved imported units twice (imp*imp, two imports of the same units, import plus a local or imported intermediate using it, both orders) (quick 3764 members / '
        '146 reduction classes, sub-pool 562; thorough 15996 / 294, sub-pool 1063). ALL ordered pairs of U (compatible, scalingFactor, equivalent; symmetry and inverse law), ALL triples of a sub-pool holding '
        'every reduction class (transitivity, multiplicativity), null / dangling / parentless / unresolved arguments and 2412 generated partially defined definitions (every sequence of 1..3 unit children over 6 undefined and 4 defined reference kinds with at least one undefined child, direct / behind an intermediate / imported; isDefined, compatible, factor, equivalent must all say no), child-order and import twins, and one validated two-component model '
        'per ordered pair of the sub-pool (verdict and both parts of the mismatch hint), plus one analysed model with executed generated C per equal-reduction pair of the sub-pool. Complete for the stated menus; nothing is sampled.',
   note='Trusted: the reference (exact rationals for exponents, log10 scale as a + b*log10(2), built-in units table typed from the CellML 2.0 specification), glibc log10/pow within 1e-12, '
        'Importer::addModel/resolveImports/flattenModel as the way imported units are made available (a flattened model whose units changed is counted, not judged). The SI-ratio oracle is '
        'applied only where prefixes and multipliers sit on children of exponent 1 (statement carve-out); outside it only the algebraic laws are judged. Analyser/generator scaling is judged on one equation shape only (y = v2 with v1 = 1 connected), by executing the generated C with a small evaluator.'),
 'C19': dict(level='exploration', ref='3/C19',
   technique='bounded-exhaustive enumeration of component forests x connection patterns x interface strings (fixVariableInterfaces), units assignments (linkUnits) and seeded empty entities (clean) against references computed from the case specification',
   text='fixVariableInterfaces: every rooted forest on <= 4 (thorough 5) components x hub component x every ordered sequence of 1 or 2 (3 on <= 3 / 4 components) distinct targets among the other '
        'components, a component of another model, a component outside any model and a parentless variable x all 6^(k+1) interface strings from {unset, public, private, public_and_private, '
        'none, foo} (one-link structures and the hub of two-link structures on <= 3 / 4 components: a menu of 24 strings with 18 more invalid ones holding each legal value as prefix / suffix / infix); return value, every final interface string, untouched bystanders, frame condition and the validator are judged. linkUnits: 2 layouts x all 6^4 units assignments '
        '(standard, by string, own object, foreign object, missing, none), twice (idempotence), with pointer identity. clean(): every forest seeded with one or two of 14 emptiness variants in every '
        'slot, and every sequence of <= 4 (5) units over 7 kinds, compared unsorted with an independently built expected model. Complete for the stated bounds.',
   note='Trusted: the relation sibling / parent / child read off the parent vector, the documented definition of "empty" in model.h (import-only and encapsulation-id-only entities are accepted either way), '
        'the canonical dump of common.hpp, the validator as a second opinion only when true is returned. A variable never has more than three equivalences; two variables of one component are never connected.'),
 'C13': dict(level='model_checking', ref='3/C13',
   technique='explicit-state breadth-first search over Annotator API histories with the implementation as transition relation (xstate.hpp), states de-duplicated on the models plus the annotator\'s hidden cache/counter; '
             'plus bounded-exhaustive placement of pre-existing ids; every transition judged against an independent traversal of the model',
   text='Universe: a model with 5 components (one encapsulated, one imported that has a locally defined child component with its own nested child), 4 variables with two equivalences (one below the import), local and imported units, 1 unit child, 2 resets (one below the import), 1 shared import source, and a second model '
        'for foreign items. Alphabet (157 operations): setModel(m0|m1|null); after-setModel edits of 16 id carriers to "", "a", the next automatic id and its successor and of the 11 carriers below the imported component to "a" and the next automatic id; add/remove entities; destroy the model; '
        'assignAllIds(), assignAllIds(m0|m1|null), assignIds(type) for all 15 CellmlElementType values, assignId for 37 items (every carrier, foreign, out-of-range, null, inconsistent), clearAllIds x4. '
        'Depth: quick 2 (full alphabet, both starts) and 3 (44-operation core alphabet, both starts); thorough 3 (full, both starts) and 4 (core, both starts). Lookups (item, items, ids, '
        'duplicateIds, itemCount, isUnique, 13 typed getters, indexed forms) and Printer::printModel(m, true) are observations in every reached state. Plus every placement of <= 1 (quick) / <= 2 (thorough) '
        'menu ids on 30 carriers x 3 backgrounds x 47 assign* calls on a fresh annotator, index >= count for every getter, and the import-sharing family: for <= 3 (quick) / <= 4 (thorough) imported units and <= 2 / <= 3 imported components every set partition of the importing entities into ImportSource objects (non-adjacent and units-component sharing included) x every subset of sources with an id x distinct or pairwise equal ids x with/without local entities listed in between x 5 assign* calls (14,600 / 418,440 cases).',
   note='Trusted: the traversal through public getters (reference), libxml2 for reading the printed text, ASan/UBSan as crash oracle, a mirrored AnnotatorImpl layout (verified by a start-up probe) used only for the '
        'de-duplication key and the "next automatic id" menu entry. Not claimed: histories longer than the depth, other universes (several connections between the same components, MathML ids), lookups without a model.'),
 'C15': dict(level='exploration', ref='3/C15',
   technique='bounded-exhaustive enumeration: enum sweeps (ReferenceRule x level, element type x stored object x accessor), all import lists of <= 2/3 imports over 14 library files on disk, all single deviations of '
             '4 seed documents through every service in strict and permissive mode, one scenario per failing path; a Logger-coherence checker runs after every service call (also inside every other check of the suite)',
   text='rules: 132 ReferenceRule values x 3 levels on issues built through Issue::IssueImpl; anyelement: 16 type values x 21 stored-object kinds x 8 accessors; explain: ~125 failing scenarios (parser, importer, annotator, '
        'analyser; strict and permissive); imports: every ordered list of <= 2 (quick) / <= 3 (thorough) imports, each component|units x {valid, CellML 1.1, related/unrelated errors, warnings, not XML, empty, missing, '
        'missing target, nested, cyclic, missing units} x strict/permissive, resolved from disk and again from the library, flattened, analysed; corpus: ~890 single deviations (delete/duplicate/rename/empty element; '
        'delete/rename/empty/garbage/copy-sibling attribute) of 4 seeds x 2 modes through parser, validator, printer(+autoIds), analyser, importer, annotator. attrgrid: 1787 documents (every element kind of a 2.0 and a 1.1 base, component_ref at three levels) x attribute position x {unknown, foreign-/CellML-namespace duplicate, missing, unresolvable (+unknown at every position)} x 2 parser modes. After every call: counts add up, per-level accessors enumerate '
        'issue(i) in order, out-of-range indices null, description/level/rule/heading/url/item coherent (a typed item holds an existing object of its kind); failing results have issues.',
   note='Trusted: the checker in harness/common.hpp (written from the statement; reads the stored std::any through -fno-access-control), the harness\'s reading of "fails". Not claimed: documents more than one deviation away from '
        'the seeds; whether an import should have succeeded (C07). Crashes found by the corpus belong to C01 and are listed as known findings.'),
 'C12': dict(level='model_checking', ref='3/C12',
   technique='explicit-state exploration of call histories on the real code with one forked process per history and per probe: all histories of length <= 2 (quick) / <= 3 (thorough) '
             'over a 27-operation alphabet, each followed by every operation as a probe, compared with the same probe in a fresh process; plus BFS to closure over the abstract tuple of '
             'process-global state (all public libxml2 globals, parser-initialised flags, DTD-decompressed flag) with the abstraction validated on every transition',
   text='Alphabet: parse strict/permissive x 6 documents (math with / without inter-element blanks, resets with math, imports, CellML 1.1, invalid incl. DTD-invalid math), print, print+autoIds, '
        'validate (valid, invalid), analyse (valid, invalid, unlinked units), generate C / Python / C-with-power-operator profile (all on ONE held AnalyserModel of a model with root/degree, log/logbase, power, piecewise, min/max), resolveImports, flattenModel, Annotator::assignAllIds, Units::scalingFactor, '
        'Component::isDefined; service calls work on the model returned by the latest parse in the history, else on an API-built twin, on long-lived service instances. '
        'Every history (mixed-radix index) runs once in a forked child of a pristine process and is followed by EVERY operation in a forked grandchild. Judged per (history, probe): '
        'raw model dump (raw math strings) / text / issue list with descriptions equal to the fresh-process observation; argument model unchanged; second call on the same instance '
        'observes the same; every model, issue and AnalyserModel returned earlier dumps as when returned (AnalyserModel dump = variables, equations and every equation AST node with the consistency of its parent link); Analyser::model() exposes only the model just analysed. '
        'Quick: 757 histories x 27 probes (+28 under ASan); thorough: 20440 x 27. Conflicting-twin family: a second alphabet of 32 operations = 16 parser/service calls on a document and on its conflicting twin (every name kept, every meaning changed: units definitions, variable units / initial values, moved ids, import references, imported file content under the same url, numbers in the math), all histories of length <= 1 (quick: 66 cases x 32 probes) / <= 2 (thorough: 2114 x 32) on one set of service instances, each in two modes (caller keeps / destroys every model and result after each call; the destroying mode also under ASan), all issue levels compared with a fresh process. Query family: 72 getters / lookups of the long-lived service instances (Importer library by key and index, Logger getters of every service, Annotator typed lookups with known / unknown / wrong-kind ids and out-of-range indices, Analyser external-variable lookups, Generator getters, strict flags) inserted before / after / instead of the op of every history of length <= 1 (quick: 9 group sweeps x 55 positions = 495 cases, bisected to the single getter on anomaly, + 55 under ASan; thorough: every single getter too, 4455 cases), each followed by all 27 probes and a dump of the documented state of every instance: a query must change nothing. BFS over global-state tuples runs to closure (7 states, 182 transitions), two histories with the same '
        'tuple but different observations are reported as harness abstraction errors (exit 2). Complete for the stated bound; nothing is sampled.',
   note='Trusted: the canonical dumps in harness/common.hpp + c12.cpp (public getters), fork() isolation, dlsym/ELF-symtab reads of the globals (no libxml2 accessor is called), libxml2 itself. '
        'The known blank-handling leak is filtered by a CAUSAL predicate only: the finding must vanish when xmlKeepBlanksDefaultValue is put back to its fresh value after every library '
        'call of the same history. Not claimed: histories longer than the bound, documents other than the six, hidden state that no probe of the alphabet can observe, the annotator as a judged service.'),
 'C02': dict(level='exploration', ref='3/C02',
   technique='bounded-exhaustive enumeration of model specs (forests x connection subsets x listing orders x id patterns; units; resets; imports; math) and of awkward '
             'texts in every string attribute position, judged by an independent canonical dump and by a second, hand-written renderer of the same spec',
   text='Every spec of harness/modelspec.hpp is taken through API build -> validator -> own XML rendering read by the strict parser (must equal the API-built model) -> '
        'print -> independent well-formedness -> strict parse (same canonical content; no parser issue if the validator accepted the model) -> print -> parse (same content); the printed text is then read back by four further strict parsers with a history (already read this document / read a CellML 1.1 document permissively / read non-XML and an error-ridden document / all of these plus the two documents of the two neighbouring cases) and printed by a printer that has printed another model - same content, same number of issues as a fresh parser (all families; in the quick tier all but h-q). '
        'Quick: all labelled rooted forests on <= 3 components x 1|2 variables x every subset of <= 2 admissible variable pairs x every listing order x both orientations x 5 '
        'id patterns x 2 name orders (29 736), variable attribute product (120), units definitions (6 698: all (reference,prefix,exponent,multiplier) combinations for <= 2 unit '
        'children, every acyclic 2- and 3-definition reference structure in every listing order), resets (65), imports (346), imported components at every position of every labelled forest on <= 4 components x every import mask x with/without imported units x own/shared source x ids (14 866; thorough <= 5 components, 323 314), math blocks x prefix declaration place (15), and '
        '33 string attribute positions x 11 awkward texts (363); a sanitizer sub-family repeats <= 2 components, resets, imports, variables, texts under ASan+UBSan. Thorough: '
        'subsets of <= 3 on 3 components (217 896), all 125 forests on 4 components with subsets of <= 2 (790 096), larger units/resets/imports families and all pairs of 29 '
        'positions x 11^2 texts (49 126). Complete for the stated bounds; nothing is sampled.',
   note='Trusted: the canonical dump of harness/common.hpp (public getters only), the spec renderers of harness/modelspec.hpp (string concatenation, own escaping), libxml2 as '
        'independent well-formedness/canonicalisation oracle, the real validator as the definition of "validator-accepted". Not claimed: cross products of the families, models '
        'with more than 4 components or 3 connections, autoIds printing, per-pair-inconsistent connection ids (domain note 2).'),
 'C14': dict(level='exploration', ref='3/C14',
   technique='bounded-exhaustive enumeration of (model spec x every combination of the applicable CellML 1.0/1.1 spelling choices), judged against the strict parse of the CellML 2.0 '
             'rendering of the same spec',
   text='Every spec (forests on <= 2 components, thorough 3, x every subset of <= 2 admissible connections x id patterns; variable attribute product; units definitions; imports as 1.1; '
        'math) is written as CellML 2.0 and as CellML 1.0/1.1 under all combinations of: namespace; encapsulation group alone / containment group before / after / both relationship_refs; '
        'map_components first/last; public_interface/private_interface in both orders x "none" spelled out or omitted; three in/out patterns; units in the model or in the using '
        'component; cmeta:id or id; litre/metre or liter/meter; cellml prefix declared on math/cn/model; with or without 1.x-only constructs (RDF, reaction/role, base_units). Oracle: '
        'permissive parse == strict parse of the 2.0 text (canonical dump), nothing above MESSAGE, version message first, transformed model validates, prints and re-reads the same; '
        'strict parser: >= 1 error and an empty model. Quick 83 220 documents (+ 12 000 under ASan+UBSan), thorough 2 370 498 (+ the 83 220 under sanitizers), plus the child-order family (position of the relationship_ref elements inside the encapsulation group, every order of the model child blocks and of the component child kinds, map_components between the map_variables, import children reversed; quick 10 264 documents with identity/reverse/rotations of each permutation, thorough 201 744 with every permutation), plus 19 single-construct '
        'probes x 2 namespaces. Complete for the stated bounds; nothing is sampled.',
   note='Trusted: the 1.x and 2.0 renderers of harness/modelspec.hpp (the mechanical rewrite rules, written from the CellML 1.0/1.1 specifications), the canonical dump of '
        'harness/common.hpp, the strict parser on the 2.0 text as reference (its faithfulness is C02\'s check on the same specs), the real validator. Not claimed: real-world 1.x files, '
        'reaction semantics, 1.x documents that are not the rewrite of a valid 2.0 model (e.g. component-scoped units with clashing names, non-zero unit offsets).'),
 'C04': dict(level='fault_enumeration', ref='3/C04',
   technique='bounded-exhaustive enumeration of valid-by-construction models built through the API (small-scope grammar, index-addressed) x a catalogue of 71 single-fault injectors applied at every applicable location, judged against an expected-rule table written from the CellML 2.0 rule names',
   text='Bases: every component forest on <= 3 (quick) / 4 (thorough) components in every shape and child order x 1-2 variables per component x every set of <= 3 admissible connections x '
        'connection / units-group / naming (incl. concatenation look-alikes) / id-decoration patterns; one units definition in every reference x prefix x exponent x multiplier x second-child '
        'combination; variable units x initial value x interface; 0-2 resets over 1-3 connected components; every non-empty subset of 5 import kinds x shared/own source x ids x resolved by '
        'Importer or not; 6 equation shapes x 3 contexts and one valid use of each of the 70 supported MathML elements. Units chains of 1-4 user-defined levels with an exponent from {1,2,-1,0.5 (,3)} at every level x prefix/multiplier decoration x 4 innermost units are paired across a connection with base^p for every p a wrong reduction could yield (innermost only, outer dropped, outer only, sign lost, 1): zero issues iff p is the product of the exponents (computed by the harness), else a MAP_VARIABLES_ELEMENT error. Each base must validate with zero issues; each injector (identifier '
        'syntax, duplicate names, invalid/duplicate ids over 13 carrier kinds, standard-unit names, unit references/prefixes, units cycles of length 1-3, variable units/interface/initial value, '
        'interface sufficiency, unreachable / parentless / unit-incompatible connections, incomplete or misplaced resets, duplicate reset orders over the connected variable set, import '
        'href/reference/target/cycle faults, faults inside resolved libraries, and ~250 MathML faults: non-XML, wrong root, unsupported or foreign elements, DTD violations, arity and position per '
        'operator family, ci/cn faults, foreign cellml attributes, ids) is applied at every applicable location, one fault at a time, and must yield an ERROR citing a rule of its expected set. '
        'Complete for the stated bounds; nothing is sampled.',
   note='Trusted: the base grammar (valid by construction) and the expected-rule table in harness/c04.cpp, written from Issue::ReferenceRule names and the section headings of issue.cpp; where the '
        'broken rule and a neighbouring rule cannot be told apart through the object model both are listed there with the reason. Math-bearing bases (16-75 ms per validation) run the reset, math, '
        'id and name injectors only; cyclic units are injected away from connected variables (the crash class under connections is the separate 6-case family). ASan/UBSan sub-family on the smallest bases.'),
 'C07': dict(level='fault_enumeration', ref='3/C07',
   technique='bounded-exhaustive enumeration of all import graphs of small shapes, every single fault at every position of every resolvable graph and all repair sequences of depth 3, on the real Importer (files on disk and addModel library), judged by a reference graph search on the spec',
   text='All import graphs with F files are enumerated by mixed radix: every component / units of every file is concrete (with every local units-reference pattern: component uses units k, an '
        'encapsulated child uses units k, units reference every subset of the other local units or themselves) or an import of every same-kind entity of every file, own file included. Quick: '
        '2 and 3 files x (1 component + 1 units) (400 + 27 000 graphs), 1+1 | 2+2 (69 120), units-only 3|1|1 and 1|3|1 (2 x 49 000), each delivered as files on disk and as an addModel library; '
        'every single fault (file missing, truncated at 6 prefix classes, other XML, CellML 1.1 with strict and permissive importer, 2.0 with parse errors / validation errors / parser warnings, '
        'every entity of every library file removed, every back-edge closing an import cycle of each length) on every resolvable connected graph of four of these shapes; repair sequences '
        'resolve(fault) -> [flatten] -> repair on disk / in the library -> {importer as is, after removeAllModels(), new importer} x {same root object, root parsed again} -> resolve -> flatten '
        'on the 2- and 3-file shapes, each repair also with the first importer and the models it loaded kept alive by the caller and with an explicit clearImports(). '
        'Directory-layout dimension (disk delivery): every file of the graph in every directory of {./, a/, a/b/, s/} (root model in ./ or a/), hrefs relative to the importing file in three spellings (plain, with a redundant ./, with a detour dir/../), then the same graph through a library registered under exactly the keys the on-disk run produced; judged like every other run plus: every key read as a path leads to the file it stands for, import sources are bound to the model of their file, library delivery behaves like disk delivery. Quick: 2 files x 1+1 in all 24 layouts (9 600 cases) and 3 files x 1+1 with the root in ./ and plain hrefs (432 000 cases, acyclic graphs); thorough: shape q3 (3 files x 1+1 where a component may also use units only through a cn; 42 875 graphs x 96 layouts) and 1+1|2+2 (x 24), cyclic graphs of these with plain hrefs and the root in ./ only. Nesting dimension: shapes n2 (2 files x 2 components, 5 625 graphs) and r3 (3|1 components, 10 000) additionally carry EVERY encapsulation forest over the components of every file '
        '(imports nested under imports / under concrete components), with their fault and repair families (quick); thorough adds the nested shapes 2+0|2+1 (33 075) and 2|2|1 (69 984). Thorough adds 4 files x 1+1 with <= 5 imports (893 184 graphs), 3 files x 2+2 with <= 4 imports (691 489), 1|1+3|0+1 (118 098), with their fault families, '
        'and repairs on three more shapes. resolveImports is compared with the reference (true exactly when every transitive import is satisfiable), then hasUnresolvedImports(), the item of the '
        'issues, flattenModel (null with an issue when unresolved), libraryCount()/key(i)/library(), Logger coherence after every call; every call runs under a stack-overflow guard so that '
        'non-termination by unbounded recursion is recorded per step and the scenario continues. Complete for the stated bounds; nothing is sampled.',
   note='Trusted: the reference graph search and the CellML renderer in harness/c07.cpp (written from the property statement and the CellML 2.0 import rules; a selftest family checks that the '
        'fault documents are what their names claim), libxml2, the filesystem. Not judged (generated and run for termination/coherence only): graphs whose files import from each other without '
        'an entity-level cycle, graphs whose only cycle consists of ordinary units, needed files with 2.0 parse errors, resolution after a repair without clearing the library. Entity names are '
        'the same in all files on purpose (name clashes). The bulk runs on the plain (-O2) library; the 2-file shapes (thorough: also the 3-file 1+1 shape) run under ASan+UBSan. Crash classes '
        'are named by step and recursing function (frame-pointer chain / return-address census on the overflowing stack), not by sanitizer report.'),
}
