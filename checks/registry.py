"""One entry per claimed property: level, technique, texts. bin/mkmanifest turns this into MANIFEST.json."""
ALL = ['C%02d' % i for i in range(1, 21)]
CHECKS = {
 'C03': dict(level='exploration', ref='3/C03',
   technique='bounded-exhaustive enumeration of MathML expression-tree shapes x context wrappers; generated C compiled and run, generated Python executed, against an independent reference evaluator',
   text='Every expression tree of depth <= 2 over the whole supported MathML operator set (each parent x operand position x child operator, constants, cn forms) and '
        'depth-3 chains over the precedence-sensitive operators is placed in four contexts (computed constant; algebraic variable reading a state and the VOI; dx/dt = E '
        'mentioning x itself; implicit NLA equation) and evaluated at up to three leaf valuations; the compiled C and the executed Python must give the reference value of '
        'every variable, rate and state and agree with each other, and NLA objective functions must vanish at the reference solution. Shapes are packed 32 per model and '
        'any anomalous pack is bisected to single shapes; the thorough tier re-runs the depth-1/2 family unpacked.',
   note='Trusted: lib/mexpr.py reference evaluator (written from the MathML/CellML specifications), gcc -O0, CPython, tolerance 1e-9. Not covered: trees deeper than 3, '
        'non-finite or ill-conditioned valuations, units scaling between components (see C08/C06).'),
 'C10': dict(level='exploration', ref='3/C10',
   technique='bounded-exhaustive enumeration of ALL ordered pairs and ALL triples of a per-kind pool (bases, every child-order permutation, every single mutation at every '
             'depth, 0-3 identical children, not-covered variants, null) built through the API, judged by equality of an independent canonical dump (children as multisets)',
   text='For each kind (model, component, variable, units, reset, import source) the pool is {bases with depth-2 content (thorough: depth 3)} + {all permutations of every child list} + '
        '{every covered attribute altered / emptied, every child removed / added as copy of a sibling / added fresh, at every depth} + {0,1,2,3 identical children} + {same content with a '
        'parent / equivalences / order-presence flag / own units objects: must stay equal} + {empty entity, null} (quick: 212/159/41/64/64/8 members). equals(a,b) is called for ALL ordered '
        'pairs (against an independently built twin and inside one build incl. a->equals(a)) and compared with reference equality; transitivity is checked on ALL triples (real calls, memoised per '
        'process; determinism checked on every pair); all kinds are also compared with each other (look-alike name/id). Thorough adds every double mutation of the depth-2 bases against base and '
        'all single mutants in both directions (34 M pairs). Unit exponents/multipliers only take identical or clearly different values (carve-out of the statement).',
   note='Trusted: the canonical dump through public getters (harness/c10c11.hpp; never calls equals()), the JSON->API builder, ASan/UBSan. The classifier that names a mismatch '
        '(receiver-strictly-fewer / set-not-multiset) only chooses the signature; every mismatch is reported. Pools come from one base per kind (two for units): content shapes outside '
        'depth <= 3 and more than two simultaneous mutations are not covered.'),
 'C11': dict(level='exploration', ref='3/C11',
   technique='bounded-exhaustive enumeration of a grid of generated models (API-built and printed-then-parsed), every entity cloned, then every single mutation of a mutation '
             'alphabet applied to original and (separately) clone on fresh objects; judged by independent canonical dumps, printer output, equals(), parent and object identity',
   text='Models = full grid over 8 dimensions (hierarchy shape 4, encapsulation ids 2, units flavour 4 incl. imported and variable-owned units, reset flavour 5 incl. unset order / variable of '
        'another component / null variables, imports 3 incl. two components sharing one import source, equivalences 4 incl. mapping+connection ids, math 2, ids 2: 7680 models thorough, '
        '432 quick), each built through the API and re-read from its printed form. Every model, component, units, variable and reset is cloned: field-by-field content incl. isOrderSet, encapsulation '
        'ids, import references, equivalences with ids; printed forms; equals both ways; no parent; no object shared with the original; equivalences closed over the clone. Then every member of '
        'the alphabet (all setters on every reachable sub-entity, add/remove of every child kind, equivalence add/remove/ids, import source url/id through the entity, ~50-250 per entity) is '
        'applied to a fresh original and to a fresh clone and the other side must be unchanged (0.8 M mutations quick). A second family clones models with an equivalence to a variable outside '
        'the model (no crash, own equivalences unchanged).',
   note='Trusted: canonical dumps (common.hpp, c10c11.hpp), the JSON->API builder, the repository printer/parser for the parsed origin and the printed-form comparison, ASan/UBSan. Known field '
        'losses are repaired on the clone from outside before the whole-object comparisons so that other differences still surface. Quick runs the parsed origin without ASan. Only one '
        'mutation per run; models have <= 4 components and 2 variables each.'),
 'C16': dict(level='exploration', ref='3/C16',
   technique='bounded-exhaustive enumeration of all strings of length <= 5 over the numeric alphabet in every numeric position, against a reference DFA',
   text='Every string of length <= 5 over {digits,+,-,.,e,E,space,a} (quick: digits collapsed to 0,1,9; thorough: all ten) plus a list of extreme strings is placed in '
        'every numeric position (unit exponent/multiplier/prefix, initial_value, reset order, cn plain / e-notation mantissa / exponent) and handed to the '
        'recognisers and converters directly; verdict and converted value are compared with a DFA and strtod/strtol reference; all doubles d.dd x 10^k are '
        'round-tripped through printer and parser. Complete for the stated bound; nothing is sampled.',
   note='Trusted: reference DFA written from the statement, glibc strtod/strtol, libxml2 attribute handling, ASan/UBSan as crash oracle. Longer strings are covered only by the fixed extreme list.'),
 'C18': dict(level='model_checking', ref='3/C18',
   technique='explicit enumeration of all connection graphs x query orders on the real code, plus an exhaustively explored model of the cache-key arithmetic '
             'over address windows that is bound to the code by placing real Variable objects at the witness addresses and reading the key the code stored',
   text='(a) every graph on n <= 4 (quick) / 5 (thorough) variables, every assignment of the variables to 2-3 components (flat and nested), is built through the API and '
        'analysed; all ordered pairs incl. (v,v) are asked 3x each of Variable::hasEquivalentVariable(v,true) and AnalyserModel::areEquivalentVariables in lexicographic, reverse '
        'and each-pair-first order, and for n <= 3 in ALL permutations of the ordered pairs; answers are compared with union-find reachability over the equivalentVariable(i) lists. '
        '(b) the key K(a,b) read from analysermodel.cpp is explored over 12 (quick) / 24 (thorough) windows of 64 / 256 MiB of 16-byte-aligned addresses: all sums are enumerated, '
        'sorted by T(s) and every near-equal pair expanded, which yields ALL key collisions inside a window (the enumerator is cross-checked against brute force on scaled-down word widths); '
        'each witness is replayed on real Variables placed at the colliding addresses (harness-owned operator new + mmap(MAP_FIXED_NOREPLACE)), connected/unconnected both ways, '
        'both component and query orders, on the analysed model and on a fresh analyser model; the key the real code stored in mCachedEquivalentVariables is compared with K on every witness, '
        'on 141 spread addresses and on 1024 / 4096 consecutive objects per base (all pairs). If the code is keyed differently the evidence says model_bound:false and the verdict rests on '
        'the end-to-end replays and all-pairs correctness + observed-key injectivity on those address sets.',
   note='Trusted: union-find reference, the placement allocator (an address is only used when the kernel maps exactly that page), glibc/ASan allocators for part (a), the one-line key model (only used to FIND '
        'candidate addresses; every verdict is an answer of the real code). Windows are a finite list of bases, each explored exhaustively; absence of collisions elsewhere is claimed only '
        'structurally (observed key = ordered address pair). Address-dependent wrong answers in part (a) would depend on the allocator layout and are not replayable; part (b) owns them.'),
 'C08': dict(level='exploration', ref='3/C08',
   technique='bounded-exhaustive enumeration of a pool of units definitions; all ordered pairs and all triples of a class-complete sub-pool judged by an exact rational reference reduction',
   text='Pool U = every units definition over references {metre, second, gram, litre, volt, dimensionless, user base units, earlier members}, prefix {none, milli, kilo, 3, -2}, '
        'exponent {1, 2, -1, 0.5, 0}, multiplier {1, 1000, 0.25}: all 600 one-child definitions, all ordered pairs of a child menu (two children, both orders), nesting depth 1 and 2, '
        'each also imported (Importer::addModel) and reached through an imported intermediate, every built-in name as a childless object, parentless definitions (quick 2644 members / '
        '135 reduction classes; thorough about 20 k / 274). ALL ordered pairs of U (compatible, scalingFactor, equivalent; symmetry and inverse law), ALL triples of a sub-pool holding '
        'every reduction class (transitivity, multiplicativity), null / dangling / parentless / unresolved arguments, child-order and import twins, and one validated two-component model '
        'per ordered pair of the sub-pool (verdict and both parts of the mismatch hint), plus one analysed model with executed generated C per equal-reduction pair of the sub-pool. Complete for the stated menus; nothing is sampled.',
   note='Trusted: the reference (exact rationals for exponents, log10 scale as a + b*log10(2), built-in units table typed from the CellML 2.0 specification), glibc log10/pow within 1e-12, '
        'Importer::addModel/resolveImports/flattenModel as the way imported units are made available (a flattened model whose units changed is counted, not judged). The SI-ratio oracle is '
        'applied only where prefixes and multipliers sit on children of exponent 1 (statement carve-out); outside it only the algebraic laws are judged. Analyser/generator scaling is judged on one equation shape only (y = v2 with v1 = 1 connected), by executing the generated C with a small evaluator.'),
 'C19': dict(level='exploration', ref='3/C19',
   technique='bounded-exhaustive enumeration of component forests x connection patterns x interface strings (fixVariableInterfaces), units assignments (linkUnits) and seeded empty entities (clean) against references computed from the case specification',
   text='fixVariableInterfaces: every rooted forest on <= 4 (thorough 5) components x hub component x every ordered sequence of 1 or 2 (3 on <= 3 / 4 components) distinct targets among the other '
        'components, a component of another model, a component outside any model and a parentless variable x all 6^(k+1) interface strings from {unset, public, private, public_and_private, '
        'none, foo}; return value, every final interface string, untouched bystanders, frame condition and the validator are judged. linkUnits: 2 layouts x all 6^4 units assignments '
        '(standard, by string, own object, foreign object, missing, none), twice (idempotence), with pointer identity. clean(): every forest seeded with one or two of 14 emptiness variants in every '
        'slot, and every sequence of <= 4 (5) units over 7 kinds, compared unsorted with an independently built expected model. Complete for the stated bounds.',
   note='Trusted: the relation sibling / parent / child read off the parent vector, the documented definition of "empty" in model.h (import-only and encapsulation-id-only entities are accepted either way), '
        'the canonical dump of common.hpp, the validator as a second opinion only when true is returned. A variable never has more than three equivalences; two variables of one component are never connected.'),
}
