"""One entry per claimed property: level, technique, texts. bin/mkmanifest turns this into MANIFEST.json."""
ALL = ['C%02d' % i for i in range(1, 21)]
CHECKS = {
 'C16': dict(level='exploration', ref='3/C16',
   technique='bounded-exhaustive enumeration of all strings of length <= 5 over the numeric alphabet in every numeric position, against a reference DFA',
   text='Every string of length <= 5 over {digits,+,-,.,e,E,space,a} (quick: digits collapsed to 0,1,9; thorough: all ten) plus a list of extreme strings is placed in '
        'every numeric position (unit exponent/multiplier/prefix, initial_value, reset order, cn plain / e-notation mantissa / exponent) and handed to the '
        'recognisers and converters directly; verdict and converted value are compared with a DFA and strtod/strtol reference; all doubles d.dd x 10^k are '
        'round-tripped through printer and parser. Complete for the stated bound; nothing is sampled.',
   note='Trusted: reference DFA written from the statement, glibc strtod/strtol, libxml2 attribute handling, ASan/UBSan as crash oracle. Longer strings are covered only by the fixed extreme list.'),
}
