"""C17 — generated code's declared structure matches the analysed model (DESIGN §3 C17). Same harness as C03, structure oracles."""
import sup

def main(tier):
    c = sup.Check('C17', tier, 'exploration')
    quick = tier == 'quick'
    c.set_deadline(1500 if quick else 3300)
    c.build('plain', ['lcx'])
    st = 'q' if quick else 't'
    for w in (['w1', 'w3', 'w4'] if quick else ['w1', 'w2', 'w3', 'w4']):
        c.run_family('plain', 'c03.py', 'pack', args=['--prop=C17', '--set=' + st, '--wrap=' + w], per_case_timeout=60, chunk=2 if quick else 4, nsamples=1)
    for w in ['w1', 'w3']:
        c.run_family('plain', 'c03.py', 'shape', hi=73, args=['--prop=C17', '--set=' + st, '--wrap=' + w], per_case_timeout=30, chunk=6, nsamples=1)
    c.run_family('plain', 'c03.py', 'invalid', args=['--prop=C17'], per_case_timeout=30, chunk=4)
    c.run_family('plain', 'c05.py', 'names', args=['--n=2'] if quick else ['--n=3', '--edges=1'], per_case_timeout=30, chunk=30, nsamples=1)
    c.run_family('plain', 'c20.py', 'ext', args=['--prop=C17', '--set=' + st], per_case_timeout=60, nsamples=1)
    return c.finish(
        rule='every valid analysed model of the C03 enumeration (expression shapes packed 32 per model, wrappers w1/w3/w4: algebraic, ODE, NLA; every helper-requiring '
             'operator nested in every operand position, and every operator ALONE in a model of its own), every external-variable model of the C20 enumeration, a family of dependency-graph models (algebraic, ODE, NLA, DAE) in which one class - each variable and the VOI in turn - carries a name, units name and component name longer than everything else in the model, and a list of missing/invalid/non-valid-typed models; '
             'judged = shapes (or models) whose generated C was compiled with -Wall -Wextra -Werror (only unused-parameter/-variable allowed), loaded, and whose counts, '
             'info tables, helper functions and declared-vs-defined functions were compared with the AnalyserModel; Python code exec\'d and compared likewise',
        assumptions=[
            'helper-function need is computed from the public AnalyserEquationAst of every equation: helper f is required iff some AST node has the operator type that f implements under that profile',
            'gcc 12 -std=c99 diagnostics are the yardstick for "compiles without diagnostics"',
            'info strings are read raw from the loaded library; "fits its buffer" = a NUL terminator lies inside the declared array',
        ])
