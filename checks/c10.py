"""C10 — equals() is a true equivalence relation that sees every attribute (DESIGN §3 C10)."""
import sup

KINDS = ['model', 'component', 'variable', 'units', 'reset', 'importsource']


def main(tier):
    c = sup.Check('C10', tier, 'exploration')
    quick = tier == 'quick'
    c.set_deadline(600 if quick else 2400)
    c.build('asan', ['c10'])
    depth = ['--depth=2'] if quick else ['--depth=3']
    for k in KINDS:
        c.run_family('asan', 'c10', 'pairs:' + k, args=depth)
    for k in KINDS:
        c.run_family('asan', 'c10', 'pairs-shared:' + k, args=depth)
    c.run_family('asan', 'c10', 'cross', args=depth)
    for k in KINDS:
        # one process fills the memoised equals() matrix lazily: few large chunks
        n = c.families['c10/pairs:' + k]['count']
        c.run_family('asan', 'c10', 'triples:' + k, args=depth, chunk=max(1, int(n ** 1.5) // 32 + 1), per_case_timeout=0.01)
    if not quick:
        c.build('plain', ['c10'])
        for k in KINDS:
            big = k in ('model', 'component')
            c.run_family('plain' if big else 'asan', 'c10', 'pairs2:' + k, args=['--depth=2'], chunk=400000 if big else None, per_case_timeout=0.05)
            c.run_family('plain' if big else 'asan', 'c10', 'pairs2-shared:' + k, args=['--depth=2'], chunk=400000 if big else None, per_case_timeout=0.05)
    pools = {k.split(':', 1)[1]: v for k, v in c.counters.items() if k.startswith('pool_size:')}
    return c.finish(
        rule='a case is one ordered pair (i,j) resp. one triple (i,j,k) of pool members, index-addressed, ALL of them enumerated; pool members are distinct by '
             'construction as (base, mutation site, mutation) - counters pool_size / pool_distinct_contents give members and distinct canonical contents per kind; '
             'judged = equals() answers compared with the reference (pairs: twice, against an independently built twin and inside one build incl. the very same '
             'object; triples: those whose two premises hold). Pools: %s' % pools,
        assumptions=[
            'reference equality = equality of a canonical dump through public getters with children as sorted multisets, covering exactly the attributes the statement lists '
            '(id, name, encapsulation id, math as text, import source id+url and reference, child components, variables with units/initial value/interface, resets with order '
            'value/variables/test+reset values and ids, units and unit children); parents, equivalences, the reset order PRESENCE flag, the resolving model of an import '
            'source and object identity of units are not covered and are generated as must-stay-equal members',
            'unit exponents/multipliers only take values that are identical or differ by >= 0.5 (carve-out of the statement: within 1 ulp is not claimed)',
            'math is compared as text (the statement says "math"; whitespace variants are C12\'s subject)',
            'quick: depth-2 bases (two children per kind); thorough: depth-3 bases (three children, one more component level) plus every double mutation of the depth-2 '
            'bases against base and all single mutants, both directions',
            'aliasing: pairs-shared / pairs2-shared rebuild the same pools with an alias registry - every import source, own units object of a variable and free-standing '
            'variable of a reset is ONE instance per distinct content across the whole pool, so two members that differ only next to such a sub-object hold the very '
            'same instance of it (own-copy construction = pairs / pairs2, shared-instance construction = *-shared); the reference is unchanged (content only)',
            'the triples family memoises equals(i,j) per process; pairs:<kind> checks on every pair that the answer is deterministic',
        ])
