"""C03 — generated code computes what the equations say (DESIGN §3 C03)."""
import sup

WRAPS = {'quick': ['w1', 'w2', 'w3', 'w4', 'w5'], 'thorough': ['w1', 'w2', 'w3', 'w4', 'w5']}

def main(tier, prop='C03'):
    c = sup.Check(prop, tier, 'exploration')
    quick = tier == 'quick'
    c.set_deadline(1500 if quick else 3300)
    c.build('plain', ['lcx'])
    st = 'q' if quick else 't'
    for w in WRAPS[tier]:
        c.run_family('plain', 'c03.py', 'pack', args=['--prop=' + prop, '--set=' + st, '--wrap=' + w], per_case_timeout=60, chunk=2 if quick else 4, nsamples=1)
    # every operator alone in a model of its own (need flags and helper functions are per model, a pack would mask them)
    for w in (['w1', 'w3'] if quick else WRAPS[tier]):
        c.run_family('plain', 'c03.py', 'shape', hi=73, args=['--prop=' + prop, '--set=' + st, '--wrap=' + w], per_case_timeout=30, chunk=6, nsamples=1)
    if not quick:
        # the packing must mask nothing: the depth-1/2 part of w1 again, one shape per model
        c.run_family('plain', 'c03.py', 'shape', hi=2500, args=['--prop=' + prop, '--set=' + st, '--wrap=w1'], per_case_timeout=30, chunk=40, nsamples=1)
    return c.finish(
        rule='every expression tree of depth <= 2 over the full supported MathML operator set (every parent x operand position x child operator, plus '
             'constants and cn forms) and depth-3 chains over the precedence-sensitive operators, in wrappers w1 (computed constant), w2 (algebraic, reads a '
             'state and the VOI), w3 (dx/dt = E mentioning x), w4 (implicit NLA form), w5 (operands a and d live in another component in millimetres / kilometres and reach the equation through connections); each shape is a distinct case by construction and is evaluated at up to 3 '
             'leaf valuations; the 73 depth-0/1 shapes (each operator alone) are also run one per model; judged = (shape, valuation) pairs whose reference value is finite and well-conditioned and that were compared against compiled C and exec\'d Python',
        assumptions=[
            'reference evaluator lib/mexpr.py written from the MathML/CellML specification (root = x^(1/degree), log base 10 by default, rem = fmod, relational/logical results are 1.0/0.0)',
            'valuations that hit a domain error, a non-finite or ill-conditioned (|value| > 1e9) intermediate are not used; a shape with no usable valuation is not judged',
            'operands of logical operators and piecewise conditions are boolean-valued sub-trees or 0/1 leaves; relational results may be used as numbers',
            'gcc -O0 and CPython 3.11 are trusted to execute the generated text faithfully; tolerance 1e-9 relative',
            'NLA systems: the solver stub discovers which unknowns the objective function writes (sentinel values), evaluates the objective at the reference solution and returns it',
        ])
