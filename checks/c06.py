"""C06 — flattening yields an import-free model with the same meaning (DESIGN §3 C06)."""
import sup

def main(tier):
    c = sup.Check('C06', tier, 'exploration')
    quick = tier == 'quick'
    c.set_deadline(1500 if quick else 3300)
    c.build('plain', ['lcx'])
    c.run_family('plain', 'c06.py', 'flat', args=['--sub=q'] if quick else [], per_case_timeout=60, chunk=40 if quick else 20, nsamples=2)
    if not quick:
        c.build('asan', ['lcx'])
        c.run_family('asan', 'c06.py', 'flat', args=['--sub=q'], per_case_timeout=150, chunk=20, nsamples=1)
    return c.finish(
        rule='the full product of import structure {leaf, encapsulated child, child that is itself an import, import of an import, grandchild} x instances {one, the same component twice} x '
             'library units {metre, library mm, mm defined through another library units, mm used only in a cn, mm through a reference chain of depth 3} x units-name clash {none, same name same definition, same name different definition, '
             'root imports a different units under the same name, clash two levels below the import, importer owns the innermost library units under another name} x component-name clash {none, like the child, like the referenced component, import named like a library '
             'component} x root units {local, imported units on a variable, imported units only in a cn, the same units imported twice} x {one, two} <math> elements in the imported component x {none, two, three} local components of the importing model encapsulated under the first import instance; library units also include two units the library itself imports and uses against their declaration order; each case is a distinct set of files; judged = cases flattened, validated, '
             'analysed, compiled and run (C and Python) and compared with ground-truth values computed from the spec including unit scales',
        extra_cov={'quick_sub_product': 'quick restricts root units to {local, imported units on a variable}, component-name clash to {none, like the child} and local children under the import to the one-instance one-math-block cases; thorough runs the full product'},
        assumptions=[
            'ground truth: every library component computes y = 2x + 1 (through its child where present) in its own units; connected variables are converted with the ratio of the SI scales of their units',
            'only r_k = b_k + 0 is compared (a class of its own); classes merged with library variables are expressed in units the analyser chooses',
            'all input files validate on their own, so the flat model must validate with zero issues',
            'thorough repeats the quick sub-product under ASan+UBSan (memory safety of flattening); quick runs the plain build',
            'a local component moved below the instantiated import may come out renamed <name>_<n> (pinned by the repository test ModelFlattening.importingComponentThatAlsoHasAnImportedComponentAsAChild): its variables are looked up under either name',
        ])
