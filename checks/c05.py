"""C05 — analysis classifies every model and variable correctly and consistently (DESIGN §3 C05)."""
import sup

def main(tier):
    c = sup.Check('C05', tier, 'exploration')
    quick = tier == 'quick'
    c.set_deadline(1500 if quick else 3300)
    c.build('plain', ['lcx'])
    if quick:
        c.run_family('plain', 'c05.py', 'graph', args=['--n=3', '--edges=1'], per_case_timeout=30, chunk=12, nsamples=2)
        c.run_family('plain', 'c05.py', 'variant', args=['--n=2'], per_case_timeout=20, chunk=60, nsamples=1)
        c.run_family('plain', 'c05.py', 'variant2', args=['--n=3', '--edges=1'], per_case_timeout=20, chunk=60, nsamples=1)
    else:
        c.run_family('plain', 'c05.py', 'graph', args=['--n=3', '--edges=4'], per_case_timeout=30, chunk=64, nsamples=2)
        c.run_family('plain', 'c05.py', 'variant', args=['--n=3', '--edges=2'], per_case_timeout=20, chunk=200, nsamples=1)
        c.run_family('plain', 'c05.py', 'variant2', args=['--n=3', '--edges=2'], per_case_timeout=20, chunk=200, nsamples=1)
    return c.finish(
        rule='every dependency graph on n <= 3 variables (definition kind of each variable in {initial value, explicit equation, ODE, implicit equation, implicit equation with an initial guess (reading nothing), member of ONE coupled system of >= 2 implicit equations with initial guesses} x every read set over the other '
             'variables and the variable of integration, explicit definitions acyclic; quick: at most 1 read edge for n = 3, thorough: at most 4) x every placement of the variables over two '
             'connected components; each case analyses the model under 9 transformations (component / variable / equation order, three renamings incl. a twin that borrows the name of a '
             'different variable); variants: each equation dropped, each equation duplicated, each state initial value dropped; variant2: every pair of such defects of different kinds on two variables that no chain of reads connects (under + over must be unsuitably constrained, under + under underconstrained), under three listing orders; judged = analyses compared with ground truth, '
             'well-formedness rules and cross-transformation invariance; the identity transformation is also compiled, run (C and Python) and compared with reference values at two evaluation points: after the usual call sequence, and after the states were moved as an integrator would and ONLY computeVariables was called',
        assumptions=[
            'roles follow the documentation of AnalyserVariable::Type: initial value only = constant; explicit equation over constants = computed constant; anything depending on a state or the VOI = algebraic; '
            'a variable obtained from an implicit (NLA) equation over constants only may be algebraic or computed constant (undocumented) and so may explicit variables that depend on it',
            'v = literal is excluded (constant vs computed constant is documented ambiguously)',
            'implicit unknowns carry no initial value: an initialised variable inside an implicit equation is indistinguishable from an unknown with an initial guess',
            'a dependency on the ODE of a state that is read is not an ordering constraint (the state value comes from the integrator)',
            'duplicating an equation that mentions an initialised constant may legitimately be read as an NLA system for that variable',
            'a coupled system is recognised by libcellml only through initialised unknowns (its own fixtures do the same): every member carries an initial guess and reads states / the VOI only',
            'second evaluation point: the VOI is not moved (by design computeVariables computes again only state/rate-based equations, so a variable that depends on the VOI alone and is needed by a rate is as fresh as the last computeRates call - observed, not judged); rates are not compared there',
        ])
