"""C13 — identifier assignment is complete, unique and non-destructive (DESIGN §3 C13)."""
import sup


def main(tier):
    c = sup.Check('C13', tier, 'model_checking')
    quick = tier == 'quick'
    c.set_deadline(900 if quick else 2400)
    env = {'VERIF_TIER': tier, 'VERIF_SCRATCH': c.scratch}
    c.build('asan', ['c13'])
    c.build('plain', ['c13'])
    c.run_family('asan', 'c13', 'lookupindex', env=env, chunk=7)
    c.run_family('asan' if quick else 'plain', 'c13', 'sharing', env=env)
    # flavours: the memory-safety oracle (ASan/UBSan) rides on the smaller spaces of each tier; the largest spaces run on the
    # plain library (value oracle only). One transition costs ~6 ms CPU under ASan and ~1 ms plain in the 30-carrier universe.
    if quick:
        c.run_family('plain', 'c13', 'preids', env=env)
        machines = [('asan', 'annotator-full-noids'), ('asan', 'annotator-full-mixedids'), ('plain', 'annotator-core-noids'), ('plain', 'annotator-core-mixedids')]
    else:
        c.run_family('plain', 'c13', 'preids', env=env)
        machines = [('plain', 'annotator-core-noids'), ('plain', 'annotator-core-mixedids'), ('plain', 'annotator-full-mixedids'), ('plain', 'annotator-full-noids')]
        env_q = dict(env, VERIF_TIER='quick')
        for m in ('annotator-full-noids', 'annotator-full-mixedids'):
            c.run_family('asan', 'c13', m, env=env_q, per_case_timeout=3000, nsamples=0)  # depth 2 under ASan/UBSan (memory-safety oracle)
    for fl, m in machines:
        c.run_family(fl, 'c13', m, env=env, per_case_timeout=3000, nsamples=1)
    states = c.counters.get('states', 0)
    transitions = c.counters.get('transitions', 0)
    return c.finish(
        rule='machines: breadth-first search over Annotator histories with the implementation as transition relation; full alphabet = 157 operations (16 id carriers x 4 menu ids + 11 carriers below the imported component x 2 menu ids, '
             'incl. the next automatic id, add/remove entities, destroy, setModel x3, assignAllIds() / (m0|m1|null), assignIds x 15 types, assignId x 37 items, clearAllIds x4), '
             'core alphabet = 44; depth: quick full 2, core 3; thorough full 3, core 4 (both starts each); states de-duplicated on (both models incl. all ids, which model the annotator '
             'holds, edited-flag, annotator counter + cache + hash read through a mirrored layout); lookups and printModel(m, true) are observations in every reached state. '
             'preids: every placement of <= %d menu ids on the 30 carriers x 3 backgrounds (2 placed ids: id-less background only) x 47 assign* calls on a fresh annotator (single-item assignments: item()/typed getters only for ids listed once); sharing: <= %d imported units and <= %d imported components, every set partition of the importing entities into ImportSource objects x every subset of sources with an id x {distinct, pairwise equal ids} x {with, without a local units/component listed in between} x 5 assign* calls on a fresh annotator; lookupindex: 30 carriers x {0,1,2 carriers with the id} x '
             'index in {count, count+1} x 14 getters (with exactly one carrier, where every call aborts: item() for all carriers, all getters for one carrier). distinct_nontrivial = transitions + cases judged by the oracle' % (1 if quick else 2, 3 if quick else 4, 2 if quick else 3),
        assumptions=[
            'reference = independent traversal through public getters (model, encapsulation, units, unit children, import sources, components, component_refs, variables, mapping and connection ids, resets, test/reset values)',
            'assignId(item) REPLACES the id of the item (documented, pinned by the repository tests): the target is exempt from "existing ids unchanged" and must receive an id that was not present before',
            'component_ref carriers are components with a parent component or with children; the encapsulation carrier exists when some component has children (an id given to others is not judged)',
            'lookups are judged after assign* calls (the statement); after other operations disagreements are counted only (outcome lookups:observed-only:*)',
            'lookups with no model / an expired model are outside the statement and skipped (Annotator::ids() on an expired model is C09\'s crash)',
            'clearAllIds(null model): whether the annotator forgets or keeps its model is not part of the statement; the reference follows the implementation',
            'ids given to objects outside the annotator\'s model by a failing assignId are counted, not judged; changing an EXISTING id of such an object is judged',
            'the annotator\'s private state (AnnotatorImpl is defined in annotator.cpp) is read through a mirrored struct verified by a start-up probe; it feeds only the de-duplication key and the adversarial "next automatic id" menu entry',
            'the universe is built through the API (no modelgen exists): 5 components (one encapsulated child, one imported with a LOCAL child component that has a variable, a reset, an equivalence and a nested child), 4 variables with two equivalences, local + imported units, 1 unit child, 1 reset, 1 shared import source; second model for foreign items',
        ],
        extra_cov={'states': int(states), 'transitions': int(transitions), 'traces_validated_against_impl': int(transitions),
                   'machine_depths': {'annotator-full-noids': 2 if quick else 3, 'annotator-full-mixedids': 2 if quick else 3, 'annotator-core-noids': 3 if quick else 4, 'annotator-core-mixedids': 3 if quick else 4},
                   'note_on_counters': 'counters are summed over the four machines (max_depth is the sum of their depths)'})
