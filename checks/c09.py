"""C09 — ownership invariants survive any API history; bad arguments never crash (DESIGN §3 C09)."""
import glob, json, os, re, subprocess
import sup

QUICK = ['variables', 'forest', 'units', 'resets', 'equivalences', 'equivalence-ids', 'equivalence-lifetime']
THOROUGH = QUICK + ['resets-full', 'equivalence-lifetime4']


# ---------------------------------------------------------------------------------------------------------------
# Header cross-check: every public method of src/api/libcellml/*.h that takes an entity (…Ptr), an index (size_t) or a
# name used for a lookup must appear in the harness's entry-point table; otherwise the check is incomplete (exit 2).
DERIVED = {  # a method declared on a base class is covered when an entry exists for one of these concrete classes
    'ComponentEntity': ['Model', 'Component'], 'Entity': ['Model', 'Component', 'Variable', 'Units', 'Reset', 'ImportSource'],
    'ParentedEntity': ['Model', 'Component', 'Variable', 'Reset', 'Units'], 'ImportedEntity': ['Component', 'Units'], 'NamedEntity': ['Model', 'Component', 'Variable', 'Units'],
}
CONTENT_SETTER = re.compile(r'^(set|append|add|create|parse)')  # string-only parameters of these carry content, they look nothing up


def header_methods():
    found = {}
    for f in sorted(glob.glob(os.path.join(sup.REPO, 'src/api/libcellml/*.h'))):
        s = open(f).read()
        s = re.sub(r'/\*.*?\*/', '', s, flags=re.S)
        s = re.sub(r'//[^\n]*', '', s)
        for cm in re.finditer(r'class\s+LIBCELLML_EXPORT\s+(\w+)[^{;]*\{(.*?)\n\};', s, flags=re.S):
            cls, body = cm.group(1), cm.group(2)
            parts = re.split(r'\n\s*(public|private|protected):', body)
            segs = [('private', parts[0])] + [(parts[i], parts[i + 1]) for i in range(1, len(parts), 2)]
            for vis, text in segs:
                if vis != 'public':
                    continue
                for m in re.finditer(r'([\w:<>\s\*&]+?)\b(\w+)\s*\(([^()]*)\)\s*(const)?\s*(noexcept)?\s*(override)?\s*(=\s*\w+)?\s*;', text):
                    name, params = m.group(2), m.group(3)
                    if name == cls or not params.strip() or '= delete' in m.group(0) or 'operator' in m.group(1):
                        continue
                    kinds = set()
                    for p in params.split(','):
                        p = ' '.join(p.split())
                        if re.search(r'\w+Ptr\b', p):
                            kinds.add('ptr')
                        elif re.search(r'\bsize_t\b', p):
                            kinds.add('index')
                        elif 'std::string' in p and not re.match(r'std::string &\w+$', p):
                            kinds.add('string')
                    if kinds & {'ptr', 'index'} or ('string' in kinds and not CONTENT_SETTER.match(name)):
                        found.setdefault('%s::%s' % (cls, name), set()).update(kinds)
    return found


def cross_check(c):
    exe = sup.binpath('asan', 'c09')
    names = json.loads(subprocess.run([exe, 'entries'], capture_output=True, text=True, check=True).stdout)
    covered = set()
    for n in names:
        m = re.match(r'(\w+)(?:\([^)]*\))?::([\w/]+)', n)
        if m:
            for meth in m.group(2).split('/'):
                covered.add('%s::%s' % (m.group(1), meth))
    required = header_methods()
    missing = []
    for k in sorted(required):
        cls, meth = k.split('::')
        if not any('%s::%s' % (x, meth) in covered for x in [cls] + DERIVED.get(cls, [])):
            missing.append(k)
    c.counters['header_methods_with_entity_index_or_name_parameter'] = len(required)
    c.counters['entry_points_in_table'] = len(names)
    if missing:
        raise sup.HarnessError('incomplete coverage: public methods with a pointer/index/name parameter that are missing from the C09 entry-point table: ' + ', '.join(missing))


def main(tier):
    os.environ['VERIF_TIER'] = tier  # xstate picks its limits from it; replays inherit it
    c = sup.Check('C09', tier, 'model_checking')
    quick = tier == 'quick'
    c.set_deadline(600 if quick else 2400)
    c.build('asan', ['c09'])
    cross_check(c)
    for m in (QUICK if quick else THOROUGH):
        c.run_family('asan', 'c09', m, per_case_timeout=1500, nsamples=1)
    c.run_family('asan', 'c09', 'badargs', per_case_timeout=20)
    n = c.counters
    return c.finish(
        rule='(a) explicit-state BFS with the real library as transition relation; a state is distinct iff its canonical key differs (ordered child lists by '
             'universe index, parent of every entity, liveness, which references the harness still holds, equivalence lists in order, hidden and public '
             'mapping/connection ids); every transition is judged by a reference model (set of allowed post-states + return value) and by the state invariants. '
             '(b) every applicable (entry point, argument class, receiver state) triple is one case; judged = cases whose role demands "refused and nothing changed"',
        assumptions=[
            'adding an entity to the container that already lists it (and replacing by an entity already in that container) is generated but not judged (statement carve-out); the search does not continue behind such a call',
            'a pointer-addressed remove/replace/contains of an object that is NOT in scope may be refused or matched to a structurally equal child whose own links are updated; structural equality is computed by the reference (name + attributes + children as multiset)',
            'name-addressed calls may pick any child (or, with searchEncapsulated, any descendant) that carries the name',
            'replace with a replacement that has another parent may move it properly or refuse; with a parentless replacement it must succeed; replacement by an ancestor of the slot must be refused',
            'a state in which a violation was reported is not expanded further (states only reachable through a defect are not explored)',
            'take*() hands the entity back to the harness (it holds a reference again); pointer arguments are only generated for entities the harness holds',
            'equivalence ids are judged by symmetry only (equivalenceMappingId/ConnectionId(a,b) == (b,a) for directly equivalent a,b); the id machine uses one component per variable because a connection id belongs to a component pair',
            'self-equivalence calls (addEquivalence(v,v), removeEquivalence(v,v)) are judged by the invariants only',
            'bad-argument roles: TARGET (find/remove/take/replace/query/annotate/resolve: null, never-added, owner-destroyed, index == count, SIZE_MAX, unknown and empty name; must be refused and change nothing), '
            'PAYLOAD (thing being added/assigned: only null; judged where the method returns bool; void setters take null as "clear" and must only survive), QUERY (no argument; receiver state varies; must survive)',
            'never-added / owner-destroyed arguments are structurally different from every child of the receiver, so the look-alike carve-out cannot excuse a change',
            'equivalence-lifetime4 (4 variables with removal and reference dropping) is depth-bounded (quick: not run; thorough: depth 6); all other machines run to their fixpoint',
        ],
        extra_cov={'states': int(n.get('states', 0)), 'transitions': int(n.get('transitions', 0)), 'traces_validated_against_impl': int(n.get('transitions', 0)),
                   'machines_to_fixpoint': int(n.get('machines_to_fixpoint', 0)), 'machines_depth_bounded': int(n.get('machines_depth_bounded', 0)),
                   'crashing_transitions': int(n.get('crashing_transitions', 0)), 'entry_point_cases': int(n.get('entry_points_exercised', 0))},
        nontrivial=None)
