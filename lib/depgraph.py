"""Dependency-graph models with ground truth (C05, C20, and equation placement for C03/C17).

A graph on n variables v0..v(n-1): each variable has a definition kind
   K  initial value only (constant)
   E  explicit equation      v = c + sum(reads)
   S  state                  dv/dt = c + sum(reads), initial value
   N  implicit equation      v + sum(reads) = 2*v - c     (unknown cannot be isolated: one-unknown NLA system)
   C  coupled implicit equations: all C variables of a graph (at least two) form ONE NLA system,
         v_i + sum(other C variables) + sum(reads) = 4*v_i - c_i ;   every member carries an initial guess (libcellml only recognises
         a system through initialised unknowns); their reads are limited to states and t
   G  the same as N with an initial guess on v. CellML cannot tell a guess from a constant, so a G that reads other variables has
      two legitimate readings (v unknown / v constant and the equation defines the other variable): by default G reads nothing;
      graphs(..., g_reads=True) lifts that (used by C20 with a reading-agnostic oracle: every equation must be satisfied)
and a read set (other variables, and optionally the variable of integration t when the model has a state).
Variables are placed in one of two sibling components; a read across components goes through a connected twin.
Everything the oracles need (roles, model type, values) is computed here from the spec alone."""
import itertools

KINDS = 'KESNGC'   # G = implicit equation whose unknown carries an initial guess (and is the only initialised variable in it)
CONST = {0: 1.5, 1: -2.25, 2: 3.75, 3: 0.6}     # per-variable literal c / initial value
INIT = {0: 0.8, 1: 1.3, 2: -0.7, 3: 2.2}
VOI = 0.75


def graphs(n, max_edges=None, g_reads=False):
    """All (kinds, reads) with reads[i] a frozenset over {0..n-1}\\{i} ∪ {'t'}; filtered to the judged domain:
    explicit equations acyclic, E reads at least one thing, t only if some state exists."""
    out = []
    others = lambda i: [j for j in range(n) if j != i]
    for kinds in itertools.product(KINDS, repeat=n):
        if kinds.count('C') == 1:
            continue  # a single coupled variable is just an N
        has_state = 'S' in kinds
        opts = []
        for i, k in enumerate(kinds):
            if k == 'K':
                opts.append([frozenset()])
                continue
            base = others(i) + (['t'] if has_state else []) + ([i] if k == 'S' else [])  # a state may appear in its own rate (dx/dt = c + x)
            subs = []
            for r in range(len(base) + 1):
                for c in itertools.combinations(base, r):
                    if k == 'E' and not c:
                        continue  # v = literal: role ambiguous (constant vs computed constant), excluded
                    if k == 'C' and any(j != 't' and kinds[j] != 'S' for j in c):
                        continue
                    if k == 'G' and c and not g_reads:
                        continue  # a guessed unknown next to ANY other variable is ambiguous (constant + equation for the other variable, or unknown)
                    if k == 'G' and any(j != 't' and kinds[j] in 'KG' for j in c):
                        continue  # keep the guessed unknown the only initialised variable of its equation
                    subs.append(frozenset(c))
            opts.append(subs)
        for reads in itertools.product(*opts):
            if max_edges is not None and sum(len(r) for r in reads) > max_edges:
                continue
            if not explicit_acyclic(kinds, reads):
                continue
            out.append((kinds, reads))
    return out


def explicit_acyclic(kinds, reads):
    """No cycle through explicit (E) and implicit (N) definitions: states break cycles (their value is known at any time)."""
    n = len(kinds)
    color = [0] * n

    def dfs(i):
        color[i] = 1
        for j in reads[i]:
            if j == 't' or j == i or kinds[j] in 'KS':
                continue
            if color[j] == 1:
                return False
            if color[j] == 0 and not dfs(j):
                return False
        color[i] = 2
        return True
    for i in range(n):
        if kinds[i] in 'ENGC' and color[i] == 0:
            if not dfs(i):
                return False
    return True


def truth(kinds, reads):
    """Roles (sets of allowed AnalyserVariable type strings) and model type, from the documentation of the enums."""
    n = len(kinds)
    memo = {}

    def timevarying(i):
        if i in memo:
            return memo[i]
        memo[i] = False
        k = kinds[i]
        if k == 'S':
            r = True
        elif k == 'K':
            r = False
        elif k == 'C':
            r = any(j == 't' or timevarying(j) for c_ in range(n) if kinds[c_] == 'C' for j in reads[c_])
        else:
            r = any(j == 't' or timevarying(j) for j in reads[i])
        memo[i] = r
        return r
    memo2 = {}

    def via_nla(i):
        if i in memo2:
            return memo2[i]
        memo2[i] = False
        r = kinds[i] in 'NGC' or (kinds[i] == 'E' and any(j != 't' and via_nla(j) for j in reads[i]))
        memo2[i] = r
        return r
    roles = []
    for i, k in enumerate(kinds):
        if k == 'K':
            roles.append({'constant'})
        elif k == 'S':
            roles.append({'state'})
        elif timevarying(i):
            roles.append({'algebraic'})
        elif via_nla(i):
            # obtained from an NLA system that depends on constants only: the documentation of the enum does not say
            # whether that is an algebraic variable or a computed constant -> either
            roles.append({'algebraic', 'computed_constant'})
        else:
            roles.append({'computed_constant'})
    has_s, has_n = 'S' in kinds, ('N' in kinds or 'G' in kinds or 'C' in kinds)
    mtype = 'dae' if has_s and has_n else 'ode' if has_s else 'nla' if has_n else 'algebraic'
    return roles, mtype


INIT2 = {0: 1.05, 1: 0.55, 2: -1.45, 3: 2.95}   # the states after an integrator moved them (second evaluation point)


def state_dependent(kinds, reads, i, _seen=None):
    """True iff the value of variable i depends on a state (not merely on the variable of integration)."""
    _seen = _seen if _seen is not None else set()
    if i == 't' or i in _seen:
        return False
    _seen.add(i)
    if kinds[i] == 'S':
        return True
    rs = set(reads[i])
    if kinds[i] == 'C':
        for c_ in range(len(kinds)):
            if kinds[c_] == 'C':
                rs |= set(reads[c_])
    return any(state_dependent(kinds, reads, j, _seen) for j in rs)


def values(kinds, reads, ext=None, init=None):
    """Reference values at t = VOI with states at their initial values: value[i] for K/E/N, (initial, rate) for S.
    ext: {i: value} overrides (external variables); init: the values of the states (default: their initial values)."""
    n = len(kinds)
    val = {}
    ext = ext or {}
    sinit = lambda i: init[i] if init is not None and kinds[i] == 'S' else INIT[i]
    cgroup = [i for i in range(n) if kinds[i] == 'C']

    def solve_group():
        free = [i for i in cgroup if i not in ext]
        # -3 v_i + sum_{j in C, j != i} v_j = -c_i - R_i   (external members are known values)
        A, b = [], []
        for i in free:
            rhs = -CONST[i] - sum(get(j) for j in sorted(reads[i], key=str)) - sum(ext[j] for j in cgroup if j in ext and j != i)
            A.append([(-3.0 if j == i else 1.0) for j in free])
            b.append(rhs)
        m = len(free)
        M_ = [A[r_] + [b[r_]] for r_ in range(m)]
        for col in range(m):
            piv = max(range(col, m), key=lambda r_: abs(M_[r_][col]))
            M_[col], M_[piv] = M_[piv], M_[col]
            for r_ in range(m):
                if r_ != col:
                    f_ = M_[r_][col] / M_[col][col]
                    M_[r_] = [x - f_ * y for x, y in zip(M_[r_], M_[col])]
        for k_, i in enumerate(free):
            val[i] = M_[k_][m] / M_[k_][k_]

    def get(i):
        if i == 't':
            return VOI
        if i in ext:
            return ext[i]
        if i in val:
            return val[i]
        k = kinds[i]
        if k == 'C':
            solve_group()
            return val[i]
        if k in 'KS':
            val[i] = sinit(i)
        elif k == 'E':
            val[i] = CONST[i] + sum(get(j) for j in sorted(reads[i], key=str))
        else:  # v + R = 2v - c  =>  v = R + c
            val[i] = CONST[i] + sum(get(j) for j in sorted(reads[i], key=str))
        return val[i]
    res = {}
    for i in range(n):
        if kinds[i] == 'S':
            res[i] = (ext.get(i, sinit(i)), CONST[i] + sum(get(j) for j in sorted(reads[i], key=str)))
        else:
            res[i] = get(i)
    return res


# ------------------------------------------------------------------ rendering
NS = 'xmlns="http://www.cellml.org/cellml/2.0#"'
MNS = 'xmlns="http://www.w3.org/1998/Math/MathML" xmlns:cellml="http://www.cellml.org/cellml/2.0#"'


def cn(x):
    return '<cn cellml:units="dimensionless">%r</cn>' % x


class Layout:
    """Where variables live and what they are called, after a transformation."""

    def __init__(self, kinds, reads, place, perm_comp=False, rev_vars=False, rev_eqs=False, rename=0, drop_eq=None, dup_eq=None, drop_init=None, ncomp=None,
                 init_on_twin=False, long=None, pad=0):
        self.kinds, self.place = kinds, place
        self.n = len(kinds)
        self.declared_reads = reads
        cg = [i for i in range(len(kinds)) if kinds[i] == 'C']
        # the members of the coupled system appear in each other's equations
        self.reads = tuple(frozenset(reads[i]) | (frozenset(j for j in cg if j != i) if kinds[i] == 'C' else frozenset()) for i in range(len(kinds)))
        self.perm_comp, self.rev_vars, self.rev_eqs, self.rename = perm_comp, rev_vars, rev_eqs, rename
        self.drop_eq, self.dup_eq, self.drop_init = drop_eq, dup_eq, drop_init
        self.init_on_twin, self.long = init_on_twin, long
        # pad: unrelated variables added to the first component (1: listed last, 2: listed first): a constant zpk, a computed constant
        # zpc = zpk + zpk and, in a model with a state, an algebraic zpt = t + zpk; they must not change anything about the others
        self.pad = pad
        self.has_state = 'S' in kinds
        self.comps = sorted(set(place)) if ncomp is None else list(range(ncomp))
        base = ['v%d' % i for i in range(self.n)]
        if rename == 1:   # order-reversing names
            base = ['z%d' % (9 - i) for i in range(self.n)]
        if rename == 4:   # names are only unique per component: the k-th variable of each component is called w<k>
            cnt = {0: 0, 1: 0}
            base = []
            for i in range(self.n):
                base.append('w%d' % cnt[place[i]])
                cnt[place[i]] += 1
        self.home_name = {i: base[i] for i in range(self.n)}
        self.home_name['t'] = 't' if rename != 1 else 'a_time'
        self.cname = {c: 'comp%d' % c for c in (0, 1)}
        if rename == 1:
            self.cname = {0: 'zeta', 1: 'alpha'}
        self.units_of = {}
        if long is not None:
            # one class gets a name, a units name and a component name longer than everything else in the model
            self.home_name[long] = 'a_remarkably_long_variable_name'
            self.units_of[long] = 'a_remarkably_long_units_name'
            self.cname[self.comp_of(long)] = 'a_remarkably_long_component_name'

    def comp_of(self, i):
        return 0 if i == 't' else self.place[i]

    def name_in(self, i, c):
        """Name of variable i (or 't') as seen in component c."""
        if self.comp_of(i) == c:
            return self.home_name[i]
        if not hasattr(self, '_twin_names'):
            self._twin_names = {}
            for cc in (0, 1):
                taken = {self.home_name[j] for j in list(range(self.n)) + ['t'] if self.comp_of(j) == cc}
                for (j, c2) in self.needed_twins():
                    if c2 != cc:
                        continue
                    nm = self.home_name[j]
                    if self.rename in (2, 4):      # twins get fresh names
                        nm = '%s_in%d' % (self.home_name[j], cc)
                    elif self.rename == 3:    # a twin borrows the home name of ANOTHER variable that lives in the other component
                        for k in range(self.n):
                            if k != j and self.place[k] != cc and self.home_name[k] not in taken:
                                nm = self.home_name[k]
                                break
                    if nm in taken:
                        nm = '%s_tw%d' % (self.home_name[j], cc)
                    taken.add(nm)
                    self._twin_names[(j, cc)] = nm
        return self._twin_names.get((i, c), self.home_name[i])

    def needed_twins(self):
        tw = set()
        for i in range(self.n):
            if self.kinds[i] == 'K':
                continue
            c = self.place[i]
            for j in self.reads[i]:
                if self.comp_of(j) != c:
                    tw.add((j, c))
            if self.kinds[i] == 'S' and c != 0:
                tw.add(('t', c))
        return sorted(tw, key=str)

    def render(self):
        twins = self.needed_twins()
        comp_vars = {c: [] for c in (0, 1)}
        comp_eqs = {c: [] for c in (0, 1)}
        iv_on_twin = {}
        if self.init_on_twin:   # the initial value is declared on an equivalent variable in the other component
            for (j, c) in twins:
                if j != 't' and self.kinds[j] in 'KS' and j not in iv_on_twin:
                    iv_on_twin[j] = c
        u = lambda i: self.units_of.get(i, 'dimensionless')
        for i in range(self.n):
            c = self.place[i]
            iv = ''
            if self.kinds[i] in 'KS' and self.drop_init != i and i not in iv_on_twin:
                iv = ' initial_value="%r"' % INIT[i]
            if self.kinds[i] in 'GC':
                iv = ' initial_value="0.5"'  # an initial guess
            comp_vars[c].append('<variable name="%s" units="%s" interface="public"%s/>' % (self.home_name[i], u(i), iv))
        used_t = self.has_state
        if used_t:
            comp_vars[0].append('<variable name="%s" units="%s" interface="public"/>' % (self.home_name['t'], u('t')))
        for (j, c) in twins:
            iv = ' initial_value="%r"' % INIT[j] if iv_on_twin.get(j) == c and self.drop_init != j else ''
            comp_vars[c].append('<variable name="%s" units="%s" interface="public"%s/>' % (self.name_in(j, c), u(j), iv))
        eq_of = {}
        for i in range(self.n):
            k = self.kinds[i]
            if k == 'K':
                continue
            c = self.place[i]
            rd = ''.join('<ci>%s</ci>' % self.name_in(j, c) for j in sorted(self.reads[i], key=str))
            me = '<ci>%s</ci>' % self.home_name[i]
            rhs = '<apply><plus/>%s%s</apply>' % (cn(CONST[i]), rd) if rd else cn(CONST[i])
            if k == 'E':
                e = '<apply><eq/>%s%s</apply>' % (me, rhs)
            elif k == 'S':
                e = '<apply><eq/><apply><diff/><bvar><ci>%s</ci></bvar>%s</apply>%s</apply>' % (self.name_in('t', c), me, rhs)
            else:
                lhs = '<apply><plus/>%s%s</apply>' % (me, rd if rd else cn(0.0))
                e = '<apply><eq/>%s<apply><minus/><apply><times/>%s%s</apply>%s</apply></apply>' % (lhs, cn(4.0 if k == 'C' else 2.0), me, cn(CONST[i]))
            eq_of[i] = (c, e)
        for i in range(self.n):
            if i in eq_of and i != self.drop_eq:
                c, e = eq_of[i]
                comp_eqs[c].append(e)
                if i == self.dup_eq:
                    comp_eqs[c].append(e)
        if self.pad:
            pv = ['<variable name="zpk" units="dimensionless" initial_value="0.4"/>', '<variable name="zpc" units="dimensionless"/>']
            pe = ['<apply><eq/><ci>zpc</ci><apply><plus/><ci>zpk</ci><ci>zpk</ci></apply></apply>']
            if self.has_state:
                pv.append('<variable name="zpt" units="dimensionless"/>')
                pe.append('<apply><eq/><ci>zpt</ci><apply><plus/><ci>%s</ci><ci>zpk</ci></apply></apply>' % self.name_in('t', 0))
            if self.pad == 1:
                comp_vars[0] = comp_vars[0] + pv
                comp_eqs[0] = comp_eqs[0] + pe
            else:
                comp_vars[0] = pv + comp_vars[0]
                comp_eqs[0] = pe + comp_eqs[0]
        parts = []
        order = [0, 1] if not self.perm_comp else [1, 0]
        for c in order:
            if c not in self.comps and not comp_vars[c]:
                continue
            vs = comp_vars[c][::-1] if self.rev_vars else comp_vars[c]
            es = comp_eqs[c][::-1] if self.rev_eqs else comp_eqs[c]
            if not vs:
                continue
            math = '<math %s>%s</math>' % (MNS, ''.join(es)) if es else ''
            parts.append('<component name="%s">%s%s</component>' % (self.cname[c], ''.join(vs), math))
        conns = []
        by_pair = {}
        for (j, c) in twins:
            a, b = self.comp_of(j), c
            v1, v2 = self.home_name[j], self.name_in(j, c)
            if a > b:
                a, b, v1, v2 = b, a, v2, v1
            by_pair.setdefault((a, b), []).append('<map_variables variable_1="%s" variable_2="%s"/>' % (v1, v2))
        for (a, b), maps in sorted(by_pair.items()):
            conns.append('<connection component_1="%s" component_2="%s">%s</connection>' % (self.cname[a], self.cname[b], ''.join(maps)))
        units = ''.join('<units name="%s"><unit units="dimensionless"/></units>' % n for n in sorted(set(self.units_of.values())))
        return '<?xml version="1.0" encoding="UTF-8"?>\n<model %s name="m">%s%s%s</model>\n' % (NS, units, ''.join(parts), ''.join(conns))

    def class_of(self, comp, var):
        """Which graph variable (or 't') a (component name, variable name) of the analysed model denotes."""
        c = next((k for k, v in self.cname.items() if v == comp), None)
        if c is None:
            return None
        if self.pad and c == 0 and var in ('zpk', 'zpc', 'zpt'):
            return var
        for i in list(range(self.n)) + (['t'] if self.has_state else []):
            if self.comp_of(i) == c and self.home_name[i] == var:
                return i
        for (j, cc) in self.needed_twins():
            if cc == c and self.name_in(j, cc) == var:
                return j
        return None

    def ref(self, i, c=None):
        """(component name, variable name) of variable i in its home component (or as seen in c)."""
        cc = self.comp_of(i) if c is None else c
        return {'comp': self.cname[cc], 'var': self.name_in(i, cc)}


def placements(n):
    """Placements up to swapping the two components: v0 always in component 0."""
    return [p for p in itertools.product((0, 1), repeat=n) if p[0] == 0]
