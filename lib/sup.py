"""Supervisor: builds the code under test from /repo's working tree, shards index-addressed
families over worker processes, isolates crashes/hangs, replays every violation twice,
applies the committed known-findings file, writes evidence, and decides the exit code.

Exit codes: 0 held (possibly KNOWN-FINDING lines); 1 VIOLATION; 2 harness error."""
import json, os, re, subprocess, sys, time, tempfile, threading, shutil, hashlib
from concurrent.futures import ThreadPoolExecutor

V = os.path.dirname(os.path.dirname(os.path.abspath(__file__)))
REPO = os.environ.get('VERIF_REPO', '/repo')
CONFIRM_CAP = 24   # violation classes confirmed by two replays each before reporting
NPROC = int(os.environ.get('VERIF_JOBS', '16'))
ASAN_ENV = {
    'ASAN_OPTIONS': 'detect_leaks=0:abort_on_error=0:quarantine_size_mb=8:malloc_context_size=8:detect_stack_use_after_return=0:allocator_may_return_null=1:handle_abort=1',
    'UBSAN_OPTIONS': 'print_stacktrace=1:halt_on_error=1',
}


class HarnessError(Exception):
    pass


def build(flavour, harnesses):
    t = time.time()
    r = subprocess.run([os.path.join(V, 'bin/vbuild'), flavour] + list(harnesses), capture_output=True, text=True)
    if r.returncode != 0:
        sys.stdout.write(r.stdout[-3000:] + r.stderr[-6000:])
        raise HarnessError('build failed for flavour %s' % flavour)
    return time.time() - t


def _tag():
    return '' if REPO == '/repo' else '-' + hashlib.md5(REPO.encode()).hexdigest()[:8]


def binpath(flavour, name):
    return os.path.join(V, 'build', flavour + _tag(), 'bin', name)


def harness_cmd(flavour, name):
    """C++ harness binary, or a Python harness (harness/<name>.py, same command-line protocol; flavour selects its lcx)."""
    if name.endswith('.py'):
        return [sys.executable, os.path.join(V, 'harness', name), '--flavour=' + flavour]
    return [binpath(flavour, name)]


def crash_signature(stderr, rc):
    """Stable class of an abnormal termination: kind + first libcellml frame (function name only)."""
    kind = None
    m = re.search(r"terminate called after throwing an instance of '([^']+)'", stderr)
    if m:
        kind = 'uncaught-exception:' + m.group(1)
    m2 = re.search(r'ERROR: AddressSanitizer: (\S+)', stderr)
    if m2 and not kind:
        kind = 'asan:' + m2.group(1)
    m3 = re.search(r'runtime error: (.*)', stderr)
    if m3 and not kind:
        msg = re.sub(r'0x[0-9a-f]+', 'ADDR', m3.group(1))
        msg = re.sub(r"'[^']*'", 'T', msg)
        kind = 'ubsan:' + msg.strip()[:60]
    if not kind:
        kind = 'signal:%d' % (-rc) if rc < 0 else 'exit:%d' % rc
    frame = None
    for fm in re.finditer(r'#\d+ 0x[0-9a-f]+ in (.+?) (/\S+?):(\d+)', stderr):
        fn, path = fm.group(1), fm.group(2)
        if '/src/' in path and '/harness/' not in path and 'libcellml' in fn:
            fn = re.sub(r'\(.*', '', fn)
            frame = fn
            break
    return 'crash:%s@%s' % (kind, frame or '?')


class Check:
    def __init__(self, prop, tier, level, design_ref=''):
        self.prop, self.tier, self.level = prop, tier, level
        self.t0 = time.time()
        self.seed = int(os.environ.get('VERIF_SEED', '0') or 0)
        self.deadline = None
        self.evaluations = 0
        self.judged = 0
        self.outcomes = {}
        self.counters = {}
        self.families = {}
        self.raw = []          # violation records
        self.samples = []
        self.exhaustive = True
        self.notes = []
        self.build_s = 0.0
        self.extra_cov = {}
        self.lock = threading.Lock()
        self.scratch = os.path.join(V, 'build', 'scratch', '%s.%d' % (prop, os.getpid()))
        os.makedirs(self.scratch, exist_ok=True)

    # ---------------------------------------------------------------- building
    def build(self, flavour, harnesses):
        self.build_s += build(flavour, harnesses)

    def set_deadline(self, seconds):
        self.deadline = self.t0 + seconds

    # ---------------------------------------------------------------- running one family
    def _run_chunk(self, exe, family, lo, hi, env, per_case_timeout, args):
        """Runs [lo,hi) in one process; on abnormal exit records the crashing index and resumes after it."""
        out_viol, out_stats = [], []
        cur = lo
        pf = os.path.join(self.scratch, 'p.%s.%d.%d' % (family, lo, threading.get_ident()))
        while cur < hi:
            if self.deadline and time.time() > self.deadline:
                with self.lock:
                    self.exhaustive = False
                break
            try:
                os.unlink(pf)
            except OSError:
                pass
            to = max(60.0, per_case_timeout * (hi - cur))
            t0 = time.time()
            try:
                r = subprocess.run(exe + ['run', family, str(cur), str(hi), pf] + args, capture_output=True, env=env, timeout=to)
                rc, so, se = r.returncode, r.stdout, r.stderr
                timed_out = False
            except subprocess.TimeoutExpired as e:
                rc, so, se = -9, e.stdout or b'', e.stderr or b''
                timed_out = True
            so = so.decode('utf-8', 'replace')
            se = se.decode('utf-8', 'replace')
            for line in so.splitlines():
                if not line.startswith('{'):
                    continue
                try:
                    j = json.loads(line)
                except ValueError:
                    continue
                if 'stats' in j:
                    out_stats.append(j)
                elif 'v' in j:
                    out_viol.append(j)
            if rc == 0 and not timed_out:
                break
            # abnormal: which index?
            p = None
            try:
                with open(pf, 'rb') as f:
                    b = f.read(8)
                    if len(b) == 8:
                        p = int.from_bytes(b, 'little')
            except OSError:
                pass
            if p is None or p == 2 ** 64 - 1 or p < cur or p >= hi:
                raise HarnessError('%s %s [%d,%d): abnormal exit rc=%s without usable progress; stderr tail: %s' % (exe, family, cur, hi, rc, se[-1500:]))
            if timed_out:
                # re-run the suspect alone with a long limit before calling it a hang
                try:
                    r2 = subprocess.run(exe + ['run', family, str(p), str(p + 1)] + args, capture_output=True, env=env, timeout=max(120.0, per_case_timeout * 30))
                    if r2.returncode == 0:
                        for line in r2.stdout.decode('utf-8', 'replace').splitlines():
                            if line.startswith('{'):
                                j = json.loads(line)
                                (out_stats if 'stats' in j else out_viol).append(j)
                        cur = p + 1
                        continue
                    rc, se = r2.returncode, r2.stderr.decode('utf-8', 'replace')
                    sig = crash_signature(se, rc)
                except subprocess.TimeoutExpired:
                    sig = 'hang'
            else:
                sig = crash_signature(se, rc)
            out_viol.append({'v': 1, 'family': family, 'i': p, 'sig': sig, 'detail': {'stderr_tail': se[-2500:], 'rc': rc}})
            # the stats of the partial run are lost; count the cases up to and including p
            out_stats.append({'stats': 1, 'family': family, 'evaluations': p - cur + 1, 'judged': 0, 'outcomes': {'crashed-process': 1}, 'counters': {}})
            cur = p + 1
        try:
            os.unlink(pf)
        except OSError:
            pass
        return out_viol, out_stats

    def run_family(self, flavour, harness, family, lo=0, hi=None, chunk=None, per_case_timeout=2.0, args=None, env=None, nsamples=2):
        exe = harness_cmd(flavour, harness)
        e = dict(os.environ)
        e.update(ASAN_ENV)
        if env:
            e.update(env)
        args = list(args or [])
        n = int(subprocess.run(exe + ['count', family] + args, capture_output=True, text=True, env=e, check=True).stdout.strip())
        if hi is None or hi > n:
            hi = n
        total = max(0, hi - lo)
        if chunk is None:
            chunk = max(1, min(20000, (total + NPROC * 4 - 1) // (NPROC * 4)))
        ranges = [(a, min(a + chunk, hi)) for a in range(lo, hi, chunk)]
        fam = self.families.setdefault('%s/%s' % (harness, family), {'count': n, 'evaluated': 0, 'flavour': flavour})
        with ThreadPoolExecutor(max_workers=NPROC) as ex:
            futs = [ex.submit(self._run_chunk, exe, family, a, b, e, per_case_timeout, args) for a, b in ranges]
            for f in futs:
                viol, stats = f.result()
                for s in stats:
                    self.evaluations += s.get('evaluations', 0)
                    fam['evaluated'] += s.get('evaluations', 0)
                    self.judged += s.get('judged', 0)
                    for k, v in s.get('outcomes', {}).items():
                        self.outcomes[k] = self.outcomes.get(k, 0) + v
                    for k, v in s.get('counters', {}).items():
                        self.counters[k] = self.counters.get(k, 0) + v
                for v in viol:
                    v['harness'], v['flavour'], v['args'], v['env'] = harness, flavour, args + list(v.get('args', [])), dict(env or {})
                    self.raw.append(v)
        if fam['evaluated'] < total:
            self.exhaustive = False
        # samples: actual cases, written out
        if total > 0:
            for idx in sorted(set([lo, lo + total // 2, hi - 1]))[:nsamples]:
                try:
                    s = subprocess.run(exe + ['show', family, str(idx)] + args, capture_output=True, text=True, env=e, timeout=60).stdout.strip()
                    self.samples.append({'harness': harness, 'family': family, 'index': idx, 'case': json.loads(s) if s.startswith(('{', '[', '"')) else s[:2000]})
                except Exception as ex_:
                    self.samples.append({'harness': harness, 'family': family, 'index': idx, 'case': 'show failed: %s' % ex_})
        return fam

    # ---------------------------------------------------------------- replay of one recorded violation
    def rerun(self, v):
        exe = harness_cmd(v['flavour'], v['harness'])
        e = dict(os.environ)
        e.update(ASAN_ENV)
        e.update(v.get('env', {}))
        pf = os.path.join(self.scratch, 'rp.%d' % threading.get_ident())
        try:
            r = subprocess.run(exe + ['run', v['family'], str(v['i']), str(v['i'] + 1), pf] + list(v.get('args', [])), capture_output=True, env=e, timeout=600)
            rc, so, se = r.returncode, r.stdout.decode('utf-8', 'replace'), r.stderr.decode('utf-8', 'replace')
        except subprocess.TimeoutExpired:
            return ['hang']
        sigs = []
        for line in so.splitlines():
            if line.startswith('{'):
                try:
                    j = json.loads(line)
                except ValueError:
                    continue
                if 'v' in j:
                    sigs.append(j['sig'])
        if rc != 0:
            sigs.append(crash_signature(se, rc))
        return sigs

    def show(self, v):
        exe = harness_cmd(v['flavour'], v['harness'])
        try:
            e = dict(os.environ)
            e.update(v.get('env', {}))
            s = subprocess.run(exe + ['show', v['family'], str(v['i'])] + list(v.get('args', [])), capture_output=True, text=True, timeout=60, env=e).stdout.strip()
            return json.loads(s)
        except Exception:
            return None

    # ---------------------------------------------------------------- verdict
    def finish(self, rule, assumptions, extra_cov=None, nontrivial=None):
        kf_all = json.load(open(os.path.join(V, 'known_findings.json')))
        # C15's Logger-coherence checker runs inside every harness; its open findings apply wherever its signatures surface
        kf_open = [k for k in kf_all if k.get('status') == 'open' and (k.get('property') == self.prop or k.get('property') == 'C15')]
        # group raw violations by signature
        by_sig = {}
        for v in self.raw:
            by_sig.setdefault(v['sig'], []).append(v)
        for lst in by_sig.values():
            lst.sort(key=lambda v: (v['family'], v['i']))
        new, known_seen, harness_errors = [], {}, []
        replays = {}
        not_replayed = []

        def matches(k, v):
            if k.get('property') != self.prop and not v['sig'].startswith('C15:'):
                return False
            if 'sig_regex' in k and not re.search(k['sig_regex'], v['sig']):
                return False
            if 'family_regex' in k and not re.search(k['family_regex'], v['family']):
                return False
            if 'detail_regex' in k and not re.search(k['detail_regex'], json.dumps(v.get('detail', {}), sort_keys=True)):
                return False
            return True

        for sig, lst in sorted(by_sig.items()):
            k = None
            rest = []
            for v in lst:
                kk = next((k_ for k_ in kf_open if matches(k_, v)), None)
                if kk is not None:
                    known_seen.setdefault(kk['id'], {'entry': kk, 'n': 0})['n'] += 1
                else:
                    rest.append(v)
            if not rest:
                continue
            # replay the first few of this class twice, alone, before reporting; under a storm of classes (a change that breaks
            # nearly every case) only the first CONFIRM_CAP classes are replayed - the verdict needs one confirmed class, and
            # the rest is counted in the evidence as not replayed
            if len(new) >= CONFIRM_CAP:
                not_replayed.append((sig, len(rest)))
                continue
            confirmed = []
            for v in rest[:2]:
                # one case can carry many classes: its two replays are shared between them
                key = json.dumps([v['harness'], v['flavour'], v['family'], v['i'], v.get('args', []), v.get('env', {})], sort_keys=True)
                if key not in replays:
                    replays[key] = (self.rerun(v), self.rerun(v))
                a, b = replays[key]
                if sig in a and sig in b:
                    confirmed.append(v)
                elif sig.startswith('C15:') and any(s.startswith('C15:') for s in a) and any(s.startswith('C15:') for s in b):
                    confirmed.append(v)
                else:
                    harness_errors.append({'sig': sig, 'v': v, 'replay1': a, 'replay2': b})
            if confirmed:
                new.append((sig, confirmed, len(rest)))
        rdir = os.path.join(V, 'replay', self.prop)
        if os.path.isdir(rdir):
            shutil.rmtree(rdir)
        lines = []
        nviol = 0
        for n, (sig, confirmed, count) in enumerate(new):
            os.makedirs(rdir, exist_ok=True)
            v = confirmed[0]
            path = os.path.join(rdir, '%d.json' % n)
            rec = dict(v)
            rec['property'] = self.prop
            rec['case'] = self.show(v)
            rec['occurrences_this_run'] = count
            rec['other_indices'] = [x['i'] for x in by_sig[sig][:20]]
            json.dump(rec, open(path, 'w'), indent=1)
            # a C15 logger incoherence surfaced by another property's harness is C15's violation; it is still
            # reported here because the unchanged tree must be silent for every check
            lines.append('VIOLATION property=%s replay=%s' % (self.prop, path))
            print('  class: %s  (x%d)  first: %s[%d]' % (sig, count, v['family'], v['i']))
            nviol += count
        if not_replayed:
            print('  ... and %d more violation classes (%d occurrences) not replayed: the cap of %d confirmed classes was reached' % (len(not_replayed), sum(n for _, n in not_replayed), CONFIRM_CAP))
            nviol += sum(n for _, n in not_replayed)
        for kid, ks in sorted(known_seen.items()):
            print('KNOWN-FINDING: property=%s %s [%s; seen %d times this run]' % (self.prop, ks['entry']['what'], kid, ks['n']))
        for l in lines:
            print(l)
        wall = time.time() - self.t0
        nt = self.judged if nontrivial is None else nontrivial
        cov = {
            'evaluations': int(self.evaluations),
            'distinct_nontrivial': int(nt),
            'rule': rule,
            'samples': self.samples[:8] or ['<none>'],
            'exhaustive': bool(self.exhaustive),
            'families': self.families,
            'distinct_outcome_classes': len(self.outcomes),
            'outcomes': dict(sorted(self.outcomes.items(), key=lambda kv: -kv[1])[:60]),
            'counters': self.counters,
            'known_findings_seen': {k: v['n'] for k, v in known_seen.items()},
            'violation_classes': [s for s, _, _ in new],
            'violation_classes_not_replayed': [s_ for s_, _ in not_replayed][:200],
            'build_s': round(self.build_s, 1),
            'notes': self.notes,
        }
        if extra_cov:
            cov.update(extra_cov)
        cov.update(self.extra_cov)
        ev = {'property_id': self.prop, 'tier': self.tier, 'seed': self.seed, 'level': self.level, 'coverage': cov,
              'assumptions': assumptions, 'wall_s': round(wall, 2), 'violations': int(nviol)}
        os.makedirs(os.path.join(V, 'evidence'), exist_ok=True)
        tmp = os.path.join(V, 'evidence', '.%s.tmp' % self.prop)
        json.dump(ev, open(tmp, 'w'), indent=1, sort_keys=True)
        os.replace(tmp, os.path.join(V, 'evidence', '%s.json' % self.prop))
        shutil.rmtree(self.scratch, ignore_errors=True)
        print('%s %s: evaluations=%d judged=%d outcome-classes=%d exhaustive=%s violations=%d known=%d wall=%.1fs' % (
            self.prop, self.tier, self.evaluations, nt, len(self.outcomes), self.exhaustive, nviol, len(known_seen), wall))
        if harness_errors:
            for h in harness_errors[:5]:
                print('HARNESS-ERROR non-reproducible report: %s at %s[%d]: replays %s / %s' % (h['sig'], h['v']['family'], h['v']['i'], h['replay1'], h['replay2']))
            if not lines:
                return 2
        return 1 if lines else 0


def replay_file(path):
    """bin/check Cxx --replay <file>: re-executes exactly that case, without the explorer."""
    rec = json.load(open(path))
    build(rec['flavour'], ['lcx'] if rec['harness'].endswith('.py') else [rec['harness']])
    exe = harness_cmd(rec['flavour'], rec['harness'])
    e = dict(os.environ)
    e.update(ASAN_ENV)
    e.update(rec.get('env', {}))
    r = subprocess.run(exe + ['run', rec['family'], str(rec['i']), str(rec['i'] + 1)] + list(rec.get('args', [])) + ['-v'], capture_output=True, env=e, timeout=1200)
    so, se = r.stdout.decode('utf-8', 'replace'), r.stderr.decode('utf-8', 'replace')
    sys.stdout.write(so)
    if r.returncode != 0:
        sys.stdout.write(se[-3000:])
    sigs = [json.loads(l)['sig'] for l in so.splitlines() if l.startswith('{') and '"v"' in l and 'sig' in l]
    if r.returncode != 0:
        sigs.append(crash_signature(se, r.returncode))
    if sigs:
        print('VIOLATION property=%s replay=%s' % (rec['property'], path))
        return 1
    print('replay: no violation reproduced')
    return 0
