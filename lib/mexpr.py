"""Expression trees over the MathML content vocabulary libcellml supports: exhaustive shape enumeration,
MathML rendering and a reference evaluator written from the MathML 2 / CellML 2.0 specifications
(shares no code or table with generator.cpp). Python floats = IEEE doubles."""
import math

NAN = float('nan')
INF = float('inf')


class DomainError(Exception):
    pass


# ------------------------------------------------------------------ vocabulary: name -> (arg types, result type)
# types: 'N' numeric, 'B' boolean-valued (1.0/0.0). A B sub-tree may be used where N is expected (documented: both
# profiles and the reference use 1.0/0.0); an N sub-tree is never generated where B is expected, except 0/1 leaves.
REL = ['eq', 'neq', 'lt', 'leq', 'gt', 'geq']
LOGIC2 = ['and', 'or', 'xor']
UNARY_N = ['abs', 'exp', 'ln', 'floor', 'ceiling',
           'sin', 'cos', 'tan', 'sec', 'csc', 'cot', 'sinh', 'cosh', 'tanh', 'sech', 'csch', 'coth',
           'arcsin', 'arccos', 'arctan', 'arcsec', 'arccsc', 'arccot', 'arcsinh', 'arccosh', 'arctanh', 'arcsech', 'arccsch', 'arccoth']
CONSTS = ['true', 'false', 'pi', 'exponentiale']  # infinity / notanumber handled in the special-value family

OPS = {}
for r in REL:
    OPS[r] = ('NN', 'B')
for l in LOGIC2:
    OPS[l] = ('BB', 'B')
    OPS[l + '3'] = ('BBB', 'B')
OPS['not'] = ('B', 'B')
OPS['plus1'] = ('N', 'N')
OPS['plus'] = ('NN', 'N')
OPS['plus3'] = ('NNN', 'N')
OPS['minus1'] = ('N', 'N')
OPS['minus'] = ('NN', 'N')
OPS['times'] = ('NN', 'N')
OPS['times3'] = ('NNN', 'N')
OPS['divide'] = ('NN', 'N')
OPS['power'] = ('NN', 'N')
OPS['root'] = ('N', 'N')        # square root
OPS['rootd'] = ('NN', 'N')      # (degree, x)
OPS['log'] = ('N', 'N')         # base 10
OPS['logb'] = ('NN', 'N')       # (logbase, x)
OPS['min'] = ('NN', 'N')
OPS['max'] = ('NN', 'N')
OPS['min3'] = ('NNN', 'N')
OPS['max3'] = ('NNN', 'N')
OPS['rem'] = ('NN', 'N')
for u in UNARY_N:
    OPS[u] = ('N', 'N')
OPS['pw1'] = ('NB', 'N')          # piecewise: one piece (value, condition), no otherwise
OPS['pw1o'] = ('NBN', 'N')        # one piece + otherwise
OPS['pw2o'] = ('NBNBN', 'N')      # two pieces + otherwise

# operators whose emission is precedence / association sensitive in generator.cpp-like code generators
PRECEDENCE_SENSITIVE = ['plus', 'minus', 'minus1', 'times', 'divide', 'power', 'rootd', 'and', 'or', 'xor', 'not',
                        'eq', 'neq', 'lt', 'leq', 'gt', 'geq', 'pw1o', 'plus1', 'root', 'logb']


def mk(op, *args):
    return (op,) + tuple(args)


def leaf_var(name):
    return ('ci', name)


def leaf_cn(text):
    return ('cn', text)


def leaf_const(name):
    return ('const', name)


# ------------------------------------------------------------------ MathML rendering
CN_UNITS = 'dimensionless'


def mathml(e):
    k = e[0]
    if k == 'ci':
        return '<ci>%s</ci>' % e[1]
    if k == 'cn':
        t = e[1]
        if 'e' in t:
            m, x = t.split('e')
            return '<cn cellml:units="%s" type="e-notation">%s<sep/>%s</cn>' % (CN_UNITS, m, x)
        return '<cn cellml:units="%s">%s</cn>' % (CN_UNITS, t)
    if k == 'const':
        return '<%s/>' % e[1]
    a = [mathml(x) for x in e[1:]]
    if k == 'rootd':
        return '<apply><root/><degree>%s</degree>%s</apply>' % (a[0], a[1])
    if k == 'logb':
        return '<apply><log/><logbase>%s</logbase>%s</apply>' % (a[0], a[1])
    if k in ('pw1', 'pw1o', 'pw2o'):
        s = '<piecewise>'
        n = len(a) // 2
        for i in range(n):
            s += '<piece>%s%s</piece>' % (a[2 * i], a[2 * i + 1])
        if len(a) % 2:
            s += '<otherwise>%s</otherwise>' % a[-1]
        return s + '</piecewise>'
    tag = {'plus1': 'plus', 'plus3': 'plus', 'minus1': 'minus', 'times3': 'times', 'and3': 'and', 'or3': 'or', 'xor3': 'xor',
           'min3': 'min', 'max3': 'max'}.get(k, k)
    return '<apply><%s/>%s</apply>' % (tag, ''.join(a))


# ------------------------------------------------------------------ reference evaluation
def _b(x):
    return 1.0 if x else 0.0


def _chk(x):
    if isinstance(x, complex) or x != x or x in (INF, -INF) or abs(x) > 1e9:
        raise DomainError('non-finite or ill-conditioned (near a singularity)')
    return x


def ev(e, env, strict=True):
    """strict: any domain error / non-finite intermediate raises DomainError (the valuation is then not used)."""
    k = e[0]
    if k == 'ci':
        return env[e[1]]
    if k == 'cn':
        return float(e[1])
    if k == 'const':
        return {'true': 1.0, 'false': 0.0, 'pi': math.pi, 'exponentiale': math.e, 'infinity': INF, 'notanumber': NAN}[e[1]]
    if k in ('pw1', 'pw1o', 'pw2o'):
        n = (len(e) - 1) // 2
        for i in range(n):
            if ev(e[2 + 2 * i], env, strict) != 0.0:
                return ev(e[1 + 2 * i], env, strict)
        if (len(e) - 1) % 2:
            return ev(e[-1], env, strict)
        if strict:
            raise DomainError('no piece applies')
        return NAN
    a = [ev(x, env, strict) for x in e[1:]]
    try:
        r = _apply(k, a)
    except (ValueError, ZeroDivisionError, OverflowError):
        raise DomainError(k)
    if strict:
        _chk(r)
    return r


def _apply(k, a):
    if k == 'eq': return _b(a[0] == a[1])
    if k == 'neq': return _b(a[0] != a[1])
    if k == 'lt': return _b(a[0] < a[1])
    if k == 'leq': return _b(a[0] <= a[1])
    if k == 'gt': return _b(a[0] > a[1])
    if k == 'geq': return _b(a[0] >= a[1])
    if k in ('and', 'and3'): return _b(all(x != 0.0 for x in a))
    if k in ('or', 'or3'): return _b(any(x != 0.0 for x in a))
    if k in ('xor', 'xor3'):
        r = False
        for x in a:
            r = r != (x != 0.0)
        return _b(r)
    if k == 'not': return _b(a[0] == 0.0)
    if k in ('plus1',): return a[0]
    if k in ('plus', 'plus3'): return sum(a[1:], a[0])
    if k == 'minus1': return -a[0]
    if k == 'minus': return a[0] - a[1]
    if k == 'times': return a[0] * a[1]
    if k == 'times3': return a[0] * a[1] * a[2]
    if k == 'divide': return a[0] / a[1]
    if k == 'power':
        r = math.pow(a[0], a[1])
        return r
    if k == 'root':
        return math.sqrt(a[0])
    if k == 'rootd':
        if a[1] < 0:
            raise ValueError
        return math.pow(a[1], 1.0 / a[0])
    if k == 'abs': return abs(a[0])
    if k == 'exp': return math.exp(a[0])
    if k == 'ln': return math.log(a[0])
    if k == 'log': return math.log10(a[0])
    if k == 'logb': return math.log(a[1]) / math.log(a[0])
    if k == 'floor': return float(math.floor(a[0]))
    if k == 'ceiling': return float(math.ceil(a[0]))
    if k in ('min', 'min3'): return min(a)
    if k in ('max', 'max3'): return max(a)
    if k == 'rem': return math.fmod(a[0], a[1])
    x = a[0]
    if k == 'sin': return math.sin(x)
    if k == 'cos': return math.cos(x)
    if k == 'tan': return math.tan(x)
    if k == 'sec': return 1.0 / math.cos(x)
    if k == 'csc': return 1.0 / math.sin(x)
    if k == 'cot': return 1.0 / math.tan(x)
    if k == 'sinh': return math.sinh(x)
    if k == 'cosh': return math.cosh(x)
    if k == 'tanh': return math.tanh(x)
    if k == 'sech': return 1.0 / math.cosh(x)
    if k == 'csch': return 1.0 / math.sinh(x)
    if k == 'coth': return 1.0 / math.tanh(x)
    if k == 'arcsin': return math.asin(x)
    if k == 'arccos': return math.acos(x)
    if k == 'arctan': return math.atan(x)
    if k == 'arcsec': return math.acos(1.0 / x)
    if k == 'arccsc': return math.asin(1.0 / x)
    if k == 'arccot': return math.atan(1.0 / x)
    if k == 'arcsinh': return math.asinh(x)
    if k == 'arccosh': return math.acosh(x)
    if k == 'arctanh': return math.atanh(x)
    if k == 'arcsech': return math.acosh(1.0 / x)
    if k == 'arccsch': return math.asinh(1.0 / x)
    if k == 'arccoth': return math.atanh(1.0 / x)
    raise KeyError(k)


# ------------------------------------------------------------------ leaves and valuations
NUM_LEAVES = ['a', 'b', 'd']
BOOL_LEAVES = ['p', 'r']  # variables holding 1.0 / 0.0
# valuations: pairwise distinct non-integers chosen so that a dropped parenthesis or a swapped operand changes the value;
# V0 all > 1 (acosh, ln, roots), V1 all in (0,1) (asin, acos, atanh, asech), V2 with a negative operand first.
VALUATIONS = [
    {'a': 3.25, 'b': 1.75, 'd': 2.6, 'p': 1.0, 'r': 0.0},
    {'a': 0.35, 'b': 0.8, 'd': 0.55, 'p': 0.0, 'r': 1.0},
    {'a': -1.3, 'b': 0.45, 'd': 2.1, 'p': 1.0, 'r': 1.0},
]


def default_leaf(t, pos):
    if t == 'N':
        return leaf_var(NUM_LEAVES[pos % 3])
    return leaf_var(BOOL_LEAVES[pos % 2])


def result_type(e):
    k = e[0]
    if k == 'ci':
        return 'B' if e[1] in BOOL_LEAVES else 'N'
    if k == 'cn':
        return 'N'
    if k == 'const':
        return 'B' if e[1] in ('true', 'false') else 'N'
    return OPS[k][1]


def fits(sub, want):
    """B may flow into N (1.0/0.0); N never into B."""
    rt = result_type(sub)
    return rt == want or (want == 'N' and rt == 'B')


def op_with_leaves(op, shift=0):
    at = OPS[op][0]
    return mk(op, *[default_leaf(t, i + shift) for i, t in enumerate(at)])


def depth1_shapes():
    out = []
    for op in OPS:
        out.append(op_with_leaves(op))
    for c in CONSTS:
        out.append(leaf_const(c))
    out += [leaf_cn('3.5'), leaf_cn('-2.25'), leaf_cn('1.5e2'), leaf_cn('-4e-1')]
    return out


def depth2_shapes(ops1=None, ops2=None):
    """op1 with, in each operand position in turn, op2(leaves) / a constant / a cn; other positions default leaves."""
    ops1 = list(OPS) if ops1 is None else ops1
    ops2 = list(OPS) if ops2 is None else ops2
    out = []
    for o1 in ops1:
        at = OPS[o1][0]
        for pos, t in enumerate(at):
            subs = [op_with_leaves(o2, shift=pos + 1) for o2 in ops2]
            subs += [leaf_const(c) for c in CONSTS] + [leaf_cn('-2.25'), leaf_cn('1.5e2')]
            for s in subs:
                if not fits(s, t):
                    continue
                args = [default_leaf(tt, i) for i, tt in enumerate(at)]
                args[pos] = s
                out.append(mk(o1, *args))
    return out


def depth3_shapes(ops):
    """op1(op2(op3)) chains over the given operator set, every operand position at every level."""
    out = []
    for o1 in ops:
        a1 = OPS[o1][0]
        for p1, t1 in enumerate(a1):
            for o2 in ops:
                if not fits(op_with_leaves(o2), t1):
                    continue
                a2 = OPS[o2][0]
                for p2, t2 in enumerate(a2):
                    for o3 in ops:
                        s3 = op_with_leaves(o3, shift=p1 + p2 + 2)
                        if not fits(s3, t2):
                            continue
                        args2 = [default_leaf(tt, i + p1 + 1) for i, tt in enumerate(a2)]
                        args2[p2] = s3
                        args1 = [default_leaf(tt, i) for i, tt in enumerate(a1)]
                        args1[p1] = mk(o2, *args2)
                        out.append(mk(o1, *args1))
    return out


def show(e):
    k = e[0]
    if k in ('ci', 'cn', 'const'):
        return e[1]
    return '%s(%s)' % (k, ', '.join(show(x) for x in e[1:]))
