"""Python twin of harness/common.hpp's family runner, same command line and output protocol, so that lib/sup.py shards,
crash-isolates and replays Python-driven families (generated-code execution) exactly like C++ ones."""
import json, os, struct, subprocess, sys, threading

V = os.path.dirname(os.path.dirname(os.path.abspath(__file__)))


class Ctx:
    def __init__(self, family):
        self.family, self.index, self.verbose = family, 0, False
        self.evaluations = self.judged = self.violations = 0
        self.outcomes, self.counters, self.options = {}, {}, {}

    def outcome(self, k):
        self.outcomes[k] = self.outcomes.get(k, 0) + 1

    def count(self, k, n=1):
        self.counters[k] = self.counters.get(k, 0) + n

    def violation(self, sig, detail=None, index=None, args=None, family=None):
        self.violations += 1
        j = {'v': 1, 'family': family or self.family, 'i': self.index if index is None else index, 'sig': sig, 'detail': detail or {}}
        if args:
            j['args'] = args
        sys.stdout.write(json.dumps(j) + '\n')
        sys.stdout.flush()


class Family:
    def __init__(self, name, count, run, show):
        self.name, self.count, self.run, self.show = name, count, run, show


def main(families, argv=None):
    argv = sys.argv if argv is None else argv
    if len(argv) < 2:
        print('usage: list | count F | show F i | run F lo hi [progress] [-v] [--k=v]', file=sys.stderr)
        return 2
    opts = {}
    rest = []
    for a in argv[1:]:
        if a.startswith('--'):
            k, _, v = a[2:].partition('=')
            opts[k] = v or '1'
        else:
            rest.append(a)
    if not rest:
        return 2
    cmd = rest.pop(0)
    fams = {f.name: f for f in families(opts)} if callable(families) else {f.name: f for f in families}
    if cmd == 'list':
        print(json.dumps([{'family': n, 'count': f.count()} for n, f in fams.items()]))
        return 0
    f = fams.get(rest[0]) if rest else None
    if f is None:
        print('unknown family', file=sys.stderr)
        return 2
    if cmd == 'count':
        print(f.count())
        return 0
    if cmd == 'show':
        print(json.dumps(f.show(int(rest[1]))))
        return 0
    if cmd == 'run':
        lo, hi = int(rest[1]), int(rest[2])
        ctx = Ctx(f.name)
        ctx.options = opts
        pf = None
        for a in rest[3:]:
            if a == '-v':
                ctx.verbose = True
            else:
                pf = os.open(a, os.O_WRONLY | os.O_CREAT, 0o644)
        hi = min(hi, f.count())
        for i in range(lo, hi):
            if pf is not None:
                os.pwrite(pf, struct.pack('<Q', i), 0)
            ctx.index = i
            ctx.evaluations += 1
            f.run(i, ctx)
        print(json.dumps({'stats': 1, 'family': f.name, 'lo': lo, 'hi': hi, 'evaluations': ctx.evaluations, 'judged': ctx.judged,
                          'violations': ctx.violations, 'outcomes': ctx.outcomes, 'counters': ctx.counters}))
        sys.stdout.flush()
        if pf is not None:
            os.pwrite(pf, struct.pack('<Q', 2 ** 64 - 1), 0)
            os.close(pf)
        return 0
    return 2


class Lcx:
    """Client of the lcx pipeline driver (one persistent process; a crash is reported as the job's outcome)."""

    def __init__(self, flavour='plain', stack_kb=None, job_timeout=300):
        self.stack_kb, self.job_timeout = stack_kb, job_timeout
        repo = os.environ.get('VERIF_REPO', '/repo')
        tag = ''
        if repo != '/repo':
            import hashlib
            tag = '-' + hashlib.md5(repo.encode()).hexdigest()[:8]
        self.exe = os.path.join(V, 'build', flavour + tag, 'bin', 'lcx')
        self.p = None

    def _start(self):
        env = dict(os.environ)
        env.setdefault('ASAN_OPTIONS', 'detect_leaks=0:abort_on_error=0:handle_abort=1:allocator_may_return_null=1')
        env.setdefault('UBSAN_OPTIONS', 'print_stacktrace=1:halt_on_error=1')
        pre = None
        if self.stack_kb:
            import resource
            kb = self.stack_kb

            def pre():
                resource.setrlimit(resource.RLIMIT_STACK, (kb * 1024, kb * 1024))
        self.p = subprocess.Popen([self.exe], stdin=subprocess.PIPE, stdout=subprocess.PIPE, stderr=subprocess.PIPE, env=env, preexec_fn=pre)

    def job(self, j, timeout=None):
        timeout = timeout or self.job_timeout
        if self.p is None or self.p.poll() is not None:
            self._start()
        try:
            self.p.stdin.write((json.dumps(j) + '\n').encode())
            self.p.stdin.flush()
        except BrokenPipeError:
            pass
        res = {}

        def rd():
            res['line'] = self.p.stdout.readline()
        t = threading.Thread(target=rd, daemon=True)
        t.start()
        t.join(timeout)
        if t.is_alive():
            self.p.kill()
            self.p.wait()
            self.p = None
            return {'crash': 'hang', 'stderr': ''}
        line = res.get('line', b'')
        if not line:
            self.p.wait()
            err = self.p.stderr.read().decode('utf-8', 'replace')
            rc = self.p.returncode
            self.p = None
            sys.path.insert(0, os.path.join(V, 'lib'))
            import sup
            return {'crash': sup.crash_signature(err, rc), 'stderr': err[-2500:]}
        return json.loads(line)

    def close(self):
        if self.p is not None:
            try:
                self.p.stdin.close()
                self.p.wait(timeout=10)
            except Exception:
                self.p.kill()
            self.p = None
