"""Compile-and-run for generated C (gcc -O0 -shared, ctypes) and exec for generated Python.
Both runners take hooks for the NLA solver and the external-variable callback so that the harness owns
every environment answer the generated code asks for."""
import ctypes, os, re, subprocess, sys, types, math, hashlib, inspect

CFLAGS = ['-O0', '-shared', '-fPIC', '-std=c99', '-Wall', '-Wextra', '-Werror', '-Wno-unused-parameter', '-Wno-unused-variable']
SUPPORT_C = r'''
#include <stddef.h>
typedef void (*vf_objfn)(double *, double *, void *);
typedef void (*vf_nla_cb)(vf_objfn, double *, size_t, void *);
static vf_nla_cb vf_cb = 0;
void vf_set_nla(vf_nla_cb cb) { vf_cb = cb; }
void nlaSolve(vf_objfn f, double *u, size_t n, void *data) { if (vf_cb) vf_cb(f, u, n, data); }
'''
OBJFN = ctypes.CFUNCTYPE(None, ctypes.POINTER(ctypes.c_double), ctypes.POINTER(ctypes.c_double), ctypes.c_void_p)
NLACB = ctypes.CFUNCTYPE(None, OBJFN, ctypes.POINTER(ctypes.c_double), ctypes.c_size_t, ctypes.c_void_p)
EXTCB4 = ctypes.CFUNCTYPE(ctypes.c_double, ctypes.c_double, ctypes.POINTER(ctypes.c_double), ctypes.POINTER(ctypes.c_double), ctypes.POINTER(ctypes.c_double), ctypes.c_size_t)
EXTCB1 = ctypes.CFUNCTYPE(ctypes.c_double, ctypes.POINTER(ctypes.c_double), ctypes.c_size_t)


class CompileError(Exception):
    def __init__(self, diag):
        Exception.__init__(self, diag[:3000])
        self.diag = diag


_seq = [0]


def compile_c(h, c, workdir, tag, strict=True):
    _seq[0] += 1
    d = os.path.join(workdir, '%s.%d' % (tag, _seq[0]))  # unique path: dlopen caches by path
    os.makedirs(d, exist_ok=True)
    open(os.path.join(d, 'model.h'), 'w').write(h)
    open(os.path.join(d, 'model.c'), 'w').write(c)
    open(os.path.join(d, 'support.c'), 'w').write(SUPPORT_C)
    so = os.path.join(d, 'model.so')
    flags = CFLAGS if strict else ['-O0', '-shared', '-fPIC', '-std=c99', '-w']
    r = subprocess.run(['gcc'] + flags + ['-I', d, os.path.join(d, 'model.c'), os.path.join(d, 'support.c'), '-o', so, '-lm'], capture_output=True, text=True)
    if r.returncode != 0:
        raise CompileError(r.stderr)
    return so, d


def c_signatures(h):
    sig = {}
    for name in ('initialiseVariables', 'computeComputedConstants', 'computeRates', 'computeVariables'):
        m = re.search(r'void %s\(([^)]*)\);' % name, h)
        if m:
            sig[name] = [p.strip().split()[-1].lstrip('*') for p in m.group(1).split(',') if p.strip()]
    return sig


def c_info_struct(h):
    m = re.search(r'typedef struct \{\s*char name\[(\d+)\];\s*char units\[(\d+)\];\s*char component\[(\d+)\];\s*VariableType type;\s*\} VariableInfo;', h)
    if not m:
        return None
    n, u, c = (int(x) for x in m.groups())

    class VariableInfo(ctypes.Structure):
        _fields_ = [('name', ctypes.c_char * n), ('units', ctypes.c_char * u), ('component', ctypes.c_char * c), ('type', ctypes.c_int)]
    return VariableInfo, (n, u, c)


def c_enum(h):
    m = re.search(r'typedef enum \{([^}]*)\} VariableType;', h)
    return [x.strip() for x in m.group(1).split(',') if x.strip()] if m else []


class CRun:
    """Loads a compiled model; run() executes initialise → computeComputedConstants → computeRates → computeVariables."""

    def __init__(self, so, h):
        self.lib = ctypes.CDLL(so)
        self.h = h
        self.sig = c_signatures(h)
        self.has_states = 'STATE_COUNT' in h
        self.nvar = ctypes.c_size_t.in_dll(self.lib, 'VARIABLE_COUNT').value
        self.nstate = ctypes.c_size_t.in_dll(self.lib, 'STATE_COUNT').value if self.has_states else 0

    def info(self):
        st = c_info_struct(self.h)
        if not st:
            return None
        VI, sizes = st
        enum = c_enum(self.h)

        def conv(x):
            base = ctypes.addressof(x)
            raw = {k: ctypes.string_at(base + getattr(VI, k).offset, getattr(VI, k).size) for k in ('name', 'units', 'component')}
            return {'name': x.name.decode('utf-8', 'replace'), 'units': x.units.decode('utf-8', 'replace'), 'component': x.component.decode('utf-8', 'replace'),
                    'type': enum[x.type] if 0 <= x.type < len(enum) else x.type,
                    'terminated': all(b'\0' in raw[k] for k in raw)}
        out = {'sizes': sizes, 'VARIABLE_COUNT': self.nvar, 'variables': [conv(x) for x in (VI * self.nvar).in_dll(self.lib, 'VARIABLE_INFO')] if self.nvar else []}
        if self.has_states:
            out['STATE_COUNT'] = self.nstate
            out['states'] = [conv(x) for x in (VI * self.nstate).in_dll(self.lib, 'STATE_INFO')] if self.nstate else []
            out['voi'] = conv(VI.in_dll(self.lib, 'VOI_INFO'))
        return out

    def run(self, voi=0.0, nla=None, ext=None, state_override=None, stages=('initialiseVariables', 'computeComputedConstants', 'computeRates', 'computeVariables'), second=None):
        """nla(objfn(u_list)->f_list, u_list, n, arrays) -> new u_list ; ext(voi, states, rates, variables, index) -> float"""
        D = ctypes.c_double
        states = (D * max(1, self.nstate))(*([math.nan] * max(1, self.nstate)))
        rates = (D * max(1, self.nstate))(*([math.nan] * max(1, self.nstate)))
        variables = (D * max(1, self.nvar))(*([math.nan] * max(1, self.nvar)))
        arrays = {'states': states, 'rates': rates, 'variables': variables}
        keep = []
        if nla is not None or True:
            def cb(f, u, n, data):
                def obj(ul):
                    uu = (D * n)(*ul)
                    ff = (D * n)(*([math.nan] * n))
                    f(uu, ff, data)
                    return list(ff)
                res = nla(obj, [u[i] for i in range(n)], n, arrays) if nla else [u[i] for i in range(n)]
                for i in range(n):
                    u[i] = res[i]
            ccb = NLACB(cb)
            keep.append(ccb)
            self.lib.vf_set_nla(ccb)
        extcb = None
        if ext is not None:
            if self.has_states:
                extcb = EXTCB4(lambda v, s, r, va, i: float(ext(v, arrays, int(i))))
            else:
                extcb = EXTCB1(lambda va, i: float(ext(None, arrays, int(i))))
            keep.append(extcb)
        def call(name):
            if name not in self.sig:
                return
            fn = getattr(self.lib, name)
            fn.restype = None
            args = []
            for p in self.sig[name]:
                if p == 'voi':
                    args.append(D(voi))
                elif p in arrays:
                    args.append(arrays[p])
                elif p == 'externalVariable':
                    args.append(extcb)
            fn(*args)
        for name in stages:
            call(name)
            if name == 'initialiseVariables' and state_override:
                for i, v in state_override.items():
                    states[i] = v
        out = {'states': list(states)[:self.nstate], 'rates': list(rates)[:self.nstate], 'variables': list(variables)[:self.nvar]}
        if second:
            # what an integrator does between two outputs: the states move, then ONLY computeVariables is called
            if second.get('before'):
                second['before']()
            for i, v in second['states'].items():
                states[i] = v
            call('computeVariables')
            out['second'] = {'states': list(states)[:self.nstate], 'rates': list(rates)[:self.nstate], 'variables': list(variables)[:self.nvar]}
        return out


class PyRun:
    def __init__(self, code):
        self.ns = {}
        mod = types.ModuleType('nlasolver')
        self._nla = None

        def nla_solve(objective_function, u, n, data):
            if self._nla is None:
                return u
            return self._nla(objective_function, u, n, data)
        mod.nla_solve = nla_solve
        sys.modules['nlasolver'] = mod
        exec(compile(code, '<generated python>', 'exec'), self.ns)
        self.nvar = self.ns.get('VARIABLE_COUNT', 0)
        self.nstate = self.ns.get('STATE_COUNT', 0)
        self.has_states = 'STATE_COUNT' in self.ns

    def info(self):
        def conv(d):
            t = d.get('type')
            return {'name': d.get('name'), 'units': d.get('units'), 'component': d.get('component'), 'type': getattr(t, 'name', t)}
        out = {'VARIABLE_COUNT': self.nvar, 'variables': [conv(x) for x in self.ns.get('VARIABLE_INFO', [])]}
        if self.has_states:
            out['STATE_COUNT'] = self.nstate
            out['states'] = [conv(x) for x in self.ns.get('STATE_INFO', [])]
            out['voi'] = conv(self.ns.get('VOI_INFO', {}))
        return out

    def run(self, voi=0.0, nla=None, ext=None, state_override=None, stages=('initialise_variables', 'compute_computed_constants', 'compute_rates', 'compute_variables'), second=None):
        states = [math.nan] * self.nstate
        rates = [math.nan] * self.nstate
        variables = [math.nan] * self.nvar
        arrays = {'states': states, 'rates': rates, 'variables': variables}
        if nla:
            def cb(objfn, u, n, data):
                def obj(ul):
                    f = [math.nan] * n
                    objfn(list(ul), f, data)
                    return f
                return nla(obj, list(u), n, arrays)
            self._nla = cb
        else:
            self._nla = None
        def call(name):
            fn = self.ns.get(name)
            if fn is None:
                return
            args = []
            for p in inspect.signature(fn).parameters:
                if p == 'voi':
                    args.append(voi)
                elif p in arrays:
                    args.append(arrays[p])
                elif p == 'external_variable':
                    if self.has_states:
                        args.append(lambda v, s, r, va, i: ext(v, arrays, i))
                    else:
                        args.append(lambda va, i: ext(None, arrays, i))
            fn(*args)
        for name in stages:
            call(name)
            if name == 'initialise_variables' and state_override:
                for i, v in state_override.items():
                    states[i] = v
        if second:
            first = {k: list(v) for k, v in arrays.items()}
            if second.get('before'):
                second['before']()
            for i, v in second['states'].items():
                states[i] = v
            call('compute_variables')
            first['second'] = {k: list(v) for k, v in arrays.items()}
            return first
        return arrays


def close(a, b, rel=1e-9, abs_=1e-12):
    if a != a or b != b:
        return a != a and b != b
    if a in (math.inf, -math.inf) or b in (math.inf, -math.inf):
        return a == b
    return abs(a - b) <= max(abs_, rel * max(abs(a), abs(b)))
