#!/usr/bin/env python3
"""C06 — flattening yields an import-free model with the same meaning.
Family 'flat': a mixed-radix product of import structure x instances x units configuration x units-name clash x component-name
clash x explicit units imports. Every case is a set of files (root + libraries, delivered through Importer::addModel) with
ground-truth values computed here from the spec (units scales included). Oracle: resolve succeeds, flattenModel returns a model
without imports that validates with no issue, the argument and every library model are unchanged, the flat model analyses to
the expected type, and the generated C and Python give the ground-truth value of every root variable."""
import os
import re, sys, json, shutil, tempfile
V = os.path.dirname(os.path.dirname(os.path.abspath(__file__)))
sys.path.insert(0, os.path.join(V, 'lib'))
import codeexec as X
from pyharness import Family, Lcx, main

NS = 'xmlns="http://www.cellml.org/cellml/2.0#"'
XL = 'xmlns:xlink="http://www.w3.org/1999/xlink"'
MNS = 'xmlns="http://www.w3.org/1998/Math/MathML" xmlns:cellml="http://www.cellml.org/cellml/2.0#"'

DIMS = [
    ('structure', ['leaf', 'encapsulated-child', 'child-is-import', 'import-of-import', 'grandchild']),
    ('instances', ['one', 'two-of-the-same']),
    ('libunits', ['metre', 'lib-mm', 'lib-mm-via-um', 'lib-mm-only-in-cn', 'lib-mm-via-um-via-nm', 'lib-imports-cm-and-mm-uses-mm-first']),
    ('unitsclash', ['none', 'same-name-same-definition', 'same-name-different-definition', 'root-imports-same-name-different-definition', 'clash-with-child-units',
                    'root-has-the-innermost-library-units-under-another-name']),
    ('compclash', ['none', 'root-component-named-like-child', 'root-component-named-like-reference', 'root-child-named-like-import']),
    ('rootunits', ['local', 'imported-units-on-variable', 'imported-units-only-in-cn', 'same-units-imported-twice']),
    ('mathblocks', ['one', 'two']),
    # local components of the importing model that the (first) import instance encapsulates there
    ('rootkids', ['none', 'two', 'three']),
]
SCALE = {'metre': 1.0, 'mm': 1e-3, 'um': 1e-6, 'km': 1e3}


def count():
    n = 1
    for _, v in DIMS:
        n *= len(v)
    return n


def decode(i):
    d = {}
    for k, v in DIMS:
        d[k] = v[i % len(v)]
        i //= len(v)
    return d


def units_xml(name, ref, prefix=None, exponent=None, multiplier=None):
    a = ' units="%s"' % ref
    if prefix:
        a += ' prefix="%s"' % prefix
    if exponent is not None:
        a += ' exponent="%s"' % exponent
    if multiplier is not None:
        a += ' multiplier="%s"' % multiplier
    return '<units name="%s"><unit%s/></units>' % (name, a)


def cnu(x, u):
    return '<cn cellml:units="%s">%r</cn>' % (u, x)


def build(case):
    """returns root_doc, lib{url:doc}, expected{(comp,var):value}, notes"""
    st, inst, lu, uc, cc, ru = (case[k] for k in ('structure', 'instances', 'libunits', 'unitsclash', 'compclash', 'rootunits'))
    case.setdefault('mathblocks', 'one')
    case.setdefault('rootkids', 'none')
    lib1_units, lib2_units = [], []
    # ---- units used by the library component's variables
    if lu == 'metre':
        xu, xs = 'metre', 1.0
    elif lu in ('lib-mm', 'lib-mm-only-in-cn'):
        lib1_units.append(units_xml('mm', 'metre', prefix='milli'))
        xu, xs = ('mm', 1e-3) if lu == 'lib-mm' else ('metre', 1.0)
    elif lu == 'lib-imports-cm-and-mm-uses-mm-first':
        # the library itself imports two non-equivalent units (declared cm, mm) and its component uses them in the other order
        lib1_units.append('<import %s xlink:href="ulib3.cellml"><units name="cm" units_ref="centi_m"/><units name="mm" units_ref="milli_m"/></import>' % XL)
        xu, xs = 'mm', 1e-3
    elif lu == 'lib-mm-via-um-via-nm':  # a reference chain of depth 3: mm = 1000 um, um = 1000 nm, nm = nano metre
        lib1_units.append(units_xml('nm', 'metre', prefix='nano'))
        lib1_units.append(units_xml('um', 'nm', multiplier='1000'))
        lib1_units.append(units_xml('mm', 'um', multiplier='1000'))
        xu, xs = 'mm', 1e-3
    else:  # mm defined through another library units: mm = 1000 um, um = micro metre
        lib1_units.append(units_xml('um', 'metre', prefix='micro'))
        lib1_units.append(units_xml('mm', 'um', multiplier='1000'))
        xu, xs = 'mm', 1e-3
    cn_units = 'mm' if lu != 'metre' else 'metre'
    # child component units (lives in lib1 or lib2)
    child_u, child_s = xu, xs
    child_lib_units = []
    if uc == 'clash-with-child-units':
        # the child uses units 'km' which the ROOT defines differently
        child_u, child_s = 'km', 1e3
        child_lib_units.append(units_xml('km', 'metre', prefix='kilo'))
    # ---- library component T (reference name 'T'), optional child 'C' (+ grandchild 'G')
    T = 'T'
    Cn = 'C'

    def comp_T(with_child, child_import=None, grandchild=False):
        vs = ['<variable name="x" units="%s" interface="%s"/>' % (xu, 'public_and_private' if with_child else 'public'),
              '<variable name="y" units="%s" interface="public"/>' % xu]
        if with_child:
            vs.append('<variable name="zz" units="%s" interface="private"/>' % xu)
            eq = '<apply><eq/><ci>y</ci><apply><plus/><ci>zz</ci>%s</apply></apply>' % cnu(1.0, cn_units)
        else:
            eq = '<apply><eq/><ci>y</ci><apply><plus/><apply><times/>%s<ci>x</ci></apply>%s</apply></apply>' % (cnu(2.0, 'dimensionless'), cnu(1.0, cn_units))
        extra = ''
        if lu == 'lib-imports-cm-and-mm-uses-mm-first':
            vs.append('<variable name="p" units="cm" interface="public"/>')
            eq += '<apply><eq/><ci>p</ci>%s</apply>' % cnu(4.0, 'cm')
        if case['mathblocks'] == 'two':
            # a second <math> element that does not mention any units that flattening may have to rename
            vs.append('<variable name="q" units="%s" interface="public"/>' % xu)
            extra = '<math %s><apply><eq/><ci>q</ci><apply><times/>%s<ci>x</ci></apply></apply></math>' % (MNS, cnu(3.0, 'dimensionless'))
        return '<component name="%s">%s<math %s>%s</math>%s</component>' % (T, ''.join(vs), MNS, eq, extra)

    def comp_C(name, grandchild=False):
        vs = ['<variable name="w" units="%s" interface="%s"/>' % (child_u, 'public_and_private' if grandchild else 'public'),
              '<variable name="z" units="%s" interface="public"/>' % child_u]
        if grandchild:
            vs.append('<variable name="gz" units="%s" interface="private"/>' % child_u)
            eq = '<apply><eq/><ci>z</ci><apply><times/>%s<ci>gz</ci></apply></apply>' % cnu(2.0, 'dimensionless')
        else:
            eq = '<apply><eq/><ci>z</ci><apply><times/>%s<ci>w</ci></apply></apply>' % cnu(2.0, 'dimensionless')
        return '<component name="%s">%s<math %s>%s</math></component>' % (name, ''.join(vs), MNS, eq)

    def comp_G():
        # the grandchild works in units of its own ('dm_g', a decimetre) that nothing else in the library component uses
        return ('<component name="G"><variable name="gw" units="dm_g" interface="public"/><variable name="gout" units="dm_g" interface="public"/>'
                '<math %s><apply><eq/><ci>gout</ci><apply><plus/><ci>gw</ci>%s</apply></apply></math></component>') % (MNS, cnu(0.0, 'dm_g'))

    lib = {}
    with_child = st in ('encapsulated-child', 'child-is-import', 'grandchild')
    lib1 = []
    conns1 = ''
    enc1 = ''
    if st == 'import-of-import':
        # lib1.T is itself an import of lib2.T2 (a leaf)
        lib1_body = '<import %s xlink:href="lib2.cellml"><component name="%s" component_ref="T2"/></import>' % (XL, T)
        l2 = comp_T(False).replace('name="T"', 'name="T2"')
        lib['lib2.cellml'] = '<?xml version="1.0"?><model %s name="lib2">%s%s</model>' % (NS, ''.join(lib1_units), l2)
        lib['lib1.cellml'] = '<?xml version="1.0"?><model %s name="lib1">%s</model>' % (NS, lib1_body)
    else:
        lib1.append(comp_T(with_child))
        if with_child:
            if st == 'child-is-import':
                lib1.append('<import %s xlink:href="lib2.cellml"><component name="%s" component_ref="C2"/></import>' % (XL, Cn))
                lib['lib2.cellml'] = '<?xml version="1.0"?><model %s name="lib2">%s%s</model>' % (
                    NS, ''.join(child_lib_units or ([u for u in lib1_units] if child_u != 'metre' else [])), comp_C('C2'))
            else:
                lib1.append(comp_C(Cn, grandchild=st == 'grandchild'))
                if st == 'grandchild':
                    lib1.append(comp_G())
            enc1 = '<encapsulation><component_ref component="%s"><component_ref component="%s"%s</component_ref></encapsulation>' % (
                T, Cn, '><component_ref component="G"/></component_ref>' if st == 'grandchild' else '/>')
            conns1 = ('<connection component_1="%s" component_2="%s"><map_variables variable_1="x" variable_2="w"/><map_variables variable_1="zz" variable_2="z"/></connection>' % (T, Cn))
            if st == 'grandchild':
                conns1 += '<connection component_1="%s" component_2="G"><map_variables variable_1="w" variable_2="gw"/><map_variables variable_1="gz" variable_2="gout"/></connection>' % Cn
        u1 = list(lib1_units)
        if st != 'child-is-import':
            u1 += child_lib_units
        if st == 'grandchild':
            u1.append(units_xml('dm_g', 'metre', prefix='deci'))
        lib['lib1.cellml'] = '<?xml version="1.0"?><model %s name="lib1">%s%s%s%s</model>' % (NS, ''.join(u1), ''.join(lib1), conns1, enc1)
    if lu == 'lib-imports-cm-and-mm-uses-mm-first':
        lib['ulib3.cellml'] = '<?xml version="1.0"?><model %s name="ulib3">%s%s</model>' % (NS, units_xml('centi_m', 'metre', prefix='centi'), units_xml('milli_m', 'metre', prefix='milli'))
    # ---- ground truth for one instance fed with a (metres)
    def f(a_m):
        x = a_m / xs               # value of x in its units
        if not with_child:
            y = 2.0 * x + 1.0
        else:
            w = x * xs / child_s
            z = 2.0 * w            # the grandchild passes its input through: gout = gw + 0
            zz = z * child_s / xs
            y = zz + 1.0
        return y * xs              # in metres
    # ---- root model
    root_units = []
    imports = []
    a_u, a_s = 'metre', 1.0
    b_u, b_s = 'metre', 1.0
    root_cn_u = 'metre'
    if uc == 'same-name-same-definition':
        root_units.append(units_xml('mm', 'metre', prefix='milli'))
        b_u, b_s = 'mm', 1e-3
    elif uc == 'same-name-different-definition':
        root_units.append(units_xml('mm', 'metre', prefix='micro'))   # the root's "mm" is a micrometre
        b_u, b_s = 'mm', 1e-6
    elif uc == 'root-imports-same-name-different-definition':
        imports.append('<import %s xlink:href="ulib.cellml"><units name="mm" units_ref="tiny"/></import>' % XL)
        lib['ulib.cellml'] = '<?xml version="1.0"?><model %s name="ulib">%s</model>' % (NS, units_xml('tiny', 'metre', prefix='micro'))
        b_u, b_s = 'mm', 1e-6
    elif uc == 'clash-with-child-units':
        root_units.append(units_xml('km', 'metre', multiplier='5'))    # the root's "km" is 5 metres
        b_u, b_s = 'km', 5.0
    elif uc == 'root-has-the-innermost-library-units-under-another-name':
        # the importing model already defines units equivalent to the innermost units of the library's chain, under its own
        # name, and does not define the units in between
        inner = {'lib-mm': ('milli', 1e-3), 'lib-mm-only-in-cn': ('milli', 1e-3), 'lib-mm-via-um': ('micro', 1e-6), 'lib-mm-via-um-via-nm': ('nano', 1e-9)}.get(lu, ('centi', 1e-2))
        root_units.append(units_xml('root_own_name', 'metre', prefix=inner[0]))
        b_u, b_s = 'root_own_name', inner[1]
    if ru == 'imported-units-on-variable':
        imports.append('<import %s xlink:href="ulib2.cellml"><units name="kay" units_ref="kilo_m"/></import>' % XL)
        lib['ulib2.cellml'] = '<?xml version="1.0"?><model %s name="ulib2">%s</model>' % (NS, units_xml('kilo_m', 'metre', prefix='kilo'))
        a_u, a_s = 'kay', 1e3
    elif ru == 'imported-units-only-in-cn':
        imports.append('<import %s xlink:href="ulib2.cellml"><units name="kay" units_ref="kilo_m"/></import>' % XL)
        lib['ulib2.cellml'] = '<?xml version="1.0"?><model %s name="ulib2">%s</model>' % (NS, units_xml('kilo_m', 'metre', prefix='kilo'))
        root_cn_u = 'kay'
    elif ru == 'same-units-imported-twice':
        imports.append('<import %s xlink:href="ulib2.cellml"><units name="kay" units_ref="kilo_m"/><units name="kay2" units_ref="kilo_m"/></import>' % XL)
        lib['ulib2.cellml'] = '<?xml version="1.0"?><model %s name="ulib2">%s</model>' % (NS, units_xml('kilo_m', 'metre', prefix='kilo'))
        a_u, a_s = 'kay', 1e3
        root_cn_u = 'kay2'
    names = ['I1'] + (['I2'] if inst == 'two-of-the-same' else [])
    if cc == 'root-child-named-like-import':
        names[0] = Cn if with_child else 'T'   # the import instance itself is called like something inside the library
    imports.append('<import %s xlink:href="lib1.cellml">%s</import>' % (XL, ''.join('<component name="%s" component_ref="%s"/>' % (n, T) for n in names)))
    A = [0.003, 0.007]
    mvars, meqs, conns, expected = [], [], [], {}
    for k, n in enumerate(names):
        mvars.append('<variable name="a%d" units="%s" interface="public" initial_value="%r"/>' % (k, a_u, A[k] / a_s * 1.0))
        mvars.append('<variable name="b%d" units="%s" interface="public"/>' % (k, b_u))
        mvars.append('<variable name="r%d" units="%s" interface="public"/>' % (k, b_u))
        meqs.append('<apply><eq/><ci>r%d</ci><apply><plus/><ci>b%d</ci>%s</apply></apply>' % (k, k, cnu(0.0, root_cn_u if root_cn_u != 'metre' else b_u)))
        conns.append('<connection component_1="main" component_2="%s"><map_variables variable_1="a%d" variable_2="x"/><map_variables variable_1="b%d" variable_2="y"/></connection>' % (n, k, k))
        a_m = (A[k] / a_s) * a_s
        # r_k = b_k + 0 is a class of its own (a_k and b_k are merged with library variables whose primary, and so whose
        # units, the analyser chooses), and it depends on the whole chain a -> x -> ... -> y -> b
        expected[('main', 'r%d' % k)] = f(a_m) / b_s
    extra = ''
    extra_enc = ''
    if cc == 'root-component-named-like-child':
        extra = '<component name="%s"><variable name="q" units="dimensionless" initial_value="1"/></component>' % Cn
    elif cc == 'root-component-named-like-reference':
        extra = '<component name="%s"><variable name="q" units="dimensionless" initial_value="1"/></component>' % T
    nk = {'none': 0, 'two': 2, 'three': 3}[case['rootkids']]
    for j in range(nk):
        # each computes a value of its own; losing the component loses the variable
        extra += ('<component name="K%d"><variable name="kv" units="dimensionless"/><math %s><apply><eq/><ci>kv</ci>%s</apply></math></component>'
                  % (j, MNS, cnu(j + 0.5, 'dimensionless')))
        expected[('K%d' % j, 'kv')] = j + 0.5
    if nk:
        extra_enc = '<encapsulation><component_ref component="%s">%s</component_ref></encapsulation>' % (names[0], ''.join('<component_ref component="K%d"/>' % j for j in range(nk)))
    main = '<component name="main">%s<math %s>%s</math></component>' % (''.join(mvars), MNS, ''.join(meqs))
    root = '<?xml version="1.0"?><model %s name="root">%s%s%s%s%s%s</model>' % (NS, ''.join(imports), ''.join(root_units), main, extra, ''.join(conns), extra_enc)
    return root, lib, expected


class Runner:
    def __init__(self, opts):
        self.flavour = opts.get('flavour', 'plain')
        self.lcx = None
        self.tmp = None

    def job(self, j):
        if self.lcx is None:
            # a small stack makes the unbounded recursion of the known finding end in seconds under ASan, not minutes
            self.lcx = Lcx(self.flavour, stack_kb=1024 if self.flavour == 'asan' else None, job_timeout=120)
        return self.lcx.job(j)

    def work(self):
        if self.tmp is None:
            base = os.path.join(V, 'build', 'scratch')
            os.makedirs(base, exist_ok=True)
            self.tmp = tempfile.mkdtemp(prefix='c06.', dir=base)
        return self.tmp

    def cleanup(self):
        if self.lcx:
            self.lcx.close()
        if self.tmp:
            shutil.rmtree(self.tmp, ignore_errors=True)


def families(opts):
    r = Runner(opts)

    def run(i, ctx):
        case = decode(i)
        if opts.get('skip-libunits') == case['libunits']:
            ctx.outcome('not-run-in-this-pass:libunits=' + case['libunits'])
            return
        if opts.get('sub') == 'q' and (case['rootunits'] not in ('local', 'imported-units-on-variable') or case['compclash'] not in ('none', 'root-component-named-like-child')
                                       or (case['rootkids'] != 'none' and (case['mathblocks'] != 'one' or case['instances'] != 'one'))):
            ctx.outcome('not-in-the-quick-sub-product')
            return
        root, lib, expected = build(case)
        tag = ':'.join('%s' % case[k] for k, _ in DIMS)

        def rep(sig, det=None):
            d = dict(det or {})
            d['case'] = case
            ctx.violation(sig if sig.startswith('C15:') else 'flat:' + sig, d)
        # are all inputs valid? (each library file on its own, no resolution needed for units-only / leaf files)
        res = r.job({'id': i, 'doc': root, 'lib': lib, 'flatten': True, 'code': True})
        ctx.judged += 1
        if 'crash' in res:
            rep('pipeline-crash:%s:libunits=%s:unitsclash=%s' % (res['crash'], case['libunits'], case['unitsclash']), {'stderr_tail': res.get('stderr', '')})
            return
        for x in res.get('c15', []):
            rep('C15:logger-incoherent:' + x['service'], x)
        if res.get('parse_issues'):
            rep('harness:root-document-rejected-by-parser', {'issues': res['parse_issues'][:3]})
            return
        if not res.get('resolve_ok'):
            rep('harness-or-C07:resolvable-graph-not-resolved', {'issues': res.get('resolve_issues', [])[:3]})
            return
        if res.get('flat_null'):
            rep('flatten-refuses-resolved-model:' + case['structure'] + ':' + case['unitsclash'], {'issues': res.get('flatten_issues', [])[:3]})
            ctx.outcome('flatten-null')
            return
        if res.get('flat_has_imports'):
            rep('flat-model-still-has-imports')
        if not res.get('arg_unchanged_by_flatten'):
            rep('argument-model-changed-by-flattening')
        if not res.get('lib_unchanged_by_flatten'):
            rep('library-model-changed-by-flattening:' + str(res.get('lib_changed_key')))
        if res.get('flat_validate_errors') or res.get('flat_validate_issues'):
            first = (res.get('flat_validate_issues') or [{}])[0]
            kind = 'units' if 'nits' in first.get('desc', '') else 'other'
            rep('flat-model-not-valid:%s:%s:%s:%s' % (kind, case['structure'], case['unitsclash'], case['rootunits']), {'issues': res.get('flat_validate_issues', [])[:4]})
            ctx.outcome('flat-invalid')
            return
        if not res.get('valid') or res.get('type') != 'algebraic':
            rep('flat-model-analysed-as-%s' % res.get('type'), {'issues': [x for x in res.get('analyse_issues', []) if x['level'] == 'ERROR'][:3]})
            return
        ctx.outcome('flat-ok:%s:%s:%s' % (case['structure'], case['libunits'], case['unitsclash']))
        idx = {(v['comp'], v['var']): v['index'] for v in res.get('variables', [])}
        for prof in ('C', 'Python'):
            try:
                if prof == 'C':
                    so, cdir = X.compile_c(res['c_h'], res['c_c'], r.work(), 'f', strict=False)
                    out = X.CRun(so, res['c_h']).run()
                    shutil.rmtree(cdir, ignore_errors=True)
                else:
                    out = X.PyRun(res['py']).run()
            except Exception as ex:
                rep('values:%s-run-raised:%s' % (prof, type(ex).__name__), {'error': str(ex)[:300]})
                continue
            for (c, v), want in expected.items():
                key = (c, v)
                if key not in idx and c.startswith('K'):
                    # a local component moved below the instantiated import may come out renamed '<name>_<n>' (pinned by the
                    # repository's ModelFlattening.importingComponentThatAlsoHasAnImportedComponentAsAChild): not judged
                    alt = [k for k in idx if k[1] == v and re.fullmatch(re.escape(c) + r'(_\d+)+', k[0])]
                    if len(alt) == 1:
                        key = alt[0]
                if key not in idx:
                    rep('values:root-variable-missing-from-flat-analysis', {'var': '%s.%s' % (c, v)})
                    continue
                got = out['variables'][idx[key]]
                if not X.close(got, want, rel=1e-9):
                    rep('values:%s:wrong-value:%s:%s:%s' % (prof, case['structure'], case['libunits'], case['unitsclash']), {'var': v, 'got': repr(got), 'want': repr(want)})
                    break

    def show(i):
        case = decode(i)
        root, lib, expected = build(case)
        return {'case': case, 'root': root, 'library': lib, 'expected': {'%s.%s' % k: v for k, v in expected.items()}}

    import atexit
    atexit.register(r.cleanup)
    return [Family('flat', count, run, show)]


if __name__ == '__main__':
    sys.exit(main(families))
