// FLAVOURS: asan plain
// C01 — no input can crash, hang or corrupt the processing pipeline (DESIGN §3 C01).
// case = (seed document set, <= 2 deviations, parser mode [, isolated stage]); the oracle is "the worker returns" (the
// supervisor names crashes after the crashing function) + the C15 Logger invariants after every service call + the weak
// expectation "what is certainly not a valid model produced >= 1 issue".
#include "c01_dev.hpp"
#include "c01_pipe.hpp"
#include "c01_gen.hpp"
#include <libxml/parserInternals.h>
#include <pthread.h>
#include <signal.h>
#include <ucontext.h>
#include <execinfo.h>
#include <sys/syscall.h>

// ---------------------------------------------------------------- deterministic stack-overflow reports
// ASan names a stack overflow after whatever frame happened to touch the guard page, which changes with every byte of
// environment. The class of the defect is the *recursive function*, so this handler (own alternate stack, chained in front
// of ASan's) takes a backtrace of the interrupted context, counts functions and prints an ASan-shaped report naming the function(s) that make
// up the recursion. Everything that is not a stack overflow goes to ASan's handler unchanged.
extern "C" void __sanitizer_symbolize_pc(void *pc, const char *fmt, char *out_buf, size_t out_buf_size);
extern "C" void __sanitizer_set_death_callback(void (*callback)(void));

// The supervisor loses the statistics of a worker that dies. The counts of the cases that were completed before the fatal
// one are therefore written out by the dying process itself (sanitizer death callback, std::terminate, overflow reporter);
// evaluations = 0 because the supervisor accounts for the evaluations of a partial run itself.
static vf::Ctx *g_ctx = nullptr;
static void emitPartialStats()
{
    static bool done = false;
    if (done || !g_ctx) return;
    done = true;
    vf::json st = {{"stats", 1}, {"family", g_ctx->family}, {"partial", true}, {"evaluations", 0}, {"judged", g_ctx->judged}, {"violations", g_ctx->violations},
                   {"outcomes", g_ctx->outcomes}, {"counters", g_ctx->counters}};
    std::string line = st.dump(-1, ' ', false, vf::json::error_handler_t::replace) + "\n";
    fputs(line.c_str(), stdout);
    fflush(stdout);
}
struct KSigaction // the kernel's x86-64 layout; ASan's sigaction interceptor hides its own handler, so it is fetched and replaced with raw system calls
{
    void (*handler)(int, siginfo_t *, void *);
    unsigned long flags;
    void (*restorer)();
    unsigned long mask;
};
static KSigaction g_asanSegv;
static void onSegv(int sig, siginfo_t *si, void *ucv)
{
    auto *uc = static_cast<ucontext_t *>(ucv);
    char *addr = static_cast<char *>(si->si_addr);
    char *sp = reinterpret_cast<char *>(uc->uc_mcontext.gregs[REG_RSP]);
    bool overflow = addr + 4096 > sp && addr < sp + 0xFFFF; // ASan's own criterion
    if (!overflow) {
        if (g_asanSegv.handler) g_asanSegv.handler(sig, si, ucv);
        _exit(139);
    }
    static void *frames[800];
    int n = backtrace(frames, 800);
    std::map<void *, int> pcs;
    for (int i = 0; i < n; ++i) ++pcs[frames[i]];
    std::map<std::string, int> fns;
    for (auto &pc : pcs) {
        char buf[1024] = "";
        __sanitizer_symbolize_pc(pc.first, "%f", buf, sizeof buf);
        std::string f = buf;
        size_t par = f.find('(');
        if (par != std::string::npos) f.resize(par);
        for (auto &ch : f) if (ch == ' ') ch = '_';
        fns[f] += pc.second;
    }
    int best = 0;
    for (auto &f : fns) if (f.first.find("libcellml::") == 0) best = std::max(best, f.second);
    std::string names;
    for (auto &f : fns) if (f.second * 2 >= best && f.first.find("libcellml::") == 0) names += (names.empty() ? "" : "+") + f.first;
    if (names.empty()) { // the recursion is outside the library (e.g. std::regex called by it): name the dominating function, whatever it is
        int top = 0;
        std::string fn;
        for (auto &f : fns) if (f.second > top) { top = f.second; fn = f.first; }
        size_t lt = fn.find('<');
        if (lt != std::string::npos) fn.resize(lt); // drop template arguments
        names = "libcellml-calls::" + (fn.empty() ? std::string("?") : fn);
        best = top;
    }
    fprintf(stderr, "==%d==ERROR: AddressSanitizer: stack-overflow (recursion identified by the C01 harness; %d of %d frames)\n    #0 0x0 in %s /repo/src/recursion:0\n", getpid(), best, n, names.c_str());
    emitPartialStats();
    _exit(1);
}
static void installOverflowReporter()
{
    static char alt[1 << 19];
    stack_t ss;
    ss.ss_sp = alt;
    ss.ss_size = sizeof alt;
    ss.ss_flags = 0;
    sigaltstack(&ss, nullptr);
    void *warm[4];
    backtrace(warm, 4); // loads libgcc now, not inside the handler
    if (syscall(SYS_rt_sigaction, SIGSEGV, nullptr, &g_asanSegv, 8) != 0) return;
    KSigaction mine = g_asanSegv;
    if (!mine.restorer) return; // no handler installed by the sanitizer: leave everything alone
    mine.handler = onSegv;
    mine.flags |= SA_SIGINFO | SA_ONSTACK | SA_NODEFER;
    syscall(SYS_rt_sigaction, SIGSEGV, &mine, nullptr, 8);
}
using namespace vf;
using namespace c01;

// ---------------------------------------------------------------- reference: is the text well-formed XML (libxml2 called directly, no libcellml code)
static bool wellFormed(const std::string &text)
{
    const char *s = text.c_str(); // the library hands c_str() to libxml2: that view is the document
    xmlParserCtxtPtr ctxt = xmlNewParserCtxt();
    xmlDocPtr d = xmlCtxtReadMemory(ctxt, s, int(strlen(s)), "/", nullptr, XML_PARSE_NOERROR | XML_PARSE_NOWARNING | XML_PARSE_NONET);
    bool ok = d != nullptr && ctxt->wellFormed;
    if (d) xmlFreeDoc(d);
    xmlFreeParserCtxt(ctxt);
    return ok;
}

// runs one document set and applies the weak expectations
static void runCase(Ctx &c, std::vector<Doc> docs, int mainDoc, bool strict, unsigned stages, const std::string &why, bool bothImporters = true, const char *tag = "", bool mustBeClean = false)
{
    g_ctx = &c;
    std::vector<bool> wf;
    for (auto &d : docs) wf.push_back(wellFormed(d.text));
    PipeResult r = pipeline(c, docs, mainDoc, strict, stages, bothImporters);
    ++c.judged;
    c.outcome(std::string(tag) + (strict ? "S:" : "P:") + r.cls);
    if (c.verbose) fprintf(stderr, "class %s\n%s\n", r.cls.c_str(), r.detail.dump(1).c_str());
    for (size_t i = 0; i < docs.size(); ++i) {
        if (!wf[i]) {
            c.count("weak_oracle_illformed");
            if (r.docParserErrors[i] == 0) c.violation("unreported:ill-formed-xml-parsed-without-error", {{"strict", strict}, {"document", safe(docs[i].text, 1500)}});
        }
    }
    if (mustBeClean && (r.parserErrWarn || ((stages & ST_VALIDATE) && r.validatorErrWarn)))
        c.violation("generated-valid-model-reported", {{"parser", r.parserErrWarn}, {"validator", r.validatorErrWarn}, {"document", safe(docs[mainDoc].text, 1500)}});
    if (!why.empty() && (stages & ST_VALIDATE)) {
        c.count("weak_oracle_invalid");
        if (r.parserErrWarn + r.validatorErrWarn == 0) c.violation("unreported:" + why, {{"strict", strict}, {"document", safe(docs[mainDoc].text, 1500)}});
    }
}

// ---------------------------------------------------------------- family seeds: the unchanged seeds, judged strongly (they must be what they claim)
static void runSeed(uint64_t i, Ctx &c)
{
    const Seed &s = seeds()[i / 2];
    bool strict = i % 2 == 0;
    g_ctx = &c;
    PipeResult r = pipeline(c, s.docs, s.mainDoc, strict, ST_ALL, true);
    ++c.judged;
    c.outcome(s.name + (strict ? ":S:" : ":P:") + r.cls);
    if (c.verbose) fprintf(stderr, "class %s\n%s\n", r.cls.c_str(), r.detail.dump(1).c_str());
    bool usable = s.valid && !(strict && s.legacy);
    if (usable && (r.parserErrWarn || r.validatorErrWarn)) c.violation("seed:valid-seed-reported:" + s.name, {{"strict", strict}, {"parser", r.parserErrWarn}, {"validator", r.validatorErrWarn}});
    if (!usable && r.parserIssues + r.validatorIssues == 0) c.violation("unreported:invalid-seed:" + s.name, {{"strict", strict}});
    if (usable && s.analysable) {
        bool okType = r.analyserType == int(AnalyserModel::Type::ODE) || r.analyserType == int(AnalyserModel::Type::ALGEBRAIC) || r.analyserType == int(AnalyserModel::Type::NLA) || r.analyserType == int(AnalyserModel::Type::DAE);
        if (!okType || r.codeBytes == 0) c.violation("seed:analysable-seed-not-analysed:" + s.name, {{"type", r.analyserType}, {"code", r.codeBytes}});
    }
    if (usable && s.docs.size() > 1 && !(r.resolved && r.flat)) c.violation("seed:imports-not-resolved-or-flattened:" + s.name, {{"resolved", r.resolved}, {"flat", r.flat}});
}

// ---------------------------------------------------------------- families dev1_*: every single deviation of every seed of a group x parser mode
struct Group
{
    std::vector<size_t> seedIdx;
    std::vector<uint64_t> offset; // prefix sums
    uint64_t total = 0;
    uint64_t modes = 2; // 2: strict and permissive parser; 1: the mode that reads the seed (strict for 2.0, permissive for 1.x)
    std::vector<std::vector<size_t>> sel; // per seed: the selected deviations (indices into SeedInfo::devs); empty = all
};
static bool modeOf(const Group &g, const Seed &s, uint64_t m) { return g.modes == 2 ? m == 0 : !s.legacy; }
static Group makeGroup(std::function<bool(const Seed &)> pred, bool pairs, uint64_t modes, std::function<bool(const SeedInfo &, const Dev &)> devPred = nullptr)
{
    Group g;
    g.modes = modes;
    for (size_t i = 0; i < seeds().size(); ++i) {
        if (!pred(seeds()[i])) continue;
        g.seedIdx.push_back(i);
        g.offset.push_back(g.total);
        g.sel.emplace_back();
        if (devPred) for (size_t d = 0; d < seedInfo(i).devs.size(); ++d) if (devPred(seedInfo(i), seedInfo(i).devs[d])) g.sel.back().push_back(d);
        uint64_t n = pairs ? seedInfo(i).reducedIdx.size() : devPred ? g.sel.back().size() : seedInfo(i).devs.size();
        g.total += (pairs ? n * (n - 1) / 2 : n) * modes;
    }
    return g;
}
static const Group &groupMathFree() { static Group g = makeGroup([](const Seed &s) { return !s.math; }, false, 2); return g; }
static const Group &groupMath() { static Group g = makeGroup([](const Seed &s) { return s.math && s.name != "allmath"; }, false, 1); return g; }
static const Group &groupPairs() { static Group g = makeGroup([](const Seed &s) { return !s.math && !s.opaque; }, true, 1); return g; }

static size_t locate(const Group &g, uint64_t i, uint64_t &local, size_t *slot = nullptr)
{
    size_t k = std::upper_bound(g.offset.begin(), g.offset.end(), i) - g.offset.begin() - 1;
    local = i - g.offset[k];
    if (slot) *slot = k;
    return g.seedIdx[k];
}
static const Dev &devOf(const Group &g, size_t slot, const SeedInfo &info, uint64_t n) { return info.devs[g.sel[slot].empty() ? n : g.sel[slot][n]]; }
// quick selection on the math seeds: the attribute/text family (a) everywhere, and insertions into the token elements
static bool isTokenElement(const SeedInfo &si, int id) { return id >= 0 && size_t(id) < si.elems.size() && (si.elems[id]->local() == "ci" || si.elems[id]->local() == "cn"); }
static const Group &groupMathQuick()
{
    static Group g = makeGroup([](const Seed &s) { return s.name == "power-units" || s.name == "ode" || s.name == "math-small"; }, false, 1,
                               [](const SeedInfo &si, const Dev &d) { return d.fam == 'a' || (d.kind == C_INS && isTokenElement(si, d.node)); });
    return g;
}
static std::vector<Doc> withTarget(const Seed &s, const std::string &text)
{
    std::vector<Doc> docs = s.docs;
    docs[s.target].text = text;
    return docs;
}
static void runDev1(const Group &g, uint64_t i, Ctx &c)
{
    uint64_t local;
    size_t slot;
    size_t si = locate(g, i, local, &slot);
    const Seed &s = seeds()[si];
    const SeedInfo &info = seedInfo(si);
    const Dev &d = devOf(g, slot, info, local / g.modes);
    bool strict = modeOf(g, s, local % g.modes);
    int inapp = 0;
    std::string text = deviate(info, {&d}, &inapp);
    if (text.size() > 65536) { c.outcome("over-64KiB-not-in-domain"); return; }
    c.count(std::string("family_") + d.fam);
    runCase(c, withTarget(s, text), s.mainDoc, strict, ST_ALL, d.why, !s.math, (std::string(1, d.fam) + ":").c_str());
}
static json showDev1(const Group &g, uint64_t i)
{
    uint64_t local;
    size_t slot;
    size_t si = locate(g, i, local, &slot);
    const Seed &s = seeds()[si];
    const SeedInfo &info = seedInfo(si);
    const Dev &d = devOf(g, slot, info, local / g.modes);
    return json{{"seed", s.name}, {"mode", modeOf(g, s, local % g.modes) ? "strict" : "permissive"}, {"deviation", safe(describe(d), 300)}, {"expect_issue", d.why}, {"document", safe(deviate(info, {&d}), 3000)}};
}

// ---------------------------------------------------------------- family dev2_mf: every pair of deviations from the reduced alphabet
static void pairAt(const SeedInfo &info, uint64_t t, size_t &a, size_t &b)
{
    uint64_t n = info.reducedIdx.size();
    // row a has n-1-a entries
    uint64_t row = 0, start = 0;
    // closed form, then fix rounding
    double x = (2.0 * n - 1 - std::sqrt((2.0 * n - 1) * (2.0 * n - 1) - 8.0 * double(t))) / 2.0;
    row = uint64_t(x);
    auto rowStart = [&](uint64_t r) { return r * (2 * n - r - 1) / 2; };
    while (row > 0 && rowStart(row) > t) --row;
    while (rowStart(row + 1) <= t) ++row;
    start = rowStart(row);
    a = row;
    b = row + 1 + (t - start);
}
static void runDev2(uint64_t i, Ctx &c)
{
    const Group &g = groupPairs();
    uint64_t local;
    size_t si = locate(g, i, local);
    const Seed &s = seeds()[si];
    const SeedInfo &info = seedInfo(si);
    size_t a, b;
    pairAt(info, local / g.modes, a, b);
    const Dev &d1 = info.devs[info.reducedIdx[a]], &d2 = info.devs[info.reducedIdx[b]];
    bool strict = modeOf(g, s, local % g.modes);
    int inapp = 0;
    std::string text = deviate(info, {&d1, &d2}, &inapp);
    if (text.size() > 65536) { c.outcome("over-64KiB-not-in-domain"); return; }
    if (inapp) c.count("second_deviation_inapplicable");
    c.count(std::string("pair_") + d1.fam + d2.fam);
    runCase(c, withTarget(s, text), s.mainDoc, strict, ST_ALL, "", false, "2:");
}
static json showDev2(uint64_t i)
{
    const Group &g = groupPairs();
    uint64_t local;
    size_t si = locate(g, i, local);
    const SeedInfo &info = seedInfo(si);
    size_t a, b;
    pairAt(info, local / g.modes, a, b);
    const Dev &d1 = info.devs[info.reducedIdx[a]], &d2 = info.devs[info.reducedIdx[b]];
    return json{{"seed", seeds()[si].name}, {"mode", modeOf(g, seeds()[si], local % g.modes) ? "strict" : "permissive"}, {"deviation1", safe(describe(d1), 300)}, {"deviation2", safe(describe(d2), 300)},
                {"document", safe(deviate(info, {&d1, &d2}), 3000)}};
}

// ---------------------------------------------------------------- generated families (e) shapes, (f) scale, (g) cycles: see c01_gen.hpp
static void runGen(const GenFamily &f, uint64_t i, Ctx &c)
{
    GenCase g = f.make(i);
    size_t total = 0;
    for (auto &d : g.docs) total += d.text.size();
    if (g.docs[g.mainDoc].text.size() > 65536) { c.outcome("over-64KiB-not-in-domain"); return; }
    c.count("bytes", total);
    runCase(c, g.docs, g.mainDoc, g.strict, g.stages, g.why, false, g.tag.c_str(), g.mustBeClean);
}
static json showGen(const GenFamily &f, uint64_t i)
{
    GenCase g = f.make(i);
    json docs = json::object();
    for (auto &d : g.docs) docs[d.key] = safe(d.text, 2500);
    return json{{"what", g.what}, {"mode", g.strict ? "strict" : "permissive"}, {"stages", g.stageName}, {"documents", docs}};
}

int main(int argc, char **argv)
{
    xmlInitParser();
#ifdef VERIF_FLAVOUR_asan
    installOverflowReporter();
    __sanitizer_set_death_callback(emitPartialStats);
#endif
    static std::terminate_handler previousTerminate = std::set_terminate([] { emitPartialStats(); if (previousTerminate) previousTerminate(); abort(); });
    std::vector<Family> fs = {
        {"seeds", [] { return uint64_t(seeds().size() * 2); }, runSeed,
         [](uint64_t i) { auto &s = seeds()[i / 2]; return json{{"seed", s.name}, {"mode", i % 2 == 0 ? "strict" : "permissive"}, {"document", safe(s.docs[s.mainDoc].text, 3000)}}; }},
        {"dev1_mf", [] { return groupMathFree().total; }, [](uint64_t i, Ctx &c) { runDev1(groupMathFree(), i, c); }, [](uint64_t i) { return showDev1(groupMathFree(), i); }},
        {"dev1_math", [] { return groupMath().total; }, [](uint64_t i, Ctx &c) { runDev1(groupMath(), i, c); }, [](uint64_t i) { return showDev1(groupMath(), i); }},
        {"dev1_math_q", [] { return groupMathQuick().total; }, [](uint64_t i, Ctx &c) { runDev1(groupMathQuick(), i, c); }, [](uint64_t i) { return showDev1(groupMathQuick(), i); }},
        {"dev2_mf", [] { return groupPairs().total; }, runDev2, showDev2},
    };
    for (auto &gf : genFamilies()) {
        const GenFamily *p = &gf;
        fs.push_back({gf.name, [p] { return p->count(); }, [p](uint64_t i, Ctx &c) { runGen(*p, i, c); }, [p](uint64_t i) { return showGen(*p, i); }});
    }
    if (argc > 1 && std::string(argv[1]) == "devstats") { // size of the deviation alphabet per seed and family (diagnostic)
        for (size_t i = 0; i < seeds().size(); ++i) {
            const SeedInfo &si = seedInfo(i);
            std::map<char, size_t> per;
            for (auto &d : si.devs) ++per[d.fam];
            printf("%-16s elements=%zu bytes=%zu devs=%zu reduced=%zu", seeds()[i].name.c_str(), si.elems.size(), si.text.size(), si.devs.size(), si.reducedIdx.size());
            for (auto &p : per) printf(" %c=%zu", p.first, p.second);
            printf("\n");
        }
        return 0;
    }
    return harnessMain(argc, argv, fs);
}
