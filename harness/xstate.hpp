// Explicit-state explorer with the IMPLEMENTATION as the transition relation (DESIGN §2.3).
//
// A state is an operation history replayed on fresh real objects (libcellml objects cannot be copied); its key is
// World::canon(), a canonical dump of the observable state. Breadth-first search over histories, de-duplicated by key,
// runs either to a fixpoint of the reachable canonical states or to a depth bound. Transitions are executed in forked
// children (a slice of the frontier per child, up to 16 children at a time), so a crash, sanitizer abort or hang in
// one transition is recorded as that transition's outcome and the search continues after it. Every state is rebuilt
// by replay before it is expanded and its key is compared with the key recorded at discovery ("canon-on-replay").
//
// World interface:
//   static int opCount();  static std::string opName(int op);
//   World();                                   // fresh initial world (real objects + boring reference model)
//   bool enabled(int op);                      // optional pruning by the *reference* state (must be deterministic)
//   void apply(int op, std::vector<Viol> &out);// execute on the real objects, compare with the reference, append violations
//   std::string canon();                       // canonical observable state, via public getters
//   void invariant(std::vector<Viol> &out);    // state invariants
#pragma once
#include "common.hpp"
#include <signal.h>
#include <sys/mman.h>
#include <sys/wait.h>
#include <unordered_map>
#include <unordered_set>

namespace vf {

struct Viol
{
    std::string sig;
    json detail;
};


inline std::string readFileTail(const std::string &path, size_t max = 6000)
{
    FILE *f = fopen(path.c_str(), "rb");
    if (!f) return "";
    std::string s;
    char buf[4096];
    size_t n;
    while ((n = fread(buf, 1, sizeof buf, f)) > 0) s.append(buf, n);
    fclose(f);
    return s;
}
// C++ twin of sup.crash_signature (kind + first libcellml frame)
inline std::string crashSignature(const std::string &err, int status)
{
    std::string kind;
    auto grab = [&](const std::string &pre, const std::string &stop) -> std::string {
        size_t p = err.find(pre);
        if (p == std::string::npos) return "";
        p += pre.size();
        size_t e = err.find_first_of(stop, p);
        return err.substr(p, e == std::string::npos ? std::string::npos : e - p);
    };
    std::string x = grab("terminate called after throwing an instance of '", "'");
    if (!x.empty()) kind = "uncaught-exception:" + x;
    if (kind.empty()) { x = grab("ERROR: AddressSanitizer: ", " \n"); if (!x.empty()) kind = "asan:" + x; }
    if (kind.empty()) {
        x = grab("runtime error: ", "\n");
        if (!x.empty()) {
            std::string y;
            bool inq = false;
            for (size_t i = 0; i < x.size(); ++i) {
                if (x[i] == '\'') { inq = !inq; if (inq) y += 'T'; continue; }
                if (inq) continue;
                if (x[i] == '0' && i + 1 < x.size() && x[i + 1] == 'x') { y += "ADDR"; i += 2; while (i < x.size() && isxdigit((unsigned char)x[i])) ++i; --i; continue; }
                y += x[i];
            }
            kind = "ubsan:" + y.substr(0, 60);
        }
    }
    if (kind.empty()) kind = WIFSIGNALED(status) ? "signal:" + std::to_string(WTERMSIG(status)) : "exit:" + std::to_string(WEXITSTATUS(status));
    std::string frame = "?";
    size_t p = 0;
    while ((p = err.find(" in libcellml::", p)) != std::string::npos) {
        size_t b = p + 4, e = err.find_first_of("(\n", b);
        size_t eol = err.find('\n', b);
        std::string line = err.substr(b, eol == std::string::npos ? std::string::npos : eol - b);
        if (line.find("/src/") != std::string::npos && line.find("/harness/") == std::string::npos) { frame = err.substr(b, e - b); break; }
        p = b;
    }
    return "crash:" + kind + "@" + frame;
}

struct ExploreLimits
{
    int maxDepth = 64;
    uint64_t maxStates = 2000000;
    int workers = 16;
    int sliceSize = 64;
    int transitionTimeoutS = 20; // per slice budget = this * transitions in slice, min 60 s
};

template<class World>
struct Explorer
{
    using Hist = std::vector<uint16_t>;
    Ctx &ctx;
    ExploreLimits lim;
    std::string scratch;
    uint64_t states = 0, transitions = 0, crashes = 0, replayMismatch = 0;
    int depthReached = 0;
    bool fixpoint = false, capped = false;
    std::vector<uint64_t> distinctPost; // per op: number of transitions that changed the state
    std::vector<uint64_t> applied;
    std::vector<json> sampleTraces;

    Explorer(Ctx &c, ExploreLimits l) : ctx(c), lim(l)
    {
        const char *s = getenv("VERIF_SCRATCH");
        scratch = std::string(s ? s : "/verif/build/scratch") + "/xs." + std::to_string(getpid());
        std::string cmd = "mkdir -p " + scratch;
        if (system(cmd.c_str()) != 0) {}
        distinctPost.assign(World::opCount(), 0);
        applied.assign(World::opCount(), 0);
    }
    ~Explorer()
    {
        std::string cmd = "rm -rf " + scratch;
        if (system(cmd.c_str()) != 0) {}
    }
    static std::string histStr(const Hist &h)
    {
        std::string s;
        for (size_t i = 0; i < h.size(); ++i) s += (i ? "," : "") + std::to_string(h[i]);
        return s;
    }
    static json histNames(const Hist &h)
    {
        json a = json::array();
        for (auto o : h) a.push_back(World::opName(o));
        return a;
    }
    static Hist parseHist(const std::string &s)
    {
        Hist h;
        std::stringstream ss(s);
        std::string t;
        while (std::getline(ss, t, ',')) if (!t.empty()) h.push_back(uint16_t(atoi(t.c_str())));
        return h;
    }
    void report(const Hist &h, int op, const Viol &v)
    {
        Hist full = h;
        if (op >= 0) full.push_back(uint16_t(op));
        json d = v.detail;
        d["history"] = histNames(full);
        ++ctx.violations;
        json j = {{"v", 1}, {"family", ctx.family}, {"i", ctx.index}, {"sig", v.sig}, {"detail", d}, {"args", json::array({"--history=" + histStr(full)})}};
        fputs(j.dump(-1, ' ', false, json::error_handler_t::replace).c_str(), stdout);
        fputc('\n', stdout);
        fflush(stdout);
    }

    // ---- child side: expand a slice of states; results go to a file
    struct Shared
    {
        volatile int64_t stateIdx, op; // transition in progress
    };
    void childExpand(const std::vector<Hist> &slice, const std::vector<std::string> &keys, size_t from, int fromOp, const std::string &outPath, Shared *sh)
    {
        FILE *out = fopen(outPath.c_str(), "ab");
        for (size_t s = from; s < slice.size(); ++s) {
            const Hist &h = slice[s];
            int nops = World::opCount();
            for (int op = (s == from ? fromOp : 0); op < nops; ++op) {
                sh->stateIdx = int64_t(s);
                sh->op = op;
                World w;
                std::vector<Viol> sink;
                for (auto o : h) w.apply(o, sink);
                if (op == 0 || (s == from && op == fromOp)) {
                    std::string k = w.canon();
                    if (k != keys[s]) {
                        json j = {{"t", "replay-mismatch"}, {"s", s}};
                        fprintf(out, "%s\n", j.dump().c_str());
                    }
                }
                if (!w.enabled(op)) continue;
                std::vector<Viol> vs;
                w.apply(op, vs);
                w.invariant(vs);
                std::string k2 = w.canon();
                json j = {{"t", "tr"}, {"s", s}, {"op", op}, {"k", k2}};
                if (!vs.empty()) {
                    json a = json::array();
                    for (auto &v : vs) a.push_back({{"sig", v.sig}, {"detail", v.detail}});
                    j["viol"] = a;
                }
                fprintf(out, "%s\n", j.dump(-1, ' ', false, json::error_handler_t::replace).c_str());
                fflush(out);
            }
        }
        fclose(out);
    }

    struct Job
    {
        pid_t pid = -1;
        size_t sliceNo = 0;
        size_t from = 0;
        int fromOp = 0;
        Shared *sh = nullptr;
        std::string outPath, errPath;
        time_t started = 0;
    };

    void run()
    {
        std::vector<Hist> frontier;
        std::vector<std::string> frontierKeys;
        std::unordered_set<std::string> seen;
        {
            // initial state (in a child: constructing the world may itself crash)
            World w;
            std::vector<Viol> vs;
            w.invariant(vs);
            for (auto &v : vs) report({}, -1, v);
            std::string k = w.canon();
            seen.insert(k);
            frontier.push_back({});
            frontierKeys.push_back(k);
            states = 1;
        }
        for (int depth = 0; depth < lim.maxDepth && !frontier.empty(); ++depth) {
            depthReached = depth + 1;
            // slices
            std::vector<std::pair<size_t, size_t>> slices;
            for (size_t a = 0; a < frontier.size(); a += lim.sliceSize) slices.push_back({a, std::min(frontier.size(), a + lim.sliceSize)});
            std::vector<std::vector<Hist>> sliceH(slices.size());
            std::vector<std::vector<std::string>> sliceK(slices.size());
            for (size_t i = 0; i < slices.size(); ++i) {
                sliceH[i].assign(frontier.begin() + slices[i].first, frontier.begin() + slices[i].second);
                sliceK[i].assign(frontierKeys.begin() + slices[i].first, frontierKeys.begin() + slices[i].second);
            }
            std::vector<Job> running;
            size_t next = 0;
            std::vector<bool> done(slices.size(), false);
            auto launch = [&](size_t sliceNo, size_t from, int fromOp) {
                Job j;
                j.sliceNo = sliceNo;
                j.from = from;
                j.fromOp = fromOp;
                j.sh = static_cast<Shared *>(mmap(nullptr, sizeof(Shared), PROT_READ | PROT_WRITE, MAP_SHARED | MAP_ANONYMOUS, -1, 0));
                j.sh->stateIdx = -1;
                j.sh->op = -1;
                j.outPath = scratch + "/d" + std::to_string(depth) + ".s" + std::to_string(sliceNo) + ".out";
                j.errPath = scratch + "/d" + std::to_string(depth) + ".s" + std::to_string(sliceNo) + ".err";
                j.started = time(nullptr);
                fflush(stdout);
                pid_t p = fork();
                if (p == 0) {
                    int fd = open(j.errPath.c_str(), O_WRONLY | O_CREAT | O_TRUNC, 0644);
                    if (fd >= 0) { dup2(fd, 2); close(fd); }
                    int nul = open("/dev/null", O_WRONLY);
                    if (nul >= 0) { dup2(nul, 1); close(nul); }
                    childExpand(sliceH[sliceNo], sliceK[sliceNo], from, fromOp, j.outPath, j.sh);
                    _exit(0);
                }
                j.pid = p;
                running.push_back(j);
            };
            while (next < slices.size() || !running.empty()) {
                while (next < slices.size() && int(running.size()) < lim.workers) { launch(next, 0, 0); ++next; }
                int status = 0;
                pid_t p = waitpid(-1, &status, WNOHANG);
                if (p <= 0) {
                    // hang watchdog
                    time_t now = time(nullptr);
                    for (auto &j : running) {
                        long budget = std::max<long>(60, long(lim.transitionTimeoutS));
                        static std::map<pid_t, std::pair<int64_t, time_t>> last;
                        int64_t cur = j.sh->stateIdx * 100000 + j.sh->op;
                        auto &l = last[j.pid];
                        if (l.second == 0 || l.first != cur) { l.first = cur; l.second = now; }
                        else if (now - l.second > budget) kill(j.pid, SIGKILL);
                    }
                    usleep(2000);
                    continue;
                }
                auto it = std::find_if(running.begin(), running.end(), [&](const Job &j) { return j.pid == p; });
                if (it == running.end()) continue;
                Job j = *it;
                running.erase(it);
                bool ok = WIFEXITED(status) && WEXITSTATUS(status) == 0;
                if (!ok) {
                    ++crashes;
                    int64_t s = j.sh->stateIdx, op = j.sh->op;
                    std::string err = readFileTail(j.errPath);
                    std::string sig = (WIFSIGNALED(status) && WTERMSIG(status) == SIGKILL) ? std::string("hang") : crashSignature(err, status);
                    if (s >= 0 && op >= 0) {
                        report(sliceH[j.sliceNo][size_t(s)], int(op), Viol{sig, json{{"stderr_tail", safe(err.size() > 2500 ? err.substr(err.size() - 2500) : err, 2600)}}});
                        ++transitions;
                        // resume after the crashing transition
                        size_t ns = size_t(s);
                        int nop = int(op) + 1;
                        if (nop >= World::opCount()) { ++ns; nop = 0; }
                        munmap(j.sh, sizeof(Shared));
                        if (ns < sliceH[j.sliceNo].size()) { launch(j.sliceNo, ns, nop); continue; }
                    } else {
                        fprintf(stderr, "explorer: child died before its first transition\n");
                        exit(3);
                    }
                } else munmap(j.sh, sizeof(Shared));
                done[j.sliceNo] = true;
            }
            // merge in slice order (deterministic)
            std::vector<Hist> nextFrontier;
            std::vector<std::string> nextKeys;
            for (size_t i = 0; i < slices.size(); ++i) {
                std::string path = scratch + "/d" + std::to_string(depth) + ".s" + std::to_string(i) + ".out";
                FILE *f = fopen(path.c_str(), "rb");
                if (!f) continue;
                char *line = nullptr;
                size_t cap = 0;
                ssize_t n;
                while ((n = getline(&line, &cap, f)) > 0) {
                    json j = json::parse(line, line + n, nullptr, false);
                    if (j.is_discarded()) continue;
                    size_t s = j["s"].get<size_t>();
                    const Hist &h = sliceH[i][s];
                    if (j["t"] == "replay-mismatch") {
                        ++replayMismatch;
                        report(h, -1, Viol{"HARNESS:canon-on-replay-mismatch", json::object()});
                        continue;
                    }
                    int op = j["op"].get<int>();
                    ++transitions;
                    ++applied[op];
                    std::string k = j["k"].get<std::string>();
                    if (k != sliceK[i][s]) ++distinctPost[op];
                    if (j.contains("viol")) for (auto &v : j["viol"]) report(h, op, Viol{v["sig"].get<std::string>(), v["detail"]});
                    if (seen.size() < lim.maxStates) {
                        if (seen.insert(k).second) {
                            Hist h2 = h;
                            h2.push_back(uint16_t(op));
                            if (sampleTraces.size() < 3 && h2.size() >= 2) sampleTraces.push_back(histNames(h2));
                            nextFrontier.push_back(h2);
                            nextKeys.push_back(k);
                            ++states;
                        }
                    } else capped = true;
                }
                free(line);
                fclose(f);
                unlink(path.c_str());
            }
            frontier.swap(nextFrontier);
            frontierKeys.swap(nextKeys);
            if (ctx.verbose) fprintf(stderr, "depth %d: states=%llu transitions=%llu frontier=%zu\n", depth + 1, (unsigned long long)states, (unsigned long long)transitions, frontier.size());
        }
        fixpoint = frontier.empty() && !capped;
        ctx.count("states", states);
        ctx.count("transitions", transitions);
        ctx.count("crashing_transitions", crashes);
        ctx.counters["max_depth"] = std::max<uint64_t>(ctx.counters["max_depth"], depthReached);
        ctx.count(fixpoint ? "machines_to_fixpoint" : "machines_depth_bounded");
        ctx.judged += transitions;
        for (int op = 0; op < World::opCount(); ++op) {
            if (applied[op] > 0 && distinctPost[op] == 0) ctx.outcome("inert-op:" + World::opName(op));
            else if (applied[op] > 0) ctx.outcome("effective-op");
            else ctx.outcome("never-enabled-op:" + World::opName(op));
        }
    }

    // replay of one history: every step in-process inside one forked child; reports violations of the LAST step only
    void replay(const Hist &h)
    {
        std::string errPath = scratch + "/replay.err";
        fflush(stdout);
        pid_t p = fork();
        if (p == 0) {
            int fd = open(errPath.c_str(), O_WRONLY | O_CREAT | O_TRUNC, 0644);
            if (fd >= 0) { dup2(fd, 2); close(fd); }
            World w;
            std::vector<Viol> sink, vs;
            for (size_t i = 0; i + 1 < h.size(); ++i) {
                w.apply(h[i], sink);
                if (ctx.verbose) printf("# %s -> %s\n", World::opName(h[i]).c_str(), safe(w.canon(), 600).c_str());
            }
            if (!h.empty()) {
                w.apply(h.back(), vs);
                w.invariant(vs);
                if (ctx.verbose) printf("# %s -> %s\n", World::opName(h.back()).c_str(), safe(w.canon(), 600).c_str());
            } else w.invariant(vs);
            for (auto &v : vs) {
                json d = v.detail;
                d["history"] = histNames(h);
                json j = {{"v", 1}, {"family", ctx.family}, {"i", ctx.index}, {"sig", v.sig}, {"detail", d}, {"args", json::array({"--history=" + histStr(h)})}};
                printf("%s\n", j.dump(-1, ' ', false, json::error_handler_t::replace).c_str());
            }
            fflush(stdout);
            _exit(0);
        }
        int status = 0;
        waitpid(p, &status, 0);
        if (!(WIFEXITED(status) && WEXITSTATUS(status) == 0)) {
            std::string err = readFileTail(errPath);
            Hist pre(h.begin(), h.end() - (h.empty() ? 0 : 1));
            report(pre, h.empty() ? -1 : h.back(), Viol{crashSignature(err, status), json{{"stderr_tail", safe(err.size() > 2500 ? err.substr(err.size() - 2500) : err, 2600)}}});
        }
    }
};

// One machine = one family with a single case (index 0): run explores, `--history=` replays.
template<class World>
Family machineFamily(const std::string &name, ExploreLimits quick, ExploreLimits thorough)
{
    return Family{
        name, [] { return uint64_t(1); },
        [quick, thorough](uint64_t, Ctx &c) {
            const char *t = getenv("VERIF_TIER");
            ExploreLimits l = (t && std::string(t) == "thorough") ? thorough : quick;
            if (g_options.count("depth")) l.maxDepth = atoi(g_options["depth"].c_str());
            Explorer<World> ex(c, l);
            if (g_options.count("history")) { ex.replay(Explorer<World>::parseHist(g_options["history"])); return; }
            ex.run();
            json s = {{"machine", c.family}, {"states", ex.states}, {"transitions", ex.transitions}, {"depth", ex.depthReached}, {"fixpoint", ex.fixpoint}, {"sample_traces", ex.sampleTraces}};
            fprintf(stderr, "%s\n", s.dump().c_str());
        },
        [](uint64_t) {
            json ops = json::array();
            for (int i = 0; i < World::opCount(); ++i) ops.push_back(World::opName(i));
            return json{{"machine_alphabet", ops}};
        }};
}

} // namespace vf
