// C01 helper: generated families — (e) MathML shapes, (f) scale, (g) cycles. Every member has an integer index.
#pragma once
#include "c01_pipe.hpp"
#include <functional>

namespace c01 {

struct GenCase
{
    std::vector<Doc> docs;
    int mainDoc = 0;
    bool strict = true;
    unsigned stages = ST_ALL;
    std::string why, tag, what, stageName = "all";
    bool mustBeClean = false; // a valid model by construction: parser and validator must not report an error or a warning
};
struct GenFamily
{
    std::string name;
    std::function<uint64_t()> count;
    std::function<GenCase(uint64_t)> make;
};

// ================================================================= (e) MathML shapes
static const std::vector<std::vector<std::string>> &operandLists()
{
    static std::vector<std::vector<std::string>> l = {{}, {"ci"}, {"cn"}, {"ci", "ci"}, {"cn", "cn"}, {"ci", "ci", "ci"}, {"cn", "cn", "cn"}};
    return l;
}
static const std::vector<std::string> &filledForms()
{
    static std::vector<std::string> f = {
        "<bvar><ci>t</ci></bvar>", "<degree><cn cellml:units=\"dimensionless\">2</cn></degree>", "<logbase><cn cellml:units=\"dimensionless\">2</cn></logbase>",
        "<piecewise><piece><ci>x</ci><true/></piece></piecewise>", "<piece><ci>x</ci><true/></piece>", "<otherwise><ci>x</ci></otherwise>",
        "<apply><plus/><ci>x</ci><ci>x</ci></apply>", "<cn cellml:units=\"dimensionless\" type=\"e-notation\">1<sep/>2</cn>", "<ci><ci>x</ci></ci>",
        "<bvar><ci>t</ci><degree><cn cellml:units=\"dimensionless\">2</cn></degree></bvar>"};
    return f;
}
static const std::vector<std::string> &aritySensitive()
{
    static std::vector<std::string> a = {"plus", "minus", "times", "divide", "power", "root", "log", "min", "max", "rem", "diff", "not", "and", "eq"};
    return a;
}
inline std::string kids(const std::vector<std::string> &names)
{
    std::string s;
    for (auto &n : names) s += leaf(n);
    return s;
}
inline std::string rhsCtx(const std::string &shape) { return "<apply><eq/><ci>y</ci>" + shape + "</apply>"; }
inline bool unsupportedName(const std::string &n) { return n == "csymbol" || n == "lambda" || n == "semantics" || n == "unknownop" || n == "sum"; }

struct Shape
{
    std::string body, what;
    bool strict = true;
    bool unsupported = false;
};
inline GenCase shapeCase(const Shape &s, const char *tag)
{
    GenCase g;
    g.docs = {{"main.xml", mathDoc(s.body, "xyt")}};
    g.strict = s.strict;
    g.tag = tag;
    g.what = s.what;
    if (s.unsupported) g.why = "unsupported-mathml-element";
    return g;
}

// building blocks: Q1 apply(head, operands) and Q2 container(name, children), each in {top-level, rhs of an equation};
// Q3 apply(H, C) with one arbitrary first operand; Q4 apply(H, filled form, ci)
inline uint64_t nV() { return vocabulary().size(); }
static const std::vector<std::string> &structuralNames()
{ // the elements that are not operators: tokens, containers, qualifiers, constants, and the unsupported ones
    static std::vector<std::string> v = {"ci", "cn", "sep", "apply", "piecewise", "piece", "otherwise", "bvar", "logbase", "degree", "pi", "exponentiale", "notanumber", "infinity", "true", "false",
                                         "csymbol", "lambda", "semantics", "unknownop", "sum"};
    return v;
}
inline uint64_t q1Count() { return (nV() + 1) * operandLists().size() * 2; }
inline uint64_t q2Count() { return nV() * operandLists().size() * 2; }
inline uint64_t q3sCount() { return nV() * structuralNames().size(); }
inline uint64_t q3Count() { return nV() * nV(); }
inline uint64_t q4Count() { return nV() * filledForms().size(); }
inline Shape shapeQ1(uint64_t i, bool strict)
{
    Shape s;
    const auto &V = vocabulary();
    Radix r(i);
    bool rhs = r.take(2) == 1;
    auto &ops = operandLists()[r.take(operandLists().size())];
    uint64_t h = r.take(nV() + 1);
    std::string head = h < nV() ? "<" + V[h] + "/>" : "";
    std::string sh = "<apply>" + head + kids(ops) + "</apply>";
    s.body = rhs ? rhsCtx(sh) : sh;
    s.strict = strict;
    s.unsupported = h < nV() && unsupportedName(V[h]);
    s.what = std::string("Q1 apply(head=") + (h < nV() ? V[h] : "none") + ", operands=" + kids(ops) + ") " + (rhs ? "as rhs" : "top-level");
    return s;
}
inline Shape shapeQ2(uint64_t i, bool strict)
{
    Shape s;
    const auto &V = vocabulary();
    Radix r(i);
    bool rhs = r.take(2) == 1;
    auto &ops = operandLists()[r.take(operandLists().size())];
    const std::string &n = V[r.take(nV())];
    std::string sh = ops.empty() ? "<" + n + "/>" : "<" + n + (n == "cn" ? " cellml:units=\"dimensionless\"" : "") + ">" + kids(ops) + "</" + n + ">";
    s.body = rhs ? rhsCtx(sh) : sh;
    s.strict = strict;
    s.unsupported = unsupportedName(n);
    s.what = "Q2 container " + n + " with children " + kids(ops) + (rhs ? " as rhs" : " top-level");
    return s;
}
inline Shape shapeQ3(const std::string &h, const std::string &cc)
{
    Shape s;
    s.body = rhsCtx("<apply><" + h + "/>" + leaf(cc) + "</apply>");
    s.unsupported = unsupportedName(h) || unsupportedName(cc);
    s.what = "Q3 apply(" + h + ", " + cc + ")";
    return s;
}
inline Shape shapeQ4(uint64_t i)
{
    Shape s;
    const std::string &h = vocabulary()[i / filledForms().size()];
    s.body = rhsCtx("<apply><" + h + "/>" + filledForms()[i % filledForms().size()] + "<ci>x</ci></apply>");
    s.unsupported = unsupportedName(h);
    s.what = "Q4 apply(" + h + ", filled form " + filledForms()[i % filledForms().size()] + ", ci)";
    return s;
}
// quick: Q1 + Q2 (strict parser; the parser mode does not touch MathML of a 2.0 document) + Q3 with a non-operator first operand + Q4
inline Shape shapeQ(uint64_t i)
{
    if (i < q1Count()) return shapeQ1(i, true);
    i -= q1Count();
    if (i < q2Count()) return shapeQ2(i, true);
    i -= q2Count();
    if (i < q3sCount()) return shapeQ3(vocabulary()[i / structuralNames().size()], structuralNames()[i % structuralNames().size()]);
    i -= q3sCount();
    return shapeQ4(i);
}
// thorough: Q1 + Q2 with the permissive parser, the full Q3 square, T3 apply(H; k operands, one arbitrary), T4 container(N; C + j ci),
// T5 apply(H; filled-form arrangements)
static const int T5_ARR = 5;
inline uint64_t t3Count() { return nV() * nV() * 3; }
inline uint64_t t4Count() { return nV() * nV() * 2; }
inline uint64_t t5Count() { return nV() * filledForms().size() * T5_ARR; }
inline Shape shapeT(uint64_t i)
{
    Shape s;
    const auto &V = vocabulary();
    if (i < q1Count()) return shapeQ1(i, false);
    i -= q1Count();
    if (i < q2Count()) return shapeQ2(i, false);
    i -= q2Count();
    if (i < q3Count()) return shapeQ3(V[i / nV()], V[i % nV()]);
    i -= q3Count();
    if (i < t3Count()) {
        Radix r(i);
        uint64_t kp = r.take(3); // (k,p): (2,0) (2,1) (3,1); (1,0) is Q3
        static const int K[] = {2, 2, 3}, P[] = {0, 1, 1};
        const std::string &cc = V[r.take(nV())], &h = V[r.take(nV())];
        std::string ops;
        for (int j = 0; j < K[kp]; ++j) ops += j == P[kp] ? leaf(cc) : leaf("ci");
        s.body = rhsCtx("<apply><" + h + "/>" + ops + "</apply>");
        s.unsupported = unsupportedName(h) || unsupportedName(cc);
        s.what = "T3 apply(" + h + "; " + std::to_string(K[kp]) + " operands, #" + std::to_string(P[kp]) + " = " + cc + ")";
        return s;
    }
    i -= t3Count();
    if (i < t4Count()) {
        Radix r(i);
        uint64_t j = r.take(2);
        const std::string &cc = V[r.take(nV())], &n = V[r.take(nV())];
        std::string inner = leaf(cc);
        for (uint64_t q = 0; q < j; ++q) inner += leaf("ci");
        s.body = rhsCtx("<" + n + (n == "cn" ? " cellml:units=\"dimensionless\"" : "") + ">" + inner + "</" + n + ">");
        s.unsupported = unsupportedName(n) || unsupportedName(cc);
        s.what = "T4 container " + n + "(" + cc + " + " + std::to_string(j) + " ci)";
        return s;
    }
    i -= t4Count();
    {
        Radix r(i);
        uint64_t arr = r.take(T5_ARR);
        const std::string &f = filledForms()[r.take(filledForms().size())], &h = V[r.take(nV())];
        const std::string x = leaf("ci");
        std::string ops = arr == 0 ? f : arr == 1 ? x + f : arr == 2 ? f + x + x : arr == 3 ? x + f + x : f + f;
        s.body = rhsCtx("<apply><" + h + "/>" + ops + "</apply>");
        s.unsupported = unsupportedName(h);
        s.what = "T5 apply(" + h + "; " + ops + ")";
        return s;
    }
}
// depth 3 over the arity-sensitive operators
inline uint64_t d3Count() { uint64_t a = aritySensitive().size(); return a * a * 3 * 4 * 2; }
inline Shape shapeD3(uint64_t i)
{
    Radix r(i);
    bool last = r.take(2) == 1;
    uint64_t k2 = r.take(4), k1 = r.take(3);
    const std::string &h2 = aritySensitive()[r.take(aritySensitive().size())], &h1 = aritySensitive()[r.take(aritySensitive().size())];
    std::string inner = "<apply><" + h2 + "/>", outerOps;
    for (uint64_t q = 0; q < k2; ++q) inner += leaf("ci");
    inner += "</apply>";
    for (uint64_t q = 0; q < k1; ++q) outerOps += leaf("ci");
    Shape s;
    s.body = rhsCtx("<apply><" + h1 + "/>" + (last ? outerOps + inner : inner + outerOps) + "</apply>");
    s.what = "D3 apply(" + h1 + "; apply(" + h2 + "; " + std::to_string(k2) + " ci) " + (last ? "last" : "first") + " + " + std::to_string(k1) + " ci)";
    return s;
}

// ================================================================= (f) scale
static const char *SCALE_KINDS[] = {"apply-depth", "apply-siblings", "component_ref-depth", "component_ref-siblings", "units-chain", "unit-siblings", "units-diamond",
                                    "import-chain", "import-siblings", "variables", "map_variables", "equivalence-chain", "piecewise-pieces", "piecewise-depth",
                                    "units-chain-in-connection", "imported-units-chain", "blanks-in-token-x600", "blanks-between-elements-x600"};
static const size_t N_SCALE_KINDS = 18;
inline std::string head20(const std::string &name, bool xlink = false)
{
    return std::string(PROLOG "<model xmlns=\"" NS20 "\"") + (xlink ? " xmlns:xlink=\"" NSXLINK "\"" : "") + " name=\"" + name + "\">";
}
inline std::vector<Doc> scaleDocs(size_t kind, int n)
{
    std::string d;
    auto N = [](int i) { return std::to_string(i); };
    const std::string x = "<ci>x</ci>";
    switch (kind) {
    case 0: { // y = x + (x + (x + ...))
        std::string e = x;
        for (int i = 0; i < n; ++i) e = "<apply><plus/>" + x + e + "</apply>";
        return {{"main.xml", mathDoc(rhsCtx(e), "xy")}};
    }
    case 1: {
        std::string e = "<apply><plus/>";
        for (int i = 0; i < n; ++i) e += x;
        return {{"main.xml", mathDoc(rhsCtx(e + "</apply>"), "xy")}};
    }
    case 2: {
        d = head20("s");
        for (int i = 0; i <= n; ++i) d += "<component name=\"c" + N(i) + "\"/>";
        d += "<encapsulation>";
        for (int i = 0; i < n; ++i) d += "<component_ref component=\"c" + N(i) + "\">";
        d += "<component_ref component=\"c" + N(n) + "\"/>";
        for (int i = 0; i < n; ++i) d += "</component_ref>";
        return {{"main.xml", d + "</encapsulation></model>"}};
    }
    case 3: {
        d = head20("s") + "<component name=\"p\"/>";
        for (int i = 0; i < n; ++i) d += "<component name=\"c" + N(i) + "\"/>";
        d += "<encapsulation><component_ref component=\"p\">";
        for (int i = 0; i < n; ++i) d += "<component_ref component=\"c" + N(i) + "\"/>";
        return {{"main.xml", d + "</component_ref></encapsulation></model>"}};
    }
    case 4: case 14: { // u0 -> u1 -> ... -> un -> metre
        d = head20("s");
        for (int i = 0; i < n; ++i) d += "<units name=\"u" + N(i) + "\"><unit units=\"u" + N(i + 1) + "\"/></units>";
        d += "<units name=\"u" + N(n) + "\"><unit units=\"metre\"/></units>";
        if (kind == 4) return {{"main.xml", d + "<component name=\"c\"><variable name=\"v\" units=\"u0\"/></component></model>"}};
        d += "<component name=\"a\"><variable name=\"v\" units=\"u0\" interface=\"public\"/></component><component name=\"b\"><variable name=\"v\" units=\"u" + N(n / 2) + "\" interface=\"public\"/></component>";
        return {{"main.xml", d + "<connection component_1=\"a\" component_2=\"b\"><map_variables variable_1=\"v\" variable_2=\"v\"/></connection></model>"}};
    }
    case 5: {
        d = head20("s") + "<units name=\"u\">";
        for (int i = 0; i < n; ++i) d += "<unit units=\"second\"/>";
        return {{"main.xml", d + "</units><component name=\"c\"><variable name=\"v\" units=\"u\"/></component></model>"}};
    }
    case 6: { // u_i = u_{i+1} * u_{i+1}: a DAG with 2^n paths
        d = head20("s");
        for (int i = 0; i < n; ++i) d += "<units name=\"u" + N(i) + "\"><unit units=\"u" + N(i + 1) + "\"/><unit units=\"u" + N(i + 1) + "\" exponent=\"-1\"/></units>";
        d += "<units name=\"u" + N(n) + "\"><unit units=\"metre\"/></units>";
        d += "<component name=\"a\"><variable name=\"v\" units=\"u0\" interface=\"public\"/></component><component name=\"b\"><variable name=\"v\" units=\"u0\" interface=\"public\"/></component>";
        return {{"main.xml", d + "<connection component_1=\"a\" component_2=\"b\"><map_variables variable_1=\"v\" variable_2=\"v\"/></connection></model>"}};
    }
    case 7: case 15: { // main imports from l1, l1 from l2, ..., ln defines
        std::vector<Doc> docs;
        for (int i = 0; i <= n; ++i) {
            std::string key = i == 0 ? "main.xml" : "l" + N(i) + ".xml";
            std::string t = head20("m" + N(i), true);
            if (i < n) {
                t += "<import xlink:href=\"l" + N(i + 1) + ".xml\">" + (kind == 7 ? "<component name=\"c\" component_ref=\"c\"/>" : "<units name=\"w\" units_ref=\"u\"/>") + "</import>";
                if (kind == 15) t += "<units name=\"u\"><unit units=\"w\"/></units>";
                if (kind == 15 && i == 0) t += "<component name=\"k\"><variable name=\"v\" units=\"u\"/></component>";
            } else t += kind == 7 ? "<component name=\"c\"><variable name=\"v\" units=\"second\"/></component>" : "<units name=\"u\"><unit units=\"metre\"/></units>";
            docs.push_back({key, t + "</model>"});
        }
        return docs;
    }
    case 8: {
        d = head20("s", true);
        for (int i = 0; i < n; ++i) d += "<import xlink:href=\"lib.xml\"><component name=\"c" + N(i) + "\" component_ref=\"c\"/><units name=\"u" + N(i) + "\" units_ref=\"u\"/></import>";
        return {{"main.xml", d + "</model>"}, {"lib.xml", head20("lib") + "<units name=\"u\"><unit units=\"metre\"/></units><component name=\"c\"><variable name=\"v\" units=\"u\"/></component></model>"}};
    }
    case 9: {
        d = head20("s") + "<component name=\"c\">";
        for (int i = 0; i < n; ++i) d += "<variable name=\"v" + N(i) + "\" units=\"second\" initial_value=\"" + N(i) + "\"/>";
        return {{"main.xml", d + "</component></model>"}};
    }
    case 10: {
        std::string a = "<component name=\"a\">", b = "<component name=\"b\">", cc = "<connection component_1=\"a\" component_2=\"b\">";
        for (int i = 0; i < n; ++i) {
            a += "<variable name=\"v" + N(i) + "\" units=\"second\" interface=\"public\"/>";
            b += "<variable name=\"v" + N(i) + "\" units=\"second\" interface=\"public\"/>";
            cc += "<map_variables variable_1=\"v" + N(i) + "\" variable_2=\"v" + N(i) + "\"/>";
        }
        return {{"main.xml", head20("s") + a + "</component>" + b + "</component>" + cc + "</connection></model>"}};
    }
    case 11: {
        d = head20("s");
        for (int i = 0; i <= n; ++i) d += "<component name=\"c" + N(i) + "\"><variable name=\"v\" units=\"second\" interface=\"public\"/></component>";
        for (int i = 0; i < n; ++i) d += "<connection component_1=\"c" + N(i) + "\" component_2=\"c" + N(i + 1) + "\"><map_variables variable_1=\"v\" variable_2=\"v\"/></connection>";
        return {{"main.xml", d + "</model>"}};
    }
    case 12: {
        std::string e = "<piecewise>";
        for (int i = 0; i < n; ++i) e += "<piece>" + x + "<apply><gt/>" + x + "<cn cellml:units=\"dimensionless\">" + N(i) + "</cn></apply></piece>";
        return {{"main.xml", mathDoc(rhsCtx(e + "<otherwise>" + x + "</otherwise></piecewise>"), "xy")}};
    }
    case 13: {
        std::string e = x;
        for (int i = 0; i < n; ++i) e = "<piecewise><piece>" + x + "<true/></piece><otherwise>" + e + "</otherwise></piecewise>";
        return {{"main.xml", mathDoc(rhsCtx(e), "xy")}};
    }
    case 16: { // 600 n blanks inside a token (n = 100: 60 000 characters, the most a 64 KiB document can hold), a few more in the others
        std::string b(size_t(600) * n, ' '), nl(size_t(10) * n, '\n');
        return {{"main.xml", mathDoc("<apply><eq/><ci>y" + b + "</ci><apply><plus/><ci>" + nl + "x</ci><cn cellml:units=\"dimensionless\">1" + nl + "</cn></apply></apply>", "xy")}};
    }
    case 17: { // the same amount of blanks between elements, in the math and in the CellML part
        std::string b(size_t(200) * n, ' ');
        std::string m = mathDoc("<apply>" + b + "<eq/><ci>y</ci>" + b + "<ci>x</ci></apply>", "xy");
        size_t at = m.find("<component");
        m.insert(at, b);
        return {{"main.xml", m}};
    }
    }
    return {};
}
inline GenCase scaleCaseOf(size_t kind, int n, size_t st, bool strict)
{
    GenCase g;
    g.docs = scaleDocs(kind, n);
    g.strict = strict;
    g.stages = SINGLE_STAGES[st];
    g.stageName = SINGLE_STAGE_NAMES[st];
    g.tag = std::string("f:") + SCALE_KINDS[kind] + ":" + g.stageName + ":";
    g.what = std::string(SCALE_KINDS[kind]) + " n=" + std::to_string(n);
    return g;
}
// the diamond DAG has 2^n paths: its sizes are chosen so that the members of the quick family terminate
static const int SIZES_Q[] = {1, 10, 100}, DIAMOND_Q[] = {1, 8, 12};
inline GenCase scaleCase(uint64_t i)
{
    Radix r(i);
    bool strict = r.take(2) == 0;
    size_t st = r.take(N_SINGLE), sz = r.take(3), kind = r.take(N_SCALE_KINDS);
    return scaleCaseOf(kind, kind == 6 ? DIAMOND_Q[sz] : SIZES_Q[sz], st, strict);
}
inline GenCase scaleMidCase(uint64_t i)
{
    Radix r(i);
    bool strict = r.take(2) == 0;
    size_t st = r.take(N_SINGLE), kind = r.take(N_SCALE_KINDS);
    return scaleCaseOf(kind, kind == 6 ? 14 : 250, st, strict);
}
inline GenCase scaleBigCase(uint64_t i)
{
    Radix r(i);
    bool strict = r.take(2) == 0;
    size_t st = r.take(N_SINGLE), kind = r.take(N_SCALE_KINDS - 3); // imported-units-chain already fails at n = 10 in `scale`; the blanks kinds would exceed 64 KiB
    return scaleCaseOf(kind, kind == 6 ? 18 : 1000, st, strict);
}
inline GenCase scaleHangCase(uint64_t i) { return scaleCaseOf(6, 64, i, true); }

// ================================================================= (f') connection-graph scale: dense and sparse variable equivalence networks
// every node is a sibling component with the variable of integration 't' (public); an edge is a connection mapping t to t.
// c0 carries an ODE and a reset (so that the reset-order check, the analyser and both generators walk the network), the
// last component a constant 'z' outside the network (lookups that fail must still visit every variable only once).
static const char *CONN_KINDS[] = {"clique", "complete-bipartite", "chain", "star", "ring"};
static const int CONN_DENSE[] = {4, 8, 12, 16}, CONN_SPARSE[] = {10, 100};
struct ConnGraph { size_t kind; int n; };
inline const std::vector<ConnGraph> &connGraphs()
{
    static std::vector<ConnGraph> g = [] {
        std::vector<ConnGraph> r;
        for (size_t k = 0; k < 2; ++k) for (int n : CONN_DENSE) r.push_back({k, n});
        for (size_t k = 2; k < 5; ++k) for (int n : CONN_SPARSE) r.push_back({k, n});
        return r;
    }();
    return g;
}
inline std::string connDoc(size_t kind, int n)
{
    int nodes = kind == 1 ? 2 * n : n;
    std::vector<std::pair<int, int>> edges;
    switch (kind) {
    case 0: for (int i = 0; i < n; ++i) for (int j = i + 1; j < n; ++j) edges.push_back({i, j}); break;
    case 1: for (int i = 0; i < n; ++i) for (int j = 0; j < n; ++j) edges.push_back({i, n + j}); break;
    case 2: for (int i = 0; i + 1 < n; ++i) edges.push_back({i, i + 1}); break;
    case 3: for (int i = 1; i < n; ++i) edges.push_back({0, i}); break;
    default: for (int i = 0; i < n; ++i) if (n > 2 || i == 0) edges.push_back({i, (i + 1) % n}); break;
    }
    std::string d = head20("conn") + "<units name=\"per_second\"><unit units=\"second\" exponent=\"-1\"/></units>";
    for (int i = 0; i < nodes; ++i) {
        d += "<component name=\"c" + std::to_string(i) + "\"><variable name=\"t\" units=\"second\" interface=\"public\"/>";
        if (i == 0) {
            d += "<variable name=\"x\" units=\"dimensionless\" initial_value=\"0\"/><variable name=\"k\" units=\"per_second\" initial_value=\"1\"/>"
                 "<reset variable=\"x\" test_variable=\"t\" order=\"1\"><test_value>" MATHOPEN "<cn cellml:units=\"second\">1</cn></math></test_value>"
                 "<reset_value>" MATHOPEN "<cn cellml:units=\"dimensionless\">0</cn></math></reset_value></reset>"
                 MATHOPEN "<apply><eq/><apply><diff/><bvar><ci>t</ci></bvar><ci>x</ci></apply><apply><times/><ci>k</ci><ci>x</ci></apply></apply></math>";
        }
        if (i == nodes - 1) d += "<variable name=\"z\" units=\"dimensionless\" initial_value=\"3\"/>";
        d += "</component>";
    }
    for (auto &e : edges)
        d += "<connection component_1=\"c" + std::to_string(e.first) + "\" component_2=\"c" + std::to_string(e.second) + "\"><map_variables variable_1=\"t\" variable_2=\"t\"/></connection>";
    return d + "</model>";
}
inline GenCase connCase(uint64_t i)
{
    Radix r(i);
    size_t st = r.take(N_SINGLE);
    const ConnGraph &cg = connGraphs()[r.take(connGraphs().size())];
    GenCase g;
    g.docs = {{"main.xml", connDoc(cg.kind, cg.n)}};
    g.strict = true;
    g.stages = SINGLE_STAGES[st];
    g.stageName = SINGLE_STAGE_NAMES[st];
    g.tag = std::string("f:conn-") + CONN_KINDS[cg.kind] + ":" + g.stageName + ":";
    g.what = std::string("connection graph ") + CONN_KINDS[cg.kind] + " n=" + std::to_string(cg.n);
    g.mustBeClean = true;
    return g;
}

// ================================================================= (g) cycles
static const char *CYCLE_USES[] = {"unused", "variable", "connection-both-ends", "cn", "imported-units", "imported-component"};
inline std::string unitsCycle(int len, const char *prefix = "u")
{
    std::string d;
    for (int i = 0; i < len; ++i) d += std::string("<units name=\"") + prefix + std::to_string(i) + "\"><unit units=\"" + prefix + std::to_string((i + 1) % len) + "\"/><unit units=\"second\"/></units>";
    return d;
}
// kinds: 0..5 units cycle by use; 6 units import cycle; 7 component import cycle; 8 initial_value cycle; 9 encapsulation cycle; 10 equivalence cycle;
//        11 imported component whose child imports back (component import cycle through encapsulation)
static const size_t N_CYCLE_KINDS = 12;
inline std::vector<Doc> cycleDocs(size_t kind, int len, std::string &what)
{
    auto N = [](int i) { return std::to_string(i); };
    if (kind <= 5) {
        what = std::string("units cycle of length ") + N(len) + " used from: " + CYCLE_USES[kind];
        std::string cyc = unitsCycle(len);
        switch (kind) {
        case 0: return {{"main.xml", head20("g") + cyc + "<component name=\"c\"><variable name=\"v\" units=\"second\"/></component></model>"}};
        case 1: return {{"main.xml", head20("g") + cyc + "<component name=\"c\"><variable name=\"v\" units=\"u0\"/></component></model>"}};
        case 2:
            return {{"main.xml", head20("g") + cyc + "<component name=\"a\"><variable name=\"v\" units=\"u0\" interface=\"public\"/></component><component name=\"b\"><variable name=\"v\" units=\"u" + N(len - 1) +
                                     "\" interface=\"public\"/></component><connection component_1=\"a\" component_2=\"b\"><map_variables variable_1=\"v\" variable_2=\"v\"/></connection></model>"}};
        case 3:
            return {{"main.xml", head20("g") + cyc + "<component name=\"c\"><variable name=\"y\" units=\"u0\"/>" MATHOPEN "<apply><eq/><ci>y</ci><cn cellml:units=\"u0\">1</cn></apply></math></component></model>"}};
        case 4:
            return {{"main.xml", head20("g", true) + "<import xlink:href=\"lib.xml\"><units name=\"w\" units_ref=\"u0\"/></import><component name=\"c\"><variable name=\"v\" units=\"w\"/></component></model>"},
                    {"lib.xml", head20("lib") + cyc + "</model>"}};
        case 5:
            return {{"main.xml", head20("g", true) + "<import xlink:href=\"lib.xml\"><component name=\"ic\" component_ref=\"c\"/></import></model>"},
                    {"lib.xml", head20("lib") + cyc + "<component name=\"c\"><variable name=\"v\" units=\"u0\"/></component></model>"}};
        }
    }
    if (kind == 6 || kind == 7 || kind == 11) {
        what = std::string(kind == 6 ? "units" : kind == 7 ? "component" : "component-with-importing-child") + " import cycle of length " + N(len);
        std::vector<Doc> docs;
        for (int i = 0; i < len; ++i) {
            std::string key = i == 0 ? "main.xml" : "d" + N(i) + ".xml", next = (i + 1) % len == 0 ? "main.xml" : "d" + N((i + 1) % len) + ".xml";
            std::string t = head20("m" + N(i), true);
            if (kind == 6) t += "<import xlink:href=\"" + next + "\"><units name=\"u\" units_ref=\"u\"/></import><component name=\"k\"><variable name=\"v\" units=\"u\"/></component>";
            else if (kind == 7) t += "<import xlink:href=\"" + next + "\"><component name=\"c\" component_ref=\"c\"/></import>";
            else t += "<import xlink:href=\"" + next + "\"><component name=\"kid\" component_ref=\"c\"/></import><component name=\"c\"/><encapsulation><component_ref component=\"c\"><component_ref component=\"kid\"/></component_ref></encapsulation>";
            docs.push_back({key, t + "</model>"});
        }
        return docs;
    }
    if (kind == 8) {
        what = "initial_value reference cycle of length " + N(len);
        std::string d = head20("g") + "<component name=\"c\">";
        for (int i = 0; i < len; ++i) d += "<variable name=\"v" + N(i) + "\" units=\"second\" initial_value=\"v" + N((i + 1) % len) + "\"/>";
        return {{"main.xml", d + "<variable name=\"t\" units=\"second\"/>" MATHOPEN "<apply><eq/><apply><diff/><bvar><ci>t</ci></bvar><ci>v0</ci></apply><cn cellml:units=\"dimensionless\">1</cn></apply></math></component></model>"}};
    }
    if (kind == 9) {
        what = "encapsulation cycle of length " + N(len);
        std::string d = head20("g"), open, close;
        for (int i = 0; i < len; ++i) d += "<component name=\"c" + N(i) + "\"/>";
        for (int i = 0; i <= len; ++i) { open += "<component_ref component=\"c" + N(i % len) + "\">"; close += "</component_ref>"; }
        return {{"main.xml", d + "<encapsulation>" + open + close + "</encapsulation></model>"}};
    }
    what = "variable equivalence cycle of length " + N(len);
    int m = len == 1 ? 1 : len;
    std::string d = head20("g");
    for (int i = 0; i < m; ++i) d += "<component name=\"c" + N(i) + "\"><variable name=\"v\" units=\"second\" interface=\"public\"/><variable name=\"w\" units=\"second\" interface=\"public\"/></component>";
    for (int i = 0; i < len; ++i)
        d += "<connection component_1=\"c" + N(i) + "\" component_2=\"c" + N((i + 1) % m) + "\"><map_variables variable_1=\"v\" variable_2=\"" + (m == 1 ? "w" : "v") + "\"/></connection>";
    return {{"main.xml", d + "</model>"}};
}
inline GenCase cycleCase(uint64_t i)
{
    Radix r(i);
    bool strict = r.take(2) == 0;
    size_t st = r.take(N_SINGLE);
    int len = int(r.take(3)) + 1;
    size_t kind = r.take(N_CYCLE_KINDS);
    GenCase g;
    g.docs = cycleDocs(kind, len, g.what);
    g.strict = strict;
    g.stages = SINGLE_STAGES[st];
    g.stageName = SINGLE_STAGE_NAMES[st];
    g.tag = "g:k" + std::to_string(kind) + ":" + g.stageName + ":";
    if (kind <= 3 || kind == 8) g.why = kind == 8 ? "" : "units-cycle";
    return g;
}

inline const std::vector<GenFamily> &genFamilies()
{
    static std::vector<GenFamily> f = {
        {"shape_q", [] { return q1Count() + q2Count() + q3sCount() + q4Count(); }, [](uint64_t i) { return shapeCase(shapeQ(i), "e:"); }},
        {"shape_t", [] { return q1Count() + q2Count() + q3Count() + t3Count() + t4Count() + t5Count(); }, [](uint64_t i) { return shapeCase(shapeT(i), "e:"); }},
        {"shape_d3", d3Count, [](uint64_t i) { return shapeCase(shapeD3(i), "e3:"); }},
        {"scale", [] { return uint64_t(N_SCALE_KINDS * 3 * N_SINGLE * 2); }, scaleCase},
        {"conn", [] { return uint64_t(connGraphs().size() * N_SINGLE); }, connCase},
        {"scale_mid", [] { return uint64_t(N_SCALE_KINDS * N_SINGLE * 2); }, scaleMidCase},
        {"scale_big", [] { return uint64_t((N_SCALE_KINDS - 3) * N_SINGLE * 2); }, scaleBigCase},
        {"scale_hang", [] { return uint64_t(N_SINGLE); }, scaleHangCase},
        {"cycles", [] { return uint64_t(N_CYCLE_KINDS * 3 * N_SINGLE * 2); }, cycleCase},
    };
    return f;
}

} // namespace c01
