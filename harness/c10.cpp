// FLAVOURS: asan plain
// C10 — equals() is a true equivalence relation that sees every attribute.
// Per entity kind a pool P = {bases} U {all child-order permutations at every level} U {all single mutations at every depth}
// U {0/1/2/3 identical children} U {variants that differ only in what equality does NOT cover} U {null}, built through the API.
// Families: pairs:<kind> (ALL ordered pairs of P), triples:<kind> (ALL triples of P), cross (all kinds against each other),
// pairs2:<kind> (thorough: every double mutation against base and every single mutant, both directions).
// Reference: equality of an independent canonical dump (c10c11.hpp: children as sorted multisets); never calls equals().
#include "c10c11.hpp"
#include <algorithm>

using namespace vf;

static int DEPTH = 2; // --depth=: 2 (quick) or 3 (thorough: one more level of components, three children where quick has two)

// ------------------------------------------------------------------------------------------------ bases
static json unitJ(const char *ref, const char *prefix, double e, double m, const char *id) { return {{"ref", ref}, {"prefix", prefix}, {"exp", e}, {"mult", m}, {"id", id}}; }
static json baseUnits(const std::string &name, bool third = false)
{
    json u = {{"k", "units"}, {"name", name}, {"id", name + "_id"}, {"iref", ""}, {"isrc", nullptr},
              {"unit", json::array({unitJ("second", "milli", -1.0, 1.0, "ua"), unitJ("metre", "", 2.0, 1000.0, "")})}};
    if (third) u["unit"].push_back(unitJ("kilogram", "3", 0.5, 0.001, "uc"));
    return u;
}
static json importedUnits(const std::string &name)
{
    return {{"k", "units"}, {"name", name}, {"id", name + "_id"}, {"iref", "remote_units"}, {"isrc", {{"id", "is_u"}, {"url", "units_source.cellml"}}}, {"unit", json::array()}};
}
static json baseVariable(const std::string &name, bool modelContext)
{
    json u = modelContext ? json{{"k", "units"}, {"name", "u1"}, {"link", true}} : baseUnits("u1");
    return {{"k", "var"}, {"name", name}, {"id", name + "_id"}, {"iv", "1.0"}, {"iface", "public"}, {"u", u}};
}
static json simpleVariable(const std::string &name)
{
    return {{"k", "var"}, {"name", name}, {"id", ""}, {"iv", ""}, {"iface", ""}, {"u", {{"k", "units"}, {"name", "second"}}}};
}
static json baseResetInComponent(const std::string &id, int order)
{
    return {{"k", "reset"}, {"id", id}, {"oset", true}, {"order", order}, {"var", 0}, {"tvar", 1}, {"tval", MATH_A}, {"tid", id + "_t"}, {"rval", MATH_C}, {"rid", id + "_r"}};
}
static json baseResetAlone()
{
    json r = baseResetInComponent("r1", 1);
    r["var"] = baseVariable("v1", false);
    r["tvar"] = simpleVariable("v2");
    return r;
}
static json leafComponent(const std::string &name, int depthLeft)
{
    json c = {{"k", "comp"}, {"name", name}, {"id", name + "_id"}, {"eid", name + "_eid"}, {"math", MATH_B}, {"iref", ""}, {"isrc", nullptr},
              {"variables", json::array({simpleVariable("v1")})}, {"resets", json::array()}, {"components", json::array()}};
    if (depthLeft > 0) {
        c["variables"].push_back(simpleVariable("v2"));
        c["resets"].push_back(baseResetInComponent(name + "_r", 5));
        c["components"].push_back(leafComponent(name + "x", depthLeft - 1));
    }
    return c;
}
static json importedComponent(const std::string &name)
{
    return {{"k", "comp"}, {"name", name}, {"id", name + "_id"}, {"eid", ""}, {"math", ""}, {"iref", "remote_component"}, {"isrc", {{"id", "is_c"}, {"url", "component_source.cellml"}}},
            {"variables", json::array()}, {"resets", json::array()}, {"components", json::array()}};
}
static json baseComponent(const std::string &name, bool modelContext)
{
    json c = {{"k", "comp"}, {"name", name}, {"id", name + "_id"}, {"eid", name + "_eid"}, {"math", MATH_A}, {"iref", ""}, {"isrc", nullptr},
              {"variables", json::array({baseVariable("v1", modelContext), simpleVariable("v2")})},
              {"resets", json::array({baseResetInComponent("r1", 1), baseResetInComponent("r2", 2)})},
              {"components", json::array({leafComponent(name + "a", DEPTH - 2), importedComponent(name + "b")})}};
    if (DEPTH >= 3) {
        c["variables"].push_back(simpleVariable("v3"));
        c["components"].push_back(leafComponent(name + "c", 0));
    }
    return c;
}
static json baseModel()
{
    json second = {{"k", "comp"}, {"name", "d1"}, {"id", "d1_id"}, {"eid", ""}, {"math", ""}, {"iref", ""}, {"isrc", nullptr},
                   {"variables", json::array({baseVariable("v1", true)})}, {"resets", json::array()}, {"components", json::array()}};
    json m = {{"k", "model"}, {"name", "m"}, {"id", "m_id"}, {"eid", "m_eid"},
              {"units", json::array({baseUnits("u1"), importedUnits("u2")})},
              {"components", json::array({baseComponent("c1", true), second})}};
    if (DEPTH >= 3) m["units"].push_back(baseUnits("u3", true));
    return m;
}
static json baseImportSource() { return {{"k", "is"}, {"id", "is_id"}, {"url", "some.cellml"}}; }

static const std::vector<std::string> KINDS = {"model", "component", "variable", "units", "reset", "importsource"};

// the top-level child arrays of a kind (for the 0/1/2/3-identical-children members)
static std::vector<std::string> childArrays(const std::string &kind)
{
    if (kind == "model") return {"units", "components"};
    if (kind == "component") return {"variables", "resets", "components"};
    if (kind == "units") return {"unit"};
    return {};
}

struct Item
{
    std::string cls; // how the member was made (class, no indices)
    json spec;
};

static std::vector<json> basesOf(const std::string &kind)
{
    if (kind == "model") return {baseModel()};
    if (kind == "component") return {baseComponent("c1", false)};
    if (kind == "variable") return {baseVariable("v1", false)};
    if (kind == "units") return {baseUnits("u1", true), importedUnits("u2")};
    if (kind == "reset") return {baseResetAlone()};
    return {baseImportSource()};
}

static std::vector<Item> makePool(const std::string &kind)
{
    std::vector<Item> p;
    for (auto &b : basesOf(kind)) {
        p.push_back({"base", b});
        p.push_back({"base-copy", b});
        std::vector<SpecMutation> ms;
        enumerateMutations(b, json::json_pointer(), "", ms, true);
        for (auto &m : ms) p.push_back({m.what, m.spec});
        for (auto &key : childArrays(kind)) {
            if (!b.contains(key) || b[key].empty()) continue;
            for (int n = 0; n <= 3; ++n) {
                json s = b;
                json arr = json::array();
                for (int k = 0; k < n; ++k) arr.push_back(b[key][0]);
                s[key] = arr;
                if (key == "variables") remapResetRefs(s, [&](int r) -> json { return r < n ? json(r) : json(nullptr); });
                p.push_back({"identical-children-" + std::to_string(n) + "/" + key, s});
            }
        }
        // members that differ from the base only in what equality deliberately does not cover
        if (kind != "importsource" && kind != "model") {
            json s = b;
            s["parented"] = true;
            p.push_back({"not-covered:parent", s});
        }
        if (kind == "variable") {
            json s = b;
            s["eqx"] = true;
            p.push_back({"not-covered:equivalence", s});
        }
        if (kind == "reset") { // presence flag of the order is not among the covered attributes; value 0 both ways
            json s = b;
            s["oset"] = true;
            s["order"] = 0;
            p.push_back({"order-0-set", s});
            s["oset"] = false;
            p.push_back({"order-unset", s});
        }
        if (kind == "model") {
            json s = b;
            s["eqs"] = json::array({{{"a", {0, 0}}, {"b", {1, 0}}, {"mid", "map_id"}, {"cid", "con_id"}}, {{"a", {0, 1}}, {"b", {0, 0, 0}}, {"mid", ""}, {"cid", ""}}});
            p.push_back({"not-covered:equivalences", s});
            // variables own their (equal) units objects instead of sharing the model's
            json t = b;
            t["components"][0]["variables"][0]["u"] = b["units"][0];
            p.push_back({"not-covered:units-object-identity", t});
        }
    }
    // minimal entities (everything empty)
    {
        json e = {{"k", kind == "component" ? "comp" : kind == "variable" ? "var" : kind == "importsource" ? "is" : kind}};
        p.push_back({"empty-entity", e});
    }
    p.push_back({"null", nullptr});
    return p;
}

// ------------------------------------------------------------------------------------------------ built pools
struct Built
{
    std::vector<Item> items;
    std::vector<EntityPtr> obj;
    std::vector<std::string> canon;
    std::vector<CNode> tree;
    std::vector<Builder> keep;
    AliasMap *alias = nullptr; // shared-instance construction: content-equal shareable sub-objects are ONE instance across the pool
    void add(const Item &it)
    {
        keep.emplace_back();
        keep.back().alias = alias;
        EntityPtr e = keep.back().build(it.spec);
        obj.push_back(e);
        if (e) {
            CNode n = eqEntity(e);
            canon.push_back(n.str());
            tree.push_back(n);
        } else {
            canon.push_back("<null>");
            tree.emplace_back();
        }
        items.push_back(it);
    }
};
static Built &built(const std::string &kind, int copy)
{
    static std::map<std::string, Built> cache;
    std::string key = kind + "#" + std::to_string(copy);
    auto it = cache.find(key);
    if (it != cache.end()) return it->second;
    Built &b = cache[key];
    static std::map<std::string, AliasMap> registries;
    if (copy == 2) b.alias = &registries[kind];
    auto pool = makePool(kind);
    b.keep.reserve(pool.size() + 8);
    for (auto &x : pool) b.add(x);
    return b;
}
static uint64_t poolSize(const std::string &kind)
{
    static std::map<std::string, uint64_t> n;
    if (!n.count(kind)) n[kind] = makePool(kind).size();
    return n[kind];
}

// ------------------------------------------------------------------------------------------------ classifier for the sig
// explain(a, b): could a->equals(b) be true although the contents differ BECAUSE OF one of the two recorded forms?
//   (1) variables / resets of a component, units of a model: the matching loop is sized by the receiver (the object whose equals()
//       runs), so a receiver with strictly fewer children, all of them matched, is "equal" to a superset;
//   (2) child components: counts are compared, then every receiver child only has to be CONTAINED in the other side (set, not
//       multiset), and the containment test runs equals() with the OTHER side's child as receiver (direction flips per level).
// Decides whether "equals says true for different content" is of these forms and names them; the ORACLE does
// not depend on it (every mismatch is reported), it only gives each mismatch a class that a known-finding entry can match narrowly.
static bool explain(CNode &a, CNode &b, const std::string &path, std::set<std::string> &classes)
{
    if (a.str() == b.str()) return true;
    if (a.kind != b.kind || a.head != b.head) return false;
    std::set<std::string> kinds;
    for (auto &kv : a.kids) kinds.insert(kv.first);
    for (auto &kv : b.kids) kinds.insert(kv.first);
    for (auto &K : kinds) {
        auto &A = a.kids[K];
        auto &Bv = b.kids[K];
        std::multiset<std::string> rb;
        for (auto &x : Bv) rb.insert(x.str());
        std::vector<CNode *> ra; // left children without an equal partner on the right (multiset subtraction)
        for (auto &x : A) {
            auto f = rb.find(x.str());
            if (f != rb.end()) rb.erase(f); else ra.push_back(&x);
        }
        if (ra.empty() && rb.empty()) continue;
        bool sizedByLeft = (a.kind == "component" && (K == "variable" || K == "reset")) || (a.kind == "model" && K == "units");
        if (sizedByLeft) {
            if (!ra.empty()) return false; // a left child without partner: nothing explains "true"
            classes.insert(path + a.kind + ">" + K + ":receiver-strictly-fewer-every-receiver-child-matched");
        } else if (K == "component") {
            if (A.size() != Bv.size()) return false;
            // edge x~y: the two children are identical, or "equals says true" between them is itself explained by a recorded form.
            // containsComponent() runs equals() with the OTHER side's child as receiver (the direction flips at every level); the
            // unflipped direction is accepted too so that the class survives a repair of form (2) alone.
            size_t n = A.size();
            std::vector<std::vector<int>> edge(n, std::vector<int>(n, 0)); // 0 none, 1 identical, 2 explained
            std::vector<std::vector<std::set<std::string>>> why(n, std::vector<std::set<std::string>>(n));
            for (size_t x = 0; x < n; ++x) {
                for (size_t y = 0; y < n; ++y) {
                    if (A[x].str() == Bv[y].str()) { edge[x][y] = 1; continue; }
                    std::set<std::string> sub;
                    if (explain(Bv[y], A[x], path + a.kind + ">", sub) || (sub.clear(), explain(A[x], Bv[y], path + a.kind + ">", sub))) {
                        edge[x][y] = 2;
                        why[x][y] = sub;
                    }
                }
            }
            for (size_t x = 0; x < n; ++x) {
                bool any = false;
                for (size_t y = 0; y < n; ++y) any = any || edge[x][y];
                if (!any) return false; // a receiver child that nothing on the other side could be taken for
            }
            // a one-to-one pairing along such edges means the answer follows from the children's answers (their classes are
            // reported); without one, every receiver child is merely CONTAINED in the other side: set, not multiset, comparison
            std::vector<size_t> perm(n);
            for (size_t k = 0; k < n; ++k) perm[k] = k;
            bool paired = false;
            size_t bestCost = ~size_t(0);
            std::vector<size_t> best;
            do {
                size_t cost = 0;
                bool ok = true;
                for (size_t x = 0; x < n && ok; ++x) {
                    if (!edge[x][perm[x]]) ok = false;
                    else if (edge[x][perm[x]] == 2) ++cost;
                }
                if (ok && cost < bestCost) { bestCost = cost; best = perm; paired = true; }
            } while (std::next_permutation(perm.begin(), perm.end()));
            if (paired) {
                for (size_t x = 0; x < n; ++x) classes.insert(why[x][best[x]].begin(), why[x][best[x]].end());
            } else {
                classes.insert(path + a.kind + ">component:every-receiver-child-contained-but-multisets-differ");
                for (size_t x = 0; x < n; ++x) {
                    for (size_t y = 0; y < n; ++y) {
                        if (edge[x][y] == 2) { classes.insert(why[x][y].begin(), why[x][y].end()); break; }
                        if (edge[x][y] == 1) break;
                    }
                }
            }
        } else {
            return false;
        }
    }
    return true;
}
static std::string joined(const std::set<std::string> &s)
{
    std::string r;
    for (auto &x : s) r += (r.empty() ? "" : ",") + x;
    return r;
}
static std::string verb(const std::string &cls) { return cls.substr(0, cls.find('/')); }

// ------------------------------------------------------------------------------------------------ the pair oracle
static void judgePair(Ctx &c, const std::string &kind, const std::string &fam, Built &A, size_t i, Built &Bb, size_t j, bool sameObjectAllowed, bool samePool = true)
{
    auto a = A.obj[i];
    auto b = Bb.obj[j];
    if (!a) {
        c.outcome("left-null:not-callable");
        return;
    }
    ++c.judged;
    bool want = b && A.canon[i] == Bb.canon[j];
    bool got = a->equals(b);
    bool again = a->equals(b);
    if (got != again) c.violation("equals:" + kind + ":not-deterministic", {{"i", i}, {"j", j}});
    c.outcome(std::string(want ? "equal" : "different") + (got == want ? "" : "!MISMATCH") + ":" + (samePool && i == j ? "same-member" : verb(A.items[i].cls) == "base" ? "base~" + verb(Bb.items[j].cls) : verb(Bb.items[j].cls) == "base" ? verb(A.items[i].cls) + "~base" : std::string("mutant~mutant")));
    if (sameObjectAllowed && i == j) {
        ++c.judged;
        if (!a->equals(a)) c.violation("equals:" + kind + ":not-reflexive-on-the-same-object", {{"i", i}, {"left", A.items[i].cls}});
    }
    if (got == want) return;
    bool rev = b && b->equals(a);
    json detail = {{"i", i}, {"j", j}, {"left", A.items[i].cls}, {"right", Bb.items[j].cls}, {"equals(left,right)", got}, {"equals(right,left)", rev},
                   {"reference", want}, {"canon_left", safe(A.canon[i], 1500)}, {"canon_right", safe(Bb.canon[j], 1500)}};
    if (got && !want) {
        std::set<std::string> classes;
        bool ok = b && explain(A.tree[i], Bb.tree[j], "", classes) && !classes.empty();
        std::string sig = "equals:" + kind + ":true-for-different:" + (ok ? joined(classes) : std::string("unexplained"));
        if (rev) { // wrong in both directions: the reverse answer needs its own explanation
            std::set<std::string> rc;
            bool rok = explain(Bb.tree[j], A.tree[i], "", rc) && !rc.empty();
            sig += ":reverse-true:" + (rok ? joined(rc) : std::string("unexplained"));
        } else {
            sig += ":reverse-false";
        }
        c.violation(sig, detail);
    } else {
        c.violation("equals:" + kind + ":false-for-equal:" + (rev ? "reverse-true" : "reverse-false"), detail);
    }
    (void)fam;
}

static Family pairsFamily(const std::string &kind)
{
    Family f;
    f.name = "pairs:" + kind;
    f.count = [kind] { uint64_t n = poolSize(kind); return n * n; };
    f.run = [kind](uint64_t idx, Ctx &c) {
        Built &A = built(kind, 0), &Bb = built(kind, 1);
        size_t n = A.obj.size(), i = idx / n, j = idx % n;
        if (idx == 0 || c.evaluations == 1) { // harness self-check once per process: two builds of one spec give one canonical form
            for (size_t k = 0; k < n; ++k)
                if (A.canon[k] != Bb.canon[k]) c.violation("harness:two-builds-of-one-spec-differ", {{"k", k}, {"cls", A.items[k].cls}});
            std::set<std::string> distinct(A.canon.begin(), A.canon.end());
            if (idx == 0) { c.count("pool_size:" + kind, n); c.count("pool_distinct_contents:" + kind, distinct.size()); }
        }
        judgePair(c, kind, "pairs", A, i, Bb, j, false);
        // the same two members inside ONE build (i == j: the very same object)
        judgePair(c, kind, "pairs", A, i, A, j, true);
    };
    f.show = [kind](uint64_t idx) {
        auto pool = makePool(kind);
        size_t n = pool.size(), i = idx / n, j = idx % n;
        return json{{"kind", kind}, {"i", i}, {"j", j}, {"left_class", pool[i].cls}, {"right_class", pool[j].cls}, {"left_spec", pool[i].spec}, {"right_spec", pool[j].spec}};
    };
    return f;
}

// the aliasing dimension: the same pool built ONCE with an alias registry, so that any two members share every shareable
// sub-object whose content is identical (the base and a mutant that differs only NEXT TO an import source / a variable's units /
// a reset's variable hold the very same instance of it, as two children of one <import> element or API users do)
static Family pairsSharedFamily(const std::string &kind)
{
    Family f;
    f.name = "pairs-shared:" + kind;
    f.count = [kind] { uint64_t n = poolSize(kind); return n * n; };
    f.run = [kind](uint64_t idx, Ctx &c) {
        uint64_t before = g_aliasReuses;
        Built &C = built(kind, 2);
        if (g_aliasReuses != before && idx == 0) c.count("shared_instance_reuses:" + kind, g_aliasReuses - before);
        size_t n = C.obj.size(), i = idx / n, j = idx % n;
        if (idx == 0 || c.evaluations == 1) {
            Built &A = built(kind, 0);
            for (size_t k = 0; k < n; ++k)
                if (A.canon[k] != C.canon[k]) c.violation("harness:shared-instance-build-changes-content", {{"k", k}, {"cls", A.items[k].cls}});
        }
        judgePair(c, kind, "pairs-shared", C, i, C, j, true);
    };
    f.show = [kind](uint64_t idx) {
        auto pool = makePool(kind);
        size_t n = pool.size(), i = idx / n, j = idx % n;
        return json{{"kind", kind}, {"construction", "content-equal import sources / variable units / reset variables are one shared instance"}, {"i", i}, {"j", j},
                    {"left_class", pool[i].cls}, {"right_class", pool[j].cls}, {"left_spec", pool[i].spec}, {"right_spec", pool[j].spec}};
    };
    return f;
}

// ------------------------------------------------------------------------------------------------ transitivity on all triples
struct Matrix
{
    size_t n = 0;
    std::vector<int8_t> e; // -1 unknown, 0/1 result of the real call (memoised: pairs:<kind> checks that the call is deterministic)
    int8_t get(Built &U, size_t i, size_t j)
    {
        int8_t &x = e[i * n + j];
        if (x < 0) x = U.obj[i] ? (U.obj[i]->equals(U.obj[j]) ? 1 : 0) : 2; // 2: not callable
        return x;
    }
};
static Family triplesFamily(const std::string &kind)
{
    Family f;
    f.name = "triples:" + kind;
    f.count = [kind] { uint64_t n = poolSize(kind); return n * n * n; };
    f.run = [kind](uint64_t idx, Ctx &c) {
        static std::map<std::string, Matrix> mats;
        Built &U = built(kind, 0);
        size_t n = U.obj.size();
        Matrix &M = mats[kind];
        if (M.n != n) { M.n = n; M.e.assign(n * n, -1); }
        size_t i = idx / (n * n), j = (idx / n) % n, k = idx % n;
        int8_t ij = M.get(U, i, j);
        if (ij == 2) { c.outcome("left-null"); return; }
        if (ij == 0) { c.outcome("premise-false:first"); return; }
        int8_t jk = M.get(U, j, k);
        if (jk != 1) { c.outcome("premise-false:second"); return; }
        ++c.judged;
        int8_t ik = M.get(U, i, k);
        bool distinct3 = i != j && j != k && i != k;
        c.outcome(std::string("premises-hold:") + (distinct3 ? "three-distinct-members" : "with-repetition") + (ik == 1 ? "" : "!VIOLATED"));
        if (ik != 1) {
            // which of the three answers are wrong per the reference, and are the wrong premises of the recorded forms?
            bool r1 = U.canon[i] == U.canon[j], r2 = U.canon[j] == U.canon[k], r3 = U.canon[i] == U.canon[k];
            std::set<std::string> classes;
            bool ok = true;
            if (!r1) ok = explain(U.tree[i], U.tree[j], "", classes) && ok;
            if (!r2) ok = explain(U.tree[j], U.tree[k], "", classes) && ok;
            std::string sig = "transitivity:" + kind + ":";
            if (r1 && r2) sig += "premises-really-equal:conclusion-false-for-equal";
            else sig += std::string("premise-true-for-different") + (r3 ? "+conclusion-false-for-equal" : "") + ":" + (ok && !classes.empty() ? joined(classes) : std::string("unexplained"));
            c.violation(sig, {{"i", i}, {"j", j}, {"k", k}, {"a", U.items[i].cls}, {"b", U.items[j].cls}, {"c", U.items[k].cls},
                              {"reference(a,b)", r1}, {"reference(b,c)", r2}, {"reference(a,c)", r3}});
        }
    };
    f.show = [kind](uint64_t idx) {
        auto pool = makePool(kind);
        size_t n = pool.size(), i = idx / (n * n), j = (idx / n) % n, k = idx % n;
        return json{{"kind", kind}, {"i", i}, {"j", j}, {"k", k}, {"a", pool[i].cls}, {"b", pool[j].cls}, {"c", pool[k].cls}, {"a_spec", pool[i].spec}, {"b_spec", pool[j].spec}, {"c_spec", pool[k].spec}};
    };
    return f;
}

// ------------------------------------------------------------------------------------------------ cross-kind pairs
static std::vector<std::pair<std::string, Item>> crossPool()
{
    std::vector<std::pair<std::string, Item>> p;
    for (auto &k : KINDS) {
        auto pool = makePool(k);
        for (auto &it : pool)
            if (it.cls == "base" || it.cls == "empty-entity") p.push_back({k, it});
        // an entity of this kind that carries only the name/id of the model base (look-alike across kinds)
        json e = {{"k", k == "component" ? "comp" : k == "variable" ? "var" : k == "importsource" ? "is" : k}, {"name", "m"}, {"id", "m_id"}};
        p.push_back({k, {"look-alike-name-and-id", e}});
    }
    return p;
}
static Family crossFamily()
{
    Family f;
    f.name = "cross";
    f.count = [] { uint64_t n = crossPool().size(); return n * n; };
    f.run = [](uint64_t idx, Ctx &c) {
        static std::vector<std::pair<std::string, Item>> pool = crossPool();
        static Built A, Bb;
        if (A.obj.empty()) {
            A.keep.reserve(pool.size() + 1);
            Bb.keep.reserve(pool.size() + 1);
            for (auto &x : pool) { A.add(x.second); Bb.add(x.second); }
        }
        size_t n = pool.size(), i = idx / n, j = idx % n;
        ++c.judged;
        bool want = pool[i].first == pool[j].first && A.canon[i] == Bb.canon[j];
        bool got = A.obj[i]->equals(Bb.obj[j]);
        c.outcome(std::string(pool[i].first == pool[j].first ? "same-kind" : "different-kinds") + (want ? ":equal" : ":different") + (got == want ? "" : "!MISMATCH"));
        if (got != want)
            c.violation("equals:cross-kind:" + pool[i].first + "-vs-" + pool[j].first + (got ? ":true-for-different" : ":false-for-equal"),
                        {{"left", pool[i].second.cls}, {"right", pool[j].second.cls}, {"canon_left", safe(A.canon[i], 800)}, {"canon_right", safe(Bb.canon[j], 800)}});
    };
    f.show = [](uint64_t idx) {
        auto pool = crossPool();
        size_t n = pool.size(), i = idx / n, j = idx % n;
        return json{{"left_kind", pool[i].first}, {"right_kind", pool[j].first}, {"left", pool[i].second.spec}, {"right", pool[j].second.spec}};
    };
    return f;
}

// ------------------------------------------------------------------------------------------------ double mutations (thorough)
// P1 = bases + all single mutants (incl. permutations); P2 = all single mutants of all non-permutation single mutants.
// index = ((m1 * W + m2) * |P1| + i) * 2 + direction, W = upper bound of mutants per spec; holes (m2 >= count(m1)) are not judged.
struct Double
{
    std::vector<Item> p1;
    std::vector<Item> firsts; // single mutants that get a second mutation
    uint64_t W = 0;
};
static Double &doubles(const std::string &kind)
{
    static std::map<std::string, Double> cache;
    if (cache.count(kind)) return cache[kind];
    Double &d = cache[kind];
    for (auto &b : basesOf(kind)) {
        d.p1.push_back({"base", b});
        std::vector<SpecMutation> ms;
        enumerateMutations(b, json::json_pointer(), "", ms, true);
        for (auto &m : ms) {
            d.p1.push_back({m.what, m.spec});
            if (m.what.rfind("permute", 0) != 0) d.firsts.push_back({m.what, m.spec});
        }
    }
    for (auto &f : d.firsts) {
        std::vector<SpecMutation> ms;
        enumerateMutations(f.spec, json::json_pointer(), "", ms, false);
        d.W = std::max<uint64_t>(d.W, ms.size());
    }
    return d;
}
static Family pairs2Family(const std::string &kind, bool sharedInstances = false)
{
    Family f;
    f.name = (sharedInstances ? "pairs2-shared:" : "pairs2:") + kind;
    f.count = [kind] { auto &d = doubles(kind); return uint64_t(d.firsts.size()) * d.W * d.p1.size() * 2; };
    f.run = [kind, sharedInstances](uint64_t idx, Ctx &c) {
        static std::map<std::string, AliasMap> registries;
        AliasMap *reg = sharedInstances ? &registries[kind] : nullptr;
        const std::string slot = kind + (sharedInstances ? "#shared" : "");
        static std::map<std::string, Built> p1s;
        static std::map<std::string, std::pair<uint64_t, std::vector<SpecMutation>>> curFirst;
        static std::map<std::string, std::pair<uint64_t, std::shared_ptr<Built>>> curSecond;
        auto &d = doubles(kind);
        Built &P1 = p1s[slot];
        if (P1.obj.empty()) {
            P1.alias = reg;
            P1.keep.reserve(d.p1.size() + 1);
            for (auto &x : d.p1) P1.add(x);
        }
        Radix r(idx);
        bool dir = r.take(2);
        size_t i = r.take(d.p1.size());
        uint64_t m2 = r.take(d.W), m1 = r.v;
        auto &cf = curFirst[slot];
        if (cf.second.empty() || cf.first != m1) {
            cf.first = m1;
            cf.second.clear();
            enumerateMutations(d.firsts[m1].spec, json::json_pointer(), "", cf.second, false);
        }
        if (m2 >= cf.second.size()) { c.outcome("hole:no-such-second-mutation"); return; }
        auto &cs = curSecond[slot];
        uint64_t key = m1 * d.W + m2;
        if (!cs.second || cs.first != key) {
            cs.first = key;
            cs.second = std::make_shared<Built>();
            cs.second->alias = reg;
            cs.second->keep.reserve(2);
            cs.second->add({d.firsts[m1].cls + "+" + cf.second[m2].what, cf.second[m2].spec});
        }
        if (dir) judgePair(c, kind, "pairs2", P1, i, *cs.second, 0, false, false);
        else judgePair(c, kind, "pairs2", *cs.second, 0, P1, i, false, false);
    };
    f.show = [kind](uint64_t idx) {
        auto &d = doubles(kind);
        Radix r(idx);
        bool dir = r.take(2);
        size_t i = r.take(d.p1.size());
        uint64_t m2 = r.take(d.W), m1 = r.v;
        std::vector<SpecMutation> ms;
        enumerateMutations(d.firsts[m1].spec, json::json_pointer(), "", ms, false);
        json second = m2 < ms.size() ? json{{"class", d.firsts[m1].cls + "+" + ms[m2].what}, {"spec", ms[m2].spec}} : json("hole");
        return json{{"kind", kind}, {"single", {{"class", d.p1[i].cls}, {"spec", d.p1[i].spec}}}, {"double", second}, {"left_is", dir ? "single" : "double"}};
    };
    return f;
}

int main(int argc, char **argv)
{
    // --depth=N may follow any sub-command (the supervisor passes family arguments to count, show, run and replays alike)
    for (int a = 1; a < argc; ++a) if (strncmp(argv[a], "--depth=", 8) == 0) DEPTH = atoi(argv[a] + 8);
    std::vector<Family> fs;
    for (auto &k : KINDS) fs.push_back(pairsFamily(k));
    for (auto &k : KINDS) fs.push_back(triplesFamily(k));
    fs.push_back(crossFamily());
    for (auto &k : KINDS) fs.push_back(pairs2Family(k));
    for (auto &k : KINDS) fs.push_back(pairsSharedFamily(k));
    for (auto &k : KINDS) fs.push_back(pairs2Family(k, true));
    return harnessMain(argc, argv, fs);
}
