// FLAVOURS: asan plain
// C12 — operations are pure: no hidden state, no mutation of their input (DESIGN §3 C12).
//
// The hidden state under study is PROCESS-GLOBAL (libxml2's xmlKeepBlanksDefaultValue & co., the lazily decompressed
// static MathML DTD), so nothing here may leak between two histories: every history is executed in a FORKED CHILD of a
// pristine parent (the parent never calls libcellml or libxml2 - the globals are read through dlsym / the ELF symbol
// table, never through libxml2's accessor functions, which would initialise the parser), and every probe that follows
// a history runs in a forked GRANDCHILD (copy-on-write snapshot of the state after the history).
//
// Families
//   hist      index -> history h over the operation alphabet SIGMA (|h| <= C12_MAXLEN, mixed radix); the case runs h
//             on ONE world (long-lived service instances, models returned by earlier parses are the arguments of later
//             service calls, every returned object is held) and then EVERY probe p in SIGMA.
//             Oracle per (h, p):  observe(p after h) == observe(p in a fresh process, fresh instances)  whenever p's
//             arguments have the same raw content; the argument model is unchanged by the call; a second call on the
//             same instance observes the same; every object returned earlier (models, issues, AnalyserModels) dumps
//             as it did when it was returned; Analyser::model() exposes only variables of the model just analysed.
//   closure   BFS to closure over the ABSTRACT global-state tuple (every public libxml2 global + parser-initialised
//             flags + DTD-decompressed flag), ops run in fresh worlds so that the globals are the only carrier. Two
//             histories with the same tuple but different probe observations = HARNESS abstraction error.
//   selftest  binds the API-built argument models to what a fresh strict parse of the same document returns.
//
// Causal attribution of the known libxml2 blank-handling leak: every finding is re-run in a counterfactual world in
// which xmlKeepBlanksDefaultValue is put back to its fresh-process value after every library call of the history
// (what a repaired Printer would do). A finding that VANISHES there gets the suffix
// ":vanishes-when-xmlKeepBlanksDefaultValue-restored"; one that survives keeps its plain signature.
#include "common.hpp"

#include <dlfcn.h>
#include <elf.h>
#include <link.h>
#include <signal.h>
#include <sys/mman.h>
#include <sys/stat.h>
#include <sys/wait.h>

using namespace vf;

namespace {

// =================================================================== reading process-global state without touching it
struct SymFile
{
    std::string path;
    uintptr_t bias = 0;
    bool found = false;
};
struct PhdrQuery
{
    const char *needle; // nullptr = main executable
    SymFile out;
};
int phdrCb(struct dl_phdr_info *info, size_t, void *data)
{
    auto *q = static_cast<PhdrQuery *>(data);
    std::string n = info->dlpi_name ? info->dlpi_name : "";
    if (!q->needle) {
        if (!q->out.found && n.empty()) { q->out = {"/proc/self/exe", uintptr_t(info->dlpi_addr), true}; }
    } else if (n.find(q->needle) != std::string::npos && !q->out.found) {
        q->out = {n, uintptr_t(info->dlpi_addr), true};
    }
    return 0;
}
// address of a (possibly local) symbol of a loaded ELF object, looked up in the file's .symtab
uintptr_t elfSymbol(const SymFile &f, const std::function<bool(const char *)> &match)
{
    if (!f.found) return 0;
    int fd = open(f.path.c_str(), O_RDONLY);
    if (fd < 0) return 0;
    struct stat st;
    if (fstat(fd, &st) != 0) { close(fd); return 0; }
    void *mp = mmap(nullptr, size_t(st.st_size), PROT_READ, MAP_PRIVATE, fd, 0);
    close(fd);
    if (mp == MAP_FAILED) return 0;
    auto *base = static_cast<const unsigned char *>(mp);
    auto *eh = reinterpret_cast<const Elf64_Ehdr *>(base);
    uintptr_t res = 0;
    if (memcmp(eh->e_ident, ELFMAG, SELFMAG) == 0 && eh->e_ident[EI_CLASS] == ELFCLASS64 && eh->e_shoff != 0) {
        auto *sh = reinterpret_cast<const Elf64_Shdr *>(base + eh->e_shoff);
        for (int i = 0; i < eh->e_shnum && !res; ++i) {
            if (sh[i].sh_type != SHT_SYMTAB) continue;
            auto *syms = reinterpret_cast<const Elf64_Sym *>(base + sh[i].sh_offset);
            size_t n = sh[i].sh_size / sizeof(Elf64_Sym);
            const char *strs = reinterpret_cast<const char *>(base + sh[sh[i].sh_link].sh_offset);
            for (size_t k = 0; k < n; ++k) {
                if (ELF64_ST_TYPE(syms[k].st_info) != STT_OBJECT || syms[k].st_value == 0) continue;
                if (match(strs + syms[k].st_name)) { res = f.bias + syms[k].st_value; break; }
            }
        }
    }
    munmap(mp, size_t(st.st_size));
    return res;
}

struct Globals
{
    // exported data symbols of libxml2 (the main thread's globals), resolved with dlsym: reading them calls nothing
    std::vector<std::pair<std::string, int *>> ints;
    std::vector<std::pair<std::string, void **>> ptrs;  // reported as null / initial / changed
    std::vector<void *> ptrInitial;
    const char **treeIndent = nullptr;
    xmlError *lastError = nullptr;
    int *kb = nullptr;
    int kbFresh = 1;
    // not exported: found in .symtab (auxiliary: "n/a" when the library is stripped)
    std::vector<std::pair<std::string, int *>> locals;
    std::string *dtd = nullptr; // libcellml: function-local static in XmlDoc::parseMathML
    void init()
    {
        for (const char *n : {"xmlKeepBlanksDefaultValue", "xmlIndentTreeOutput", "xmlDoValidityCheckingDefaultValue", "xmlGetWarningsDefaultValue",
                              "xmlLineNumbersDefaultValue", "xmlLoadExtDtdDefaultValue", "xmlPedanticParserDefaultValue", "xmlSubstituteEntitiesDefaultValue",
                              "xmlSaveNoEmptyTags", "xmlBufferAllocScheme", "xmlDefaultBufferSize"}) {
            auto *p = static_cast<int *>(dlsym(RTLD_DEFAULT, n));
            if (p) ints.push_back({n, p});
        }
        for (const char *n : {"xmlStructuredError", "xmlStructuredErrorContext", "xmlGenericError", "xmlGenericErrorContext", "xmlRegisterNodeDefaultValue",
                              "xmlDeregisterNodeDefaultValue", "xmlParserInputBufferCreateFilenameValue", "xmlOutputBufferCreateFilenameValue", "xmlFree",
                              "xmlMalloc", "xmlRealloc", "xmlMemStrdup"}) {
            auto *p = static_cast<void **>(dlsym(RTLD_DEFAULT, n));
            if (p) { ptrs.push_back({n, p}); ptrInitial.push_back(*p); }
        }
        treeIndent = static_cast<const char **>(dlsym(RTLD_DEFAULT, "xmlTreeIndentString"));
        lastError = static_cast<xmlError *>(dlsym(RTLD_DEFAULT, "xmlLastError"));
        kb = static_cast<int *>(dlsym(RTLD_DEFAULT, "xmlKeepBlanksDefaultValue"));
        if (kb) kbFresh = *kb;
        PhdrQuery q{"libxml2.so", {}};
        dl_iterate_phdr(phdrCb, &q);
        for (const char *n : {"xmlParserInitialized", "xmlParserInnerInitialized", "parserInitialized", "xmlCatalogInitialized"}) {
            std::string want = n;
            uintptr_t a = elfSymbol(q.out, [&](const char *s) { return want == s; });
            locals.push_back({n, reinterpret_cast<int *>(a)});
        }
        PhdrQuery me{nullptr, {}};
        dl_iterate_phdr(phdrCb, &me);
        uintptr_t a = elfSymbol(me.out, [](const char *s) { return strncmp(s, "_ZZ", 3) == 0 && strstr(s, "parseMathML") && strstr(s, "mathMLDTD"); });
        dtd = reinterpret_cast<std::string *>(a);
    }
    // the abstract global-state tuple
    json tuple() const
    {
        json t = json::object();
        for (auto &p : ints) t[p.first] = *p.second;
        for (size_t i = 0; i < ptrs.size(); ++i) t[ptrs[i].first] = *ptrs[i].second == nullptr ? "null" : (*ptrs[i].second == ptrInitial[i] ? "initial" : "changed");
        if (treeIndent) t["xmlTreeIndentString"] = *treeIndent ? std::string(*treeIndent) : std::string("<null>");
        if (lastError) t["xmlLastError"] = std::to_string(lastError->domain) + "/" + std::to_string(lastError->code);
        for (auto &p : locals) t["static:" + p.first] = p.second ? json(*p.second) : json("n/a");
        t["libcellml:mathMLDTD-decompressed"] = dtd ? json(dtd->empty() ? 0 : 1) : json("n/a");
        return t;
    }
    void restoreKeepBlanks() const { if (kb) *kb = kbFresh; }
};
Globals G;

// =================================================================== documents
const char *NS2 = "http://www.cellml.org/cellml/2.0#";
const std::string MATH_WS =
    "<math xmlns=\"http://www.w3.org/1998/Math/MathML\" xmlns:cellml=\"http://www.cellml.org/cellml/2.0#\">\n"
    "      <apply><eq/>\n"
    "        <apply><diff/><bvar><ci>t</ci></bvar><ci>x</ci></apply>\n"
    "        <ci>a</ci>\n"
    "      </apply>\n"
    "      <apply><eq/>\n"
    "        <ci>y</ci>\n"
    "        <apply><plus/><ci>x</ci><cn cellml:units=\"mV\">1</cn></apply>\n"
    "      </apply>\n"
    "    </math>";
const std::string MATH_NOWS =
    "<math xmlns=\"http://www.w3.org/1998/Math/MathML\" xmlns:cellml=\"http://www.cellml.org/cellml/2.0#\">"
    "<apply><eq/><apply><diff/><bvar><ci>t</ci></bvar><ci>x</ci></apply><ci>a</ci></apply>"
    "<apply><eq/><ci>y</ci><apply><plus/><ci>x</ci><cn cellml:units=\"mV\">1</cn></apply></apply></math>";
const std::string MATH_TEST =
    "<math xmlns=\"http://www.w3.org/1998/Math/MathML\" xmlns:cellml=\"http://www.cellml.org/cellml/2.0#\">\n"
    "          <apply><gt/>\n"
    "            <ci>t</ci>\n"
    "            <cn cellml:units=\"second\">2</cn>\n"
    "          </apply>\n"
    "        </math>";
const std::string MATH_RESET =
    "<math xmlns=\"http://www.w3.org/1998/Math/MathML\" xmlns:cellml=\"http://www.cellml.org/cellml/2.0#\">\n"
    "          <cn cellml:units=\"mV\">0</cn>\n"
    "        </math>";
// every construct for which generator.cpp builds temporary AST nodes or looks at parent(): root with a degree other than 2
// (a number, and a log with a logbase), log with a logbase other than 10, power (general, square, square root), divide by a
// log-with-base, piecewise (nested), min/max with 2 and 3 operands; valid and analysable (one ODE + algebraic equations)
const std::string MATH_X =
    "<math xmlns=\"http://www.w3.org/1998/Math/MathML\" xmlns:cellml=\"http://www.cellml.org/cellml/2.0#\">\n"
    "  <apply><eq/><apply><diff/><bvar><ci>t</ci></bvar><ci>z</ci></apply><apply><plus/><ci>r1</ci><ci>l1</ci></apply></apply>\n"
    "  <apply><eq/><ci>r1</ci><apply><root/><degree><apply><log/><logbase><ci>b</ci></logbase><ci>x</ci></apply></degree><ci>y</ci></apply></apply>\n"
    "  <apply><eq/><ci>r2</ci><apply><root/><degree><cn cellml:units=\"dimensionless\">3</cn></degree><apply><plus/><ci>x</ci><ci>y</ci></apply></apply></apply>\n"
    "  <apply><eq/><ci>r3</ci><apply><root/><degree><apply><plus/><ci>b</ci><cn cellml:units=\"dimensionless\">1</cn></apply></degree><ci>x</ci></apply></apply>\n"
    "  <apply><eq/><ci>r4</ci><apply><root/><ci>x</ci></apply></apply>\n"
    "  <apply><eq/><ci>l1</ci><apply><log/><logbase><cn cellml:units=\"dimensionless\">3</cn></logbase><ci>x</ci></apply></apply>\n"
    "  <apply><eq/><ci>l2</ci><apply><divide/><ci>y</ci><apply><log/><logbase><ci>b</ci></logbase><ci>x</ci></apply></apply></apply>\n"
    "  <apply><eq/><ci>p1</ci><apply><power/><ci>x</ci><apply><log/><logbase><ci>b</ci></logbase><ci>y</ci></apply></apply></apply>\n"
    "  <apply><eq/><ci>p2</ci><apply><power/><apply><minus/><ci>x</ci><ci>b</ci></apply><cn cellml:units=\"dimensionless\">2</cn></apply></apply>\n"
    "  <apply><eq/><ci>p3</ci><apply><power/><ci>x</ci><cn cellml:units=\"dimensionless\">0.5</cn></apply></apply>\n"
    "  <apply><eq/><ci>w1</ci><piecewise><piece><ci>x</ci><apply><gt/><ci>x</ci><ci>y</ci></apply></piece>"
    "<piece><piecewise><piece><ci>b</ci><apply><lt/><ci>b</ci><ci>y</ci></apply></piece><otherwise><ci>y</ci></otherwise></piecewise><apply><eq/><ci>x</ci><ci>b</ci></apply></piece>"
    "<otherwise><apply><root/><degree><ci>b</ci></degree><ci>y</ci></apply></otherwise></piecewise></apply>\n"
    "  <apply><eq/><ci>m1</ci><apply><min/><ci>x</ci><ci>y</ci><ci>b</ci></apply></apply>\n"
    "  <apply><eq/><ci>m2</ci><apply><max/><ci>x</ci><apply><min/><ci>y</ci><ci>b</ci></apply></apply></apply>\n"
    "</math>";
const std::string MATH_INV =
    "<math xmlns=\"http://www.w3.org/1998/Math/MathML\">\n"
    "      <apply><eq/>\n"
    "        <ci>x</ci>\n"
    "        <ci>nope</ci>\n"
    "      </apply>\n"
    "      <apply><eq/>\n"
    "        <ci>x</ci>\n"
    "        <apply><plus/><ci>x</ci></apply><notmathml/>\n"
    "      </apply>\n"
    "    </math>";

// ---- the CONFLICTING TWIN of a document (variant 1): every named definition keeps its NAME but changes its MEANING -
// units are re-defined on other base units / prefixes, variables change units and initial values, ids move to other
// elements, import references point to other targets and the imported file (same url, other directory) has the twin
// content, every integer <cn> is incremented (same cellml:units NAME, now another definition), in mathx x and y swap.
std::string twinMath(const std::string &math, int v, bool swapXY = false)
{
    if (v == 0) return math;
    std::string r;
    size_t pos = 0;
    while (true) { // ">N</cn>" -> ">N+1</cn>" for integer N
        size_t e = math.find("</cn>", pos);
        if (e == std::string::npos) { r += math.substr(pos); break; }
        size_t b = e;
        while (b > pos && isdigit(static_cast<unsigned char>(math[b - 1]))) --b;
        if (b < e && b > 0 && math[b - 1] == '>') r += math.substr(pos, b - pos) + std::to_string(atoi(math.substr(b, e - b).c_str()) + 1) + "</cn>";
        else r += math.substr(pos, e + 5 - pos);
        pos = e + 5;
    }
    if (swapXY) {
        auto all = [&](const std::string &a, const std::string &b) { size_t k = 0; while ((k = r.find(a, k)) != std::string::npos) { r.replace(k, a.size(), b); k += b.size(); } };
        all("<ci>x</ci>", "<ci>#</ci>");
        all("<ci>y</ci>", "<ci>x</ci>");
        all("<ci>#</ci>", "<ci>y</ci>");
    }
    return r;
}
std::string unitsBlock(int v = 0)
{
    if (v)
        return "  <units name=\"mV\">\n    <unit prefix=\"micro\" units=\"ampere\"/>\n  </units>\n"
               "  <units name=\"mV_per_s\" id=\"u1\">\n    <unit units=\"mV\" exponent=\"2\"/>\n    <unit units=\"metre\" exponent=\"-1\"/>\n  </units>\n";
    return "  <units name=\"mV\" id=\"u1\">\n    <unit prefix=\"milli\" units=\"volt\"/>\n  </units>\n"
           "  <units name=\"mV_per_s\">\n    <unit units=\"mV\"/>\n    <unit units=\"second\" exponent=\"-1\"/>\n  </units>\n";
}
std::string varsBlock(int v = 0)
{
    if (v)
        return "    <variable name=\"t\" units=\"second\"/>\n"
               "    <variable name=\"x\" units=\"mV_per_s\" initial_value=\"5\"/>\n"
               "    <variable name=\"a\" units=\"mV\" initial_value=\"2\" id=\"vx\"/>\n"
               "    <variable name=\"y\" units=\"mV_per_s\"/>\n";
    return "    <variable name=\"t\" units=\"second\"/>\n"
           "    <variable name=\"x\" units=\"mV\" initial_value=\"0\" id=\"vx\"/>\n"
           "    <variable name=\"a\" units=\"mV_per_s\" initial_value=\"1\"/>\n"
           "    <variable name=\"y\" units=\"mV\"/>\n";
}
std::string docWs(const std::string &name, const std::string &math, int v = 0)
{
    return "<?xml version=\"1.0\" encoding=\"UTF-8\"?>\n<model xmlns=\"" + std::string(NS2) + "\" name=\"" + name + "\" id=\"" + (v ? "cid" : "mid") + "\">\n" + unitsBlock(v)
           + "  <component name=\"c\" id=\"" + (v ? "mid" : "cid") + "\">\n" + varsBlock(v) + "    " + twinMath(math, v) + "\n  </component>\n</model>\n";
}
std::string docResets(int v = 0)
{
    return "<?xml version=\"1.0\" encoding=\"UTF-8\"?>\n<model xmlns=\"" + std::string(NS2) + "\" name=\"m_resets\">\n" + unitsBlock(v)
           + "  <component name=\"c\">\n" + varsBlock(v)
           + "    <reset variable=\"x\" test_variable=\"t\" order=\"" + (v ? "2" : "1") + "\" id=\"" + (v ? "rv" : "r1") + "\">\n      <test_value>\n        " + twinMath(MATH_TEST, v)
           + "\n      </test_value>\n      <reset_value id=\"" + (v ? "r1" : "rv") + "\">\n        " + twinMath(MATH_RESET, v) + "\n      </reset_value>\n    </reset>\n    " + twinMath(MATH_WS, v)
           + "\n  </component>\n</model>\n";
}
std::string docImports(int v = 0)
{
    return "<?xml version=\"1.0\" encoding=\"UTF-8\"?>\n<model xmlns=\"" + std::string(NS2) + "\" name=\"m_imp\">\n"
           "  <import xmlns:xlink=\"http://www.w3.org/1999/xlink\" xlink:href=\"c12_lib.cellml\" id=\"imp1\">\n"
           "    <units name=\"iu\" units_ref=\"" + std::string(v ? "mV_per_s" : "mV") + "\"/>\n"
           "    <component name=\"ic\" component_ref=\"c\"/>\n"
           "  </import>\n"
           "  <component name=\"user\">\n"
           "    <variable name=\"v\" units=\"iu\" initial_value=\"" + std::string(v ? "4" : "3") + "\"/>\n"
           "  </component>\n"
           "</model>\n";
}
std::string docV11(int v = 0)
{
    if (v)
        return "<?xml version=\"1.0\" encoding=\"UTF-8\"?>\n"
               "<model xmlns=\"http://www.cellml.org/cellml/1.1#\" xmlns:cellml=\"http://www.cellml.org/cellml/1.1#\" name=\"m_v11\">\n"
               "  <component name=\"c\">\n"
               "    <variable name=\"t\" units=\"second\" public_interface=\"out\"/>\n"
               "    <variable name=\"x\" units=\"second\" initial_value=\"1\" public_interface=\"none\"/>\n"
               "    <math xmlns=\"http://www.w3.org/1998/Math/MathML\">\n"
               "      <apply><eq/>\n"
               "        <apply><diff/><bvar><ci>t</ci></bvar><ci>x</ci></apply>\n"
               "        <cn cellml:units=\"volt\">2</cn>\n"
               "      </apply>\n"
               "    </math>\n"
               "  </component>\n"
               "  <component name=\"env\">\n"
               "    <variable name=\"t\" units=\"second\" public_interface=\"in\"/>\n"
               "  </component>\n"
               "  <connection>\n"
               "    <map_components component_1=\"env\" component_2=\"c\"/>\n"
               "    <map_variables variable_1=\"t\" variable_2=\"t\"/>\n"
               "  </connection>\n"
               "</model>\n";
    return "<?xml version=\"1.0\" encoding=\"UTF-8\"?>\n"
           "<model xmlns=\"http://www.cellml.org/cellml/1.1#\" xmlns:cellml=\"http://www.cellml.org/cellml/1.1#\" name=\"m_v11\">\n"
           "  <component name=\"c\">\n"
           "    <variable name=\"t\" units=\"second\" public_interface=\"in\"/>\n"
           "    <variable name=\"x\" units=\"volt\" initial_value=\"0\" public_interface=\"out\"/>\n"
           "    <math xmlns=\"http://www.w3.org/1998/Math/MathML\">\n"
           "      <apply><eq/>\n"
           "        <apply><diff/><bvar><ci>t</ci></bvar><ci>x</ci></apply>\n"
           "        <cn cellml:units=\"volt\">1</cn>\n"
           "      </apply>\n"
           "    </math>\n"
           "  </component>\n"
           "  <component name=\"env\">\n"
           "    <variable name=\"t\" units=\"second\" public_interface=\"out\"/>\n"
           "  </component>\n"
           "  <connection>\n"
           "    <map_components component_1=\"c\" component_2=\"env\"/>\n"
           "    <map_variables variable_1=\"t\" variable_2=\"t\"/>\n"
           "  </connection>\n"
           "</model>\n";
}
std::string docInvalid()
{
    return "<?xml version=\"1.0\" encoding=\"UTF-8\"?>\n<model xmlns=\"" + std::string(NS2) + "\" name=\"m_inv\">\n"
           "  <component name=\"c\">\n"
           "    <variable name=\"x\" units=\"dimensionless\"/>\n"
           "    <variable name=\"x\" units=\"dimensionless\"/>\n"
           "    <variable name=\"nounits\"/>\n"
           "    <bogus/>\n"
           "    " + MATH_INV + "\n"
           "  </component>\n"
           "</model>\n";
}

enum Doc { D_WS, D_NOWS, D_RESETS, D_IMPORTS, D_V11, D_INVALID, ND, D_UNLINKED = ND, D_MATHX, NM }; // D_UNLINKED, D_MATHX: API-only models, no document
const char *docName(int d)
{
    static const char *N[] = {"ws", "nows", "resets", "imports", "v11", "invalid", "unlinked", "mathx"};
    return N[d];
}
const std::string &docText(int d, int v = 0)
{
    static std::vector<std::string> T[2];
    if (T[0].empty()) {
        T[0] = {docWs("m_ws", MATH_WS), docWs("m_nows", MATH_NOWS), docResets(), docImports(), docV11(), docInvalid()};
        T[1] = {docWs("m_ws", MATH_WS, 1), docWs("m_nows", MATH_NOWS, 1), docResets(1), docImports(1), docV11(1), docInvalid()};
    }
    return T[v ? 1 : 0][size_t(d)];
}

std::string libDir()
{
    const char *e = getenv("C12_LIBDIR");
    return e && *e ? std::string(e) : std::string("/verif/build/scratch/c12-lib");
}
void ensureLibraryFile(const std::string &d, const std::string &want);
void ensureLibrary()
{ // the imported file = the "ws" document; same url in <dir>/twin/ = the conflicting twin of "ws"
    ensureLibraryFile(libDir(), docText(D_WS));
    ensureLibraryFile(libDir() + "/twin", docText(D_WS, 1));
}
void ensureLibraryFile(const std::string &d, const std::string &want)
{ // written atomically, idempotent across concurrent workers
    std::string f = d + "/c12_lib.cellml";
    std::string cmd = "mkdir -p '" + d + "'";
    if (system(cmd.c_str()) != 0) {}
    std::string have;
    if (FILE *in = fopen(f.c_str(), "rb")) { char b[4096]; size_t n; while ((n = fread(b, 1, sizeof b, in)) > 0) have.append(b, n); fclose(in); }
    if (have == want) return;
    std::string tmp = f + ".tmp." + std::to_string(getpid());
    if (FILE *out = fopen(tmp.c_str(), "wb")) { fwrite(want.data(), 1, want.size(), out); fclose(out); rename(tmp.c_str(), f.c_str()); }
}

// =================================================================== API-built twins of the 2.0 documents
void addUnitsBlock(const ModelPtr &m, int tv = 0)
{
    auto mv = Units::create("mV");
    if (!tv) mv->setId("u1");
    if (tv) mv->addUnit("ampere", "micro"); else mv->addUnit("volt", "milli");
    m->addUnits(mv);
    auto r = Units::create("mV_per_s");
    if (tv) r->setId("u1");
    if (tv) { r->addUnit("mV", 2.0); r->addUnit("metre", -1.0); }
    else { r->addUnit("mV"); r->addUnit("second", -1.0); }
    m->addUnits(r);
}
void addVars(const ModelPtr &m, const ComponentPtr &c, int tv = 0)
{
    auto mk = [&](const char *n, const char *u, const char *iv, const char *id) {
        auto v = Variable::create(n);
        if (m->hasUnits(u)) v->setUnits(m->units(u)); else v->setUnits(std::string(u));
        if (*iv) v->setInitialValue(std::string(iv));
        if (*id) v->setId(id);
        c->addVariable(v);
        return v;
    };
    mk("t", "second", "", "");
    if (tv) {
        mk("x", "mV_per_s", "5", "");
        mk("a", "mV", "2", "vx");
        mk("y", "mV_per_s", "", "");
        return;
    }
    mk("x", "mV", "0", "vx");
    mk("a", "mV_per_s", "1", "");
    mk("y", "mV", "", "");
}
ModelPtr buildApi(int d, int tv = 0)
{
    switch (d) {
    case D_WS: case D_NOWS: {
        auto m = Model::create(d == D_WS ? "m_ws" : "m_nows");
        m->setId(tv ? "cid" : "mid");
        addUnitsBlock(m, tv);
        auto c = Component::create("c");
        c->setId(tv ? "mid" : "cid");
        m->addComponent(c);
        addVars(m, c, tv);
        c->setMath(twinMath(d == D_WS ? MATH_WS : MATH_NOWS, tv) + "\n");
        return m;
    }
    case D_RESETS: {
        auto m = Model::create("m_resets");
        addUnitsBlock(m, tv);
        auto c = Component::create("c");
        m->addComponent(c);
        addVars(m, c, tv);
        auto r = Reset::create();
        r->setVariable(c->variable("x"));
        r->setTestVariable(c->variable("t"));
        r->setOrder(tv ? 2 : 1);
        r->setId(tv ? "rv" : "r1");
        r->setTestValue(twinMath(MATH_TEST, tv) + "\n");
        r->setResetValue(twinMath(MATH_RESET, tv) + "\n");
        r->setResetValueId(tv ? "r1" : "rv");
        c->addReset(r);
        c->setMath(twinMath(MATH_WS, tv) + "\n");
        return m;
    }
    case D_IMPORTS: {
        auto m = Model::create("m_imp");
        auto is = ImportSource::create();
        is->setUrl("c12_lib.cellml");
        is->setId("imp1");
        auto u = Units::create("iu");
        u->setImportSource(is);
        u->setImportReference(tv ? "mV_per_s" : "mV");
        m->addUnits(u);
        auto ic = Component::create("ic");
        ic->setImportSource(is);
        ic->setImportReference("c");
        m->addComponent(ic);
        auto user = Component::create("user");
        m->addComponent(user);
        auto v = Variable::create("v");
        v->setUnits(u);
        v->setInitialValue(std::string(tv ? "4" : "3"));
        user->addVariable(v);
        return m;
    }
    case D_INVALID: {
        auto m = Model::create("m_inv");
        auto c = Component::create("c");
        m->addComponent(c);
        for (const char *n : {"x", "x", "nounits"}) {
            auto v = Variable::create(n);
            if (std::string(n) == "x") v->setUnits(std::string("dimensionless"));
            c->addVariable(v);
        }
        c->setMath(MATH_INV + "\n");
        return m;
    }
    case D_MATHX: {
        auto m = Model::create("m_mathx");
        auto c = Component::create("c");
        m->addComponent(c);
        auto mk = [&](const char *n, const char *u, const char *iv) {
            auto v = Variable::create(n);
            v->setUnits(std::string(u));
            if (*iv) v->setInitialValue(std::string(iv));
            c->addVariable(v);
        };
        mk("t", "dimensionless", "");
        mk("z", "dimensionless", "0");
        mk("x", "dimensionless", tv ? "7" : "100");
        mk("y", "dimensionless", tv ? "2" : "8");
        mk("b", "dimensionless", tv ? "5" : "3");
        for (const char *n : {"r1", "r2", "r3", "r4", "l1", "l2", "p1", "p2", "p3", "w1", "m1", "m2"}) mk(n, "dimensionless", "");
        c->setMath(twinMath(MATH_X, tv, true) + "\n");
        return m;
    }
    case D_UNLINKED: {
        // valid by name, but one variable uses a Units object that is not the model's own: Model::hasUnlinkedUnits()
        auto m = buildApi(D_WS);
        m->setName("m_unlinked");
        auto foreign = Units::create("mV");
        foreign->addUnit("volt", "milli");
        m->component(0)->variable("y")->setUnits(foreign);
        return m;
    }
    default: return nullptr;
    }
}

// =================================================================== dumps
std::string rawMath(const ComponentPtr &c, int depth = 0)
{
    std::string s = "{math " + q(c->name()) + " [" + c->math() + "]";
    for (size_t i = 0; i < c->resetCount(); ++i) s += " reset" + std::to_string(i) + " test[" + c->reset(i)->testValue() + "] value[" + c->reset(i)->resetValue() + "]";
    if (depth < 32) for (size_t i = 0; i < c->componentCount(); ++i) s += rawMath(c->component(i), depth + 1);
    return s + "}";
}
// canonical content with RAW math strings (common.hpp's canonXml drops blank text: the property says "same text")
std::string canonRaw(const ModelPtr &m)
{
    if (!m) return "<null-model>";
    CanonOpt o;
    o.math = false;
    o.sort = false;
    std::string s = canonModel(m, o);
    for (size_t i = 0; i < m->componentCount(); ++i) s += rawMath(m->component(i));
    return s;
}
std::string issueLine(const IssuePtr &is)
{
    std::string s = std::string(levelName(is->level())) + " rule=" + std::to_string(int(is->referenceRule())) + " item=";
    auto it = is->item();
    s += it ? std::to_string(int(it->type())) : std::string("<null>");
    return s + " " + is->description();
}
std::string issuesDump(const LoggerPtr &l)
{
    std::string s = "issues(" + std::to_string(l->issueCount()) + " e" + std::to_string(l->errorCount()) + " w" + std::to_string(l->warningCount()) + " m" + std::to_string(l->messageCount()) + ")\n";
    for (size_t i = 0; i < l->issueCount(); ++i) s += "  " + issueLine(l->issue(i)) + "\n";
    return s;
}
ModelPtr modelOf(const VariablePtr &v)
{
    if (!v) return nullptr;
    ParentedEntityPtr p = v->parent();
    int guard = 0;
    while (p && guard++ < 64) {
        if (auto m = std::dynamic_pointer_cast<Model>(p)) return m;
        p = p->parent();
    }
    return nullptr;
}
std::string avDump(const AnalyserVariablePtr &v)
{
    if (!v) return "<none>";
    auto iv = v->initialisingVariable();
    return AnalyserVariable::typeAsString(v->type()) + "#" + std::to_string(v->index()) + ":" + varRef(v->variable()) + (iv ? " init-by " + varRef(iv) : std::string("")) + " eqs=" + std::to_string(v->equationCount());
}
// full AST with the consistency of the structural links: for every node child->parent() == node, root parent null.
// Purely observational (getters only): Generator::equationCode is NOT used here, it is a library call under test.
std::string astDump(const AnalyserEquationAstPtr &n, const AnalyserEquationAstPtr &expectedParent, int depth = 0)
{
    if (!n) return "-";
    std::string s = "(" + AnalyserEquationAst::typeAsString(n->type());
    if (!n->value().empty()) s += " value=" + q(n->value());
    if (n->variable()) s += " var=" + varRef(n->variable());
    auto p = n->parent();
    if (p != expectedParent) s += p ? " !PARENT-IS-ANOTHER-NODE(" + AnalyserEquationAst::typeAsString(p->type()) + ")" : std::string(" !PARENT-IS-NULL");
    if (depth < 200 && (n->leftChild() || n->rightChild())) s += " " + astDump(n->leftChild(), n, depth + 1) + " " + astDump(n->rightChild(), n, depth + 1);
    return s + ")";
}
std::string amDump(const AnalyserModelPtr &am)
{
    if (!am) return "<null-analyser-model>";
    std::string s = "type=" + AnalyserModel::typeAsString(am->type()) + " valid=" + std::to_string(am->isValid()) + " ext=" + std::to_string(am->hasExternalVariables()) + "\n";
    s += " voi " + avDump(am->voi()) + "\n";
    for (size_t i = 0; i < am->stateCount(); ++i) s += " state " + avDump(am->state(i)) + "\n";
    for (size_t i = 0; i < am->variableCount(); ++i) s += " variable " + avDump(am->variable(i)) + "\n";
    for (size_t i = 0; i < am->equationCount(); ++i) {
        auto e = am->equation(i);
        s += " equation " + AnalyserEquation::typeAsString(e->type()) + " srb=" + std::to_string(e->isStateRateBased()) + " deps=" + std::to_string(e->dependencyCount()) + " nla=" + std::to_string(e->nlaSystemIndex() == SIZE_MAX ? -1 : long(e->nlaSystemIndex()))
             + " vars=" + std::to_string(e->variableCount()) + " ast=" + astDump(e->ast(), nullptr) + "\n";
    }
    s += std::string(" need:") + (am->needEqFunction() ? "eq" : "") + (am->needGtFunction() ? "gt" : "") + (am->needAndFunction() ? "and" : "") + (am->needMinFunction() ? "min" : "") + (am->needSecFunction() ? "sec" : "") + "\n";
    return s;
}
std::vector<VariablePtr> amVariables(const AnalyserModelPtr &am)
{
    std::vector<VariablePtr> r;
    if (!am) return r;
    if (am->voi()) r.push_back(am->voi()->variable());
    for (size_t i = 0; i < am->stateCount(); ++i) r.push_back(am->state(i)->variable());
    for (size_t i = 0; i < am->variableCount(); ++i) r.push_back(am->variable(i)->variable());
    return r;
}

// =================================================================== the operation alphabet
enum Kind { PARSE, PRINT, PRINT_AUTO, VALIDATE, ANALYSE, GEN_C, GEN_PY, GEN_POW, RESOLVE, FLATTEN, ANNOTATE, SCALING, ISDEFINED };
struct OpDef
{
    Kind k;
    int doc;
    bool strict;
    std::string name;
    int variant = 0; // 1 = works on the conflicting twin of the document
};
int NMAIN = 0;                 // the first NMAIN entries of the table are the main alphabet (op id == position)
std::vector<int> TWIN_ALPHABET; // base ops that have a twin + their twin variants
const std::vector<OpDef> &sigma()
{
    static std::vector<OpDef> S;
    if (S.empty()) {
        for (int st = 1; st >= 0; --st) for (int d = 0; d < ND; ++d) S.push_back({PARSE, d, st == 1, std::string(st ? "parse_strict(" : "parse_permissive(") + docName(d) + ")"});
        S.push_back({PRINT, D_WS, true, "print(ws)"});
        S.push_back({PRINT_AUTO, D_RESETS, true, "print_autoIds(resets)"});
        S.push_back({VALIDATE, D_WS, true, "validate(ws)"});
        S.push_back({VALIDATE, D_INVALID, true, "validate(invalid)"});
        S.push_back({ANALYSE, D_WS, true, "analyse(ws)"});
        S.push_back({ANALYSE, D_INVALID, true, "analyse(invalid)"});
        S.push_back({ANALYSE, D_UNLINKED, true, "analyse(unlinked)"});
        S.push_back({GEN_C, D_MATHX, true, "generateC(mathx)"});
        S.push_back({GEN_PY, D_MATHX, true, "generatePython(mathx)"});
        S.push_back({GEN_POW, D_MATHX, true, "generatePowerOperatorProfile(mathx)"});
        S.push_back({RESOLVE, D_IMPORTS, true, "resolve(imports)"});
        S.push_back({FLATTEN, D_IMPORTS, true, "flatten(imports)"});
        S.push_back({ANNOTATE, D_NOWS, true, "annotator.assignAllIds(nows)"});
        S.push_back({SCALING, D_WS, true, "Units::scalingFactor(ws)"});
        S.push_back({ISDEFINED, D_WS, true, "Component::isDefined(ws)"});
        NMAIN = int(S.size());
        // the conflicting-twin dimension: every service (and the parser) once more, on the twin of its document
        for (int i = 0; i < NMAIN; ++i) {
            OpDef o = S[size_t(i)];
            bool eligible = o.k == PARSE ? ((o.strict && (o.doc == D_WS || o.doc == D_RESETS || o.doc == D_IMPORTS)) || (!o.strict && o.doc == D_V11))
                                         : (o.doc == D_WS || o.doc == D_NOWS || o.doc == D_RESETS || o.doc == D_IMPORTS || o.doc == D_MATHX);
            if (!eligible) continue;
            TWIN_ALPHABET.push_back(i);
            o.variant = 1;
            o.name.insert(o.name.size() - 1, "~twin");
            TWIN_ALPHABET.push_back(int(S.size()));
            S.push_back(o);
        }
    }
    return S;
}
int ALPHA = 0; // 0: main alphabet, 1: twin alphabet (set by the family before anything runs)
const std::vector<int> &alphabet()
{
    static std::vector<int> mainA;
    sigma();
    if (mainA.empty()) for (int i = 0; i < NMAIN; ++i) mainA.push_back(i);
    return ALPHA ? TWIN_ALPHABET : mainA;
}
int NOPS() { return int(alphabet().size()); }
size_t posOf(int op)
{
    auto &a = alphabet();
    for (size_t i = 0; i < a.size(); ++i) if (a[i] == op) return i;
    fprintf(stderr, "c12: op %d is not in the current alphabet\n", op);
    exit(3);
}
const char *kindName(Kind k)
{
    static const char *N[] = {"parse", "print", "print_autoIds", "validate", "analyse", "generateC", "generatePython", "generatePowerOperatorProfile", "resolve", "flatten", "annotate", "scalingFactor", "isDefined"};
    return N[k];
}

json diffExcerpt(const std::string &a, const std::string &b);
struct Finding
{
    std::string sig;
    json detail;
};
struct Held
{
    std::string kind; // class of object (goes into the signature)
    std::string from; // op that returned it
    std::function<std::string()> dump;
    std::string then;
};

struct World
{
    bool parsedArgs = false; // selftest: arguments come from a strict parse instead of the API twin
    ParserPtr parserS = Parser::create(true), parserP = Parser::create(false);
    PrinterPtr printer = Printer::create();
    ValidatorPtr validator = Validator::create();
    AnalyserPtr analyser = Analyser::create();
    GeneratorPtr generator = Generator::create();
    ImporterPtr importer = Importer::create();
    ModelPtr pool[NM * 2]; // [doc * 2 + variant]
    ModelPtr twin[NM * 2];
    std::vector<Held> held;
    AnalyserPtr genAnalyser;
    ModelPtr genArg;
    std::string genArgContent;
    uint64_t loggerChecks = 0;
    std::vector<Finding> *sink = nullptr;

    void logger(const LoggerPtr &l, const char *service)
    {
        ++loggerChecks;
        if (auto x = loggerIncoherence(l)) sink->push_back({std::string("C15:logger-incoherent:") + service, {{"what", *x}}});
    }
    // the model a service call works on: returned by an earlier parse of this history, else built through the API
    ModelPtr arg(int d, int v)
    {
        int k = d * 2 + v;
        if (pool[k]) return pool[k];
        if (!twin[k]) {
            if (parsedArgs && d < ND) twin[k] = Parser::create(true)->parseModel(docText(d, v));
            else twin[k] = buildApi(d, v);
        }
        return twin[k];
    }
    // ---- query world (family "query"): a long-lived Annotator with a model and one registered external variable, so that
    // every getter of every service has a present, an absent and an out-of-range argument
    AnnotatorPtr qAnnotator;
    AnalyserExternalVariablePtr qExternal;
    void setupQueryWorld()
    {
        auto m = arg(D_WS, 0);
        qAnnotator = Annotator::create();
        qAnnotator->setModel(m);
        qExternal = AnalyserExternalVariable::create(m->component(0)->variable("a"));
        analyser->addExternalVariable(qExternal);
    }
    // documented + reachable state of the long-lived instances, through their own getters (appended to every probe
    // observation of the query family: an inert query leaves it exactly as it was). The query Annotator's issue list is the
    // documented result channel of its lookups and is not part of it.
    std::string stateDump()
    {
        std::string s = "\n== INSTANCE STATE\nimporter library=" + std::to_string(importer->libraryCount()) + " importSources=" + std::to_string(importer->importSourceCount()) + " strict=" + std::to_string(importer->isStrict()) + "\n";
        for (size_t i = 0; i < importer->libraryCount() && i < 16; ++i) s += " library[" + std::to_string(i) + "] key=" + q(importer->key(i)) + " " + (importer->library(i) ? canonRaw(importer->library(i)) : std::string("<NULL-MODEL>")) + "\n";
        s += "parserS strict=" + std::to_string(parserS->isStrict()) + " " + issuesDump(parserS) + "parserP strict=" + std::to_string(parserP->isStrict()) + " " + issuesDump(parserP);
        s += "printer " + issuesDump(printer) + "validator " + issuesDump(validator) + "analyser " + issuesDump(analyser) + "importer " + issuesDump(importer);
        s += "analyser externalVariables=" + std::to_string(analyser->externalVariableCount()) + " model: " + amDump(analyser->model());
        s += std::string("generator profile=") + (generator->profile() ? "set" : "null") + " model: " + amDump(generator->model());
        if (qAnnotator) {
            s += "annotator hasModel=" + std::to_string(qAnnotator->hasModel()) + " ids:";
            for (auto &id : qAnnotator->ids()) s += " " + id;
            s += "\n";
        }
        return s;
    }
    // the caller lets go of every model and every result it holds (the service instances stay)
    void dropAll()
    {
        for (auto &m : pool) m = nullptr;
        for (auto &m : twin) m = nullptr;
        held.clear();
        genAnalyser = nullptr;
        genArg = nullptr;
        genArgContent.clear();
    }
    void hold(const std::string &kind, const std::string &from, std::function<std::string()> f)
    {
        Held h{kind, from, f, ""};
        h.then = h.dump();
        held.push_back(h);
    }
    void holdIssues(const LoggerPtr &l, const std::string &service, const std::string &from)
    {
        std::vector<IssuePtr> v;
        for (size_t i = 0; i < l->issueCount(); ++i) v.push_back(l->issue(i));
        if (v.empty()) return;
        hold("issues-of-" + service, from, [v] { std::string s; for (auto &i : v) s += issueLine(i) + "\n"; return s; });
    }
    void checkHeld(const std::string &after, std::vector<Finding> &out)
    {
        for (auto &h : held) {
            std::string now = h.dump();
            if (now != h.then) {
                out.push_back({"held-result-changed:" + h.kind + ":after:" + after, {{"returned_by", h.from}, {"when_returned", safe(h.then, 1500)}, {"now", safe(now, 1500)}}});
                h.then = now; // report each change once
            }
        }
    }
    // argument key: what the call was given (raw content)
    std::string argsKey(int opi)
    {
        const OpDef &o = sigma()[size_t(opi)];
        if (o.k == PARSE) return std::string("text:") + docName(o.doc) + (o.variant ? "~twin" : "");
        return canonRaw(arg(o.doc, o.variant));
    }

    // executes the operation on the real objects; returns the observation
    std::string apply(int opi, std::vector<Finding> &out)
    {
        sink = &out;
        const OpDef &o = sigma()[size_t(opi)];
        std::string obs;
        ModelPtr m = o.k == PARSE ? nullptr : arg(o.doc, o.variant);
        const std::string base = libDir() + (o.variant ? "/twin/" : "/");
        std::string before = m ? canonRaw(m) : std::string();
        bool frame = true; // the statement promises an unchanged argument
        switch (o.k) {
        case PARSE: {
            auto &p = o.strict ? parserS : parserP;
            auto r = p->parseModel(docText(o.doc, o.variant));
            logger(p, "parser");
            obs = canonRaw(r) + "\n" + issuesDump(p);
            pool[o.doc * 2 + o.variant] = r;
            hold("parsed-model", o.name, [r] { return canonRaw(r); });
            holdIssues(p, "parser", o.name);
            break;
        }
        case PRINT: case PRINT_AUTO: {
            std::string t = printer->printModel(m, o.k == PRINT_AUTO);
            logger(printer, "printer");
            obs = t + "\n" + issuesDump(printer);
            holdIssues(printer, "printer", o.name);
            break;
        }
        case VALIDATE:
            validator->validateModel(m);
            logger(validator, "validator");
            obs = issuesDump(validator);
            holdIssues(validator, "validator", o.name);
            break;
        case ANALYSE: {
            analyser->analyseModel(m);
            logger(analyser, "analyser");
            auto am = analyser->model();
            obs = issuesDump(analyser) + amDump(am);
            for (auto &v : amVariables(am)) {
                if (modelOf(v) != m) {
                    out.push_back({"analyser-model-stale:model()-exposes-variables-of-another-model:after:" + o.name, {{"variable", varRef(v)}, {"analysed", m->name()}}});
                    break;
                }
            }
            hold(std::string("AnalyserModel(") + docName(o.doc) + (o.variant ? "~twin" : "") + ")", o.name, [am] { return amDump(am); });
            holdIssues(analyser, "analyser", o.name);
            break;
        }
        case GEN_C: case GEN_PY: case GEN_POW: {
            // The AnalyserModel comes from an own Analyser and is analysed ONCE per world (while the argument is the same
            // object with the same content): every generate call of a history - C, Python, power-operator profile, in any
            // order - works on the SAME held AnalyserModel, with the shared Generator. The held model is dumped (full ASTs
            // with parent links) after every later operation.
            if (genArg != m || genArgContent != before) {
                genAnalyser = Analyser::create();
                genAnalyser->analyseModel(m);
                logger(genAnalyser, "analyser");
                genArg = m;
                genArgContent = before;
                auto held = genAnalyser->model();
                hold(std::string("AnalyserModel(") + docName(o.doc) + (o.variant ? "~twin" : "") + ")-given-to-generator", o.name, [held] { return amDump(held); });
            }
            auto an = genAnalyser;
            auto am = an->model();
            auto profile = GeneratorProfile::create(o.k == GEN_PY ? GeneratorProfile::Profile::PYTHON : GeneratorProfile::Profile::C);
            if (o.k == GEN_POW) {
                profile->setHasPowerOperator(true);
                profile->setPowerString("^^");
            }
            generator->setProfile(profile);
            generator->setModel(am);
            std::string amBefore = amDump(am);
            obs = "INTERFACE\n" + generator->interfaceCode() + "\nIMPLEMENTATION\n" + generator->implementationCode() + "\nEQUATIONS\n";
            for (size_t i = 0; i < am->equationCount(); ++i) obs += Generator::equationCode(am->equation(i)->ast(), profile) + "\n";
            obs += issuesDump(an);
            std::string amAfter = amDump(am);
            if (amAfter != amBefore) out.push_back({"input-mutated:AnalyserModel:by:" + o.name, diffExcerpt(amBefore, amAfter)});
            break;
        }
        case RESOLVE: {
            frame = false; // resolving attaches models to the import sources: documented mutation
            bool ok = importer->resolveImports(m, base);
            logger(importer, "importer");
            // (the importer's library is documented state of the instance: only what THIS call attached to THIS model is observed)
            obs = std::string("resolved=") + (ok ? "1" : "0") + " unresolved=" + std::to_string(m->hasUnresolvedImports()) + "\n" + issuesDump(importer);
            for (size_t i = 0; i < m->unitsCount(); ++i) if (m->units(i)->isImport() && m->units(i)->importSource()) obs += "units-import-model " + q(m->units(i)->name()) + " " + canonRaw(m->units(i)->importSource()->model()) + "\n";
            for (size_t i = 0; i < m->componentCount(); ++i) if (m->component(i)->isImport() && m->component(i)->importSource()) obs += "component-import-model " + q(m->component(i)->name()) + " " + canonRaw(m->component(i)->importSource()->model()) + "\n";
            holdIssues(importer, "importer", o.name);
            break;
        }
        case FLATTEN: {
            bool resolvedHere = false;
            if (m->hasUnresolvedImports()) {
                importer->resolveImports(m, base);
                logger(importer, "importer");
                resolvedHere = true;
                before = canonRaw(m);
            }
            auto f = importer->flattenModel(m);
            logger(importer, "importer");
            (void)resolvedHere;
            obs = canonRaw(f) + "\n" + issuesDump(importer);
            if (f) hold("flattened-model", o.name, [f] { return canonRaw(f); });
            holdIssues(importer, "importer", o.name);
            break;
        }
        case ANNOTATE: {
            // mutates its model by contract: works on a private API-built model, with a fresh Annotator
            auto pm = buildApi(o.doc, o.variant);
            auto an = Annotator::create();
            an->setModel(pm);
            bool ok = an->assignAllIds();
            logger(an, "annotator");
            obs = std::string("ok=") + (ok ? "1" : "0") + "\n" + canonRaw(pm) + "\n" + issuesDump(an);
            m = nullptr;
            break;
        }
        case SCALING: {
            auto a = m->units("mV"), b = Units::create("kV");
            b->addUnit("volt", "kilo");
            obs = dbl(Units::scalingFactor(a, b)) + " " + dbl(Units::scalingFactor(b, a)) + " compatible=" + std::to_string(Units::compatible(a, b));
            break;
        }
        case ISDEFINED:
            obs = std::string("isDefined=") + (m->component(0)->isDefined() ? "1" : "0") + " model=" + (m->isDefined() ? "1" : "0");
            break;
        }
        if (m && frame) {
            std::string after = canonRaw(m);
            if (after != before) out.push_back({"input-mutated:" + o.name, {{"before", safe(before, 1500)}, {"after", safe(after, 1500)}}});
        }
        sink = nullptr;
        return obs;
    }
};

// =================================================================== running one history + probes in isolation
struct ProbeResult
{
    int p = -1;
    bool ran = false;
    std::string args, obs, crash;
    std::vector<Finding> findings;
    uint64_t loggerChecks = 0;
};
struct CaseResult
{
    std::vector<ProbeResult> probes; // indexed by position in the requested probe list
    json tuple;                      // abstract global state after the history (read in its own grandchild)
    std::string childCrash;
    std::string queryResults; // what the queries of the history returned
    bool queryStarted = false, queryDone = false;
};
struct RunMode
{
    bool restoreKb = false; // counterfactual: xmlKeepBlanksDefaultValue back to its fresh value after every library call
    bool stateless = false; // closure family: every op in a fresh world (globals are the only carrier)
    bool parsedArgs = false;
    bool repeat = true;     // second call on the same instance
    bool dropAfterOps = false; // twin family: after every history op the caller destroys every model and result it holds
    bool queryWorld = false;   // query family: query Annotator + external variable set up; instance state appended to every observation
};

// =================================================================== the QUERY alphabet: every getter / lookup of every
// long-lived service instance with present, absent and out-of-range arguments. A query is encoded in a history as a negative
// number: -(1+g) = the single getter g, -(1001+s) = sweep s (all getters of one group, in order).
struct Query
{
    int group;
    std::string name;
    std::function<std::string(World &)> fn;
};
const char *queryGroupName(int g)
{
    static const char *N[] = {"Importer::library(key)", "Importer:by-index-and-counts", "Logger-getters-of-every-service", "Annotator:lookups-of-known-ids", "Annotator:lookups-of-unknown-ids-wrong-kinds-out-of-range",
                              "Annotator:enumerations", "Analyser:getters-and-external-variable-lookups", "Generator:getters-and-repeated-code", "strict-flags"};
    return N[g];
}
const int NGROUPS = 9;
std::string pres(bool b) { return b ? "present" : "absent"; }
std::string loggerSweep(const LoggerPtr &l)
{
    std::string s = std::to_string(l->issueCount()) + "/" + std::to_string(l->errorCount()) + "/" + std::to_string(l->warningCount()) + "/" + std::to_string(l->messageCount());
    for (size_t i : {size_t(0), l->issueCount() ? l->issueCount() - 1 : size_t(0), l->issueCount(), size_t(9999), size_t(-1)})
        s += std::string(" ") + (l->issue(i) ? "i" : "-") + (l->error(i) ? "e" : "-") + (l->warning(i) ? "w" : "-") + (l->message(i) ? "m" : "-");
    return s;
}
const std::vector<Query> &queries()
{
    static std::vector<Query> Q;
    if (!Q.empty()) return Q;
    auto add = [&](int g, const std::string &n, std::function<std::string(World &)> f) { Q.push_back({g, n, f}); };
    // --- Importer::library(key): the keys the documents of the alphabet use (raw url, resolved path, twin path), a foreign one, the empty one
    add(0, "Importer::library(key=url-of-the-import-document)", [](World &w) { return pres(w.importer->library("c12_lib.cellml") != nullptr); });
    add(0, "Importer::library(key=resolved-path-of-the-import)", [](World &w) { return pres(w.importer->library(libDir() + "/c12_lib.cellml") != nullptr); });
    add(0, "Importer::library(key=resolved-path-of-the-twin-import)", [](World &w) { return pres(w.importer->library(libDir() + "/twin/c12_lib.cellml") != nullptr); });
    add(0, "Importer::library(key=never-imported)", [](World &w) { return pres(w.importer->library("nope.cellml") != nullptr); });
    add(0, "Importer::library(key=empty)", [](World &w) { return pres(w.importer->library("") != nullptr); });
    // --- Importer by index / counts
    add(1, "Importer::libraryCount()", [](World &w) { return std::to_string(w.importer->libraryCount()); });
    add(1, "Importer::library(index=0)", [](World &w) { return pres(w.importer->library(size_t(0)) != nullptr); });
    add(1, "Importer::library(index=count)", [](World &w) { return pres(w.importer->library(w.importer->libraryCount()) != nullptr); });
    add(1, "Importer::library(index=9999)", [](World &w) { return pres(w.importer->library(size_t(9999)) != nullptr); });
    add(1, "Importer::key(index=0)", [](World &w) { return pres(!w.importer->key(0).empty()); });
    add(1, "Importer::key(index=count)", [](World &w) { return pres(!w.importer->key(w.importer->libraryCount()).empty()); });
    add(1, "Importer::key(index=9999)", [](World &w) { return pres(!w.importer->key(9999).empty()); });
    add(1, "Importer::importSourceCount()", [](World &w) { return std::to_string(w.importer->importSourceCount()); });
    add(1, "Importer::importSource(index=0)", [](World &w) { return pres(w.importer->importSource(0) != nullptr); });
    add(1, "Importer::importSource(index=9999)", [](World &w) { return pres(w.importer->importSource(9999) != nullptr); });
    // --- Logger side of every service
    add(2, "Logger-getters(strict Parser)", [](World &w) { return loggerSweep(w.parserS); });
    add(2, "Logger-getters(permissive Parser)", [](World &w) { return loggerSweep(w.parserP); });
    add(2, "Logger-getters(Printer)", [](World &w) { return loggerSweep(w.printer); });
    add(2, "Logger-getters(Validator)", [](World &w) { return loggerSweep(w.validator); });
    add(2, "Logger-getters(Analyser)", [](World &w) { return loggerSweep(w.analyser); });
    add(2, "Logger-getters(Importer)", [](World &w) { return loggerSweep(w.importer); });
    add(2, "Logger-getters(Annotator)", [](World &w) { return loggerSweep(w.qAnnotator); });
    // --- Annotator lookups, known ids (the query Annotator holds the "ws" model: ids mid, cid, u1, vx)
    add(3, "Annotator::item(id=known)", [](World &w) { auto i = w.qAnnotator->item("vx"); return pres(i && i->variable()); });
    add(3, "Annotator::item(id=known,index=0)", [](World &w) { auto i = w.qAnnotator->item("vx", 0); return pres(i && i->variable()); });
    add(3, "Annotator::variable(id=known)", [](World &w) { return pres(w.qAnnotator->variable("vx") != nullptr); });
    add(3, "Annotator::component(id=known)", [](World &w) { return pres(w.qAnnotator->component("cid") != nullptr); });
    add(3, "Annotator::model(id=known)", [](World &w) { return pres(w.qAnnotator->model("mid") != nullptr); });
    add(3, "Annotator::units(id=known)", [](World &w) { return pres(w.qAnnotator->units("u1") != nullptr); });
    add(3, "Annotator::itemCount(id=known)", [](World &w) { return std::to_string(w.qAnnotator->itemCount("vx")); });
    add(3, "Annotator::isUnique(id=known)", [](World &w) { return std::to_string(w.qAnnotator->isUnique("vx")); });
    add(3, "Annotator::items(id=known)", [](World &w) { return std::to_string(w.qAnnotator->items("vx").size()); });
    // --- Annotator lookups, unknown ids / wrong kinds / out of range
    add(4, "Annotator::item(id=unknown)", [](World &w) { auto i = w.qAnnotator->item("nope"); return pres(i && i->type() != CellmlElementType::UNDEFINED); });
    add(4, "Annotator::item(id=known,index=out-of-range)", [](World &w) { auto i = w.qAnnotator->item("vx", 7); return pres(i && i->type() != CellmlElementType::UNDEFINED); });
    add(4, "Annotator::variable(id=of-a-component)", [](World &w) { return pres(w.qAnnotator->variable("cid") != nullptr); });
    add(4, "Annotator::component(id=of-a-variable)", [](World &w) { return pres(w.qAnnotator->component("vx") != nullptr); });
    add(4, "Annotator::model(id=unknown)", [](World &w) { return pres(w.qAnnotator->model("nope") != nullptr); });
    add(4, "Annotator::units(id=unknown)", [](World &w) { return pres(w.qAnnotator->units("nope") != nullptr); });
    add(4, "Annotator::reset(id=unknown)", [](World &w) { return pres(w.qAnnotator->reset("nope") != nullptr); });
    add(4, "Annotator::unitsItem(id=unknown)", [](World &w) { return pres(w.qAnnotator->unitsItem("nope") != nullptr); });
    add(4, "Annotator::importSource(id=unknown)", [](World &w) { return pres(w.qAnnotator->importSource("nope") != nullptr); });
    add(4, "Annotator::mapVariables(id=unknown)", [](World &w) { return pres(w.qAnnotator->mapVariables("nope") != nullptr); });
    add(4, "Annotator::connection(id=unknown)", [](World &w) { return pres(w.qAnnotator->connection("nope") != nullptr); });
    add(4, "Annotator::testValue(id=unknown)", [](World &w) { return pres(w.qAnnotator->testValue("nope") != nullptr); });
    add(4, "Annotator::resetValue(id=unknown)", [](World &w) { return pres(w.qAnnotator->resetValue("nope") != nullptr); });
    add(4, "Annotator::componentEncapsulation(id=unknown)", [](World &w) { return pres(w.qAnnotator->componentEncapsulation("nope") != nullptr); });
    add(4, "Annotator::encapsulation(id=unknown)", [](World &w) { return pres(w.qAnnotator->encapsulation("nope") != nullptr); });
    add(4, "Annotator::itemCount(id=unknown)", [](World &w) { return std::to_string(w.qAnnotator->itemCount("nope")); });
    add(4, "Annotator::isUnique(id=unknown)", [](World &w) { return std::to_string(w.qAnnotator->isUnique("nope")); });
    add(4, "Annotator::items(id=unknown)", [](World &w) { return std::to_string(w.qAnnotator->items("nope").size()); });
    // --- Annotator enumerations
    add(5, "Annotator::ids()", [](World &w) { return std::to_string(w.qAnnotator->ids().size()); });
    add(5, "Annotator::duplicateIds()", [](World &w) { return std::to_string(w.qAnnotator->duplicateIds().size()); });
    add(5, "Annotator::hasModel()", [](World &w) { return std::to_string(w.qAnnotator->hasModel()); });
    // --- Analyser
    add(6, "Analyser::model()", [](World &w) { auto m = w.analyser->model(); return m ? AnalyserModel::typeAsString(m->type()) : std::string("null"); });
    add(6, "Analyser::externalVariableCount()", [](World &w) { return std::to_string(w.analyser->externalVariableCount()); });
    add(6, "Analyser::externalVariable(index=0)", [](World &w) { return pres(w.analyser->externalVariable(0) != nullptr); });
    add(6, "Analyser::externalVariable(index=count)", [](World &w) { return pres(w.analyser->externalVariable(w.analyser->externalVariableCount()) != nullptr); });
    add(6, "Analyser::externalVariable(index=9999)", [](World &w) { return pres(w.analyser->externalVariable(9999) != nullptr); });
    add(6, "Analyser::externalVariable(model,component,variable=registered)", [](World &w) { return pres(w.analyser->externalVariable(w.arg(D_WS, 0), "c", "a") != nullptr); });
    add(6, "Analyser::externalVariable(model,component,variable=not-registered)", [](World &w) { return pres(w.analyser->externalVariable(w.arg(D_WS, 0), "c", "y") != nullptr); });
    add(6, "Analyser::externalVariable(model,component=unknown,variable)", [](World &w) { return pres(w.analyser->externalVariable(w.arg(D_WS, 0), "nope", "a") != nullptr); });
    add(6, "Analyser::externalVariable(model,component,variable=unknown)", [](World &w) { return pres(w.analyser->externalVariable(w.arg(D_WS, 0), "c", "nope") != nullptr); });
    add(6, "Analyser::containsExternalVariable(model,component,variable=registered)", [](World &w) { return std::to_string(w.analyser->containsExternalVariable(w.arg(D_WS, 0), "c", "a")); });
    add(6, "Analyser::containsExternalVariable(model,component,variable=unknown)", [](World &w) { return std::to_string(w.analyser->containsExternalVariable(w.arg(D_WS, 0), "c", "nope")); });
    add(6, "Analyser::containsExternalVariable(object=registered)", [](World &w) { return std::to_string(w.analyser->containsExternalVariable(w.qExternal)); });
    add(6, "Analyser::containsExternalVariable(object=not-registered)", [](World &w) { return std::to_string(w.analyser->containsExternalVariable(AnalyserExternalVariable::create(w.arg(D_WS, 0)->component(0)->variable("y")))); });
    // --- Generator
    add(7, "Generator::profile()", [](World &w) { return pres(w.generator->profile() != nullptr); });
    add(7, "Generator::model()", [](World &w) { return pres(w.generator->model() != nullptr); });
    add(7, "Generator::interfaceCode()-twice", [](World &w) { auto a = w.generator->interfaceCode(), b = w.generator->interfaceCode(); return std::string(a == b ? "same" : "DIFFERENT") + ":" + std::to_string(a.size()); });
    add(7, "Generator::implementationCode()-twice", [](World &w) { auto a = w.generator->implementationCode(), b = w.generator->implementationCode(); return std::string(a == b ? "same" : "DIFFERENT") + ":" + std::to_string(a.size()); });
    // --- strict flags
    add(8, "Parser::isStrict()(strict)", [](World &w) { return std::to_string(w.parserS->isStrict()); });
    add(8, "Parser::isStrict()(permissive)", [](World &w) { return std::to_string(w.parserP->isStrict()); });
    add(8, "Importer::isStrict()", [](World &w) { return std::to_string(w.importer->isStrict()); });
    return Q;
}
std::string stepName(int op);
std::string runQueryStep(World &w, int code)
{
    std::string r;
    auto &Q = queries();
    if (code == -2001) { for (auto &qq : Q) r += qq.name + " -> " + qq.fn(w) + "\n"; }
    else if (code <= -1001) { int g = -code - 1001; for (auto &qq : Q) if (qq.group == g) r += qq.name + " -> " + qq.fn(w) + "\n"; }
    else { auto &qq = Q[size_t(-code - 1)]; r = qq.name + " -> " + qq.fn(w) + "\n"; }
    return r;
}

void writeAll(int fd, const std::string &s)
{
    size_t off = 0;
    while (off < s.size()) {
        ssize_t n = write(fd, s.data() + off, s.size() - off);
        if (n <= 0) { if (errno == EINTR) continue; _exit(4); }
        off += size_t(n);
    }
}
void emit(int fd, const json &j) { writeAll(fd, j.dump(-1, ' ', false, json::error_handler_t::replace) + "\n"); }

void probeBody(World &w, int p, const RunMode &mode, int fd)
{
    std::vector<Finding> fs;
    std::string args = w.argsKey(p);
    std::string o1 = w.apply(p, fs);
    if (mode.queryWorld) o1 += w.stateDump();
    if (mode.restoreKb) G.restoreKeepBlanks();
    if (mode.repeat) {
        std::string o2 = w.apply(p, fs);
        if (mode.restoreKb) G.restoreKeepBlanks();
        if (o2 != o1) fs.push_back({"repeat-differs:second-call-on-same-instance:" + sigma()[size_t(p)].name, {{"first", safe(o1, 1500)}, {"second", safe(o2, 1500)}}});
    }
    w.checkHeld(sigma()[size_t(p)].name, fs);
    json a = json::array();
    std::set<std::string> seen;
    for (auto &f : fs) if (seen.insert(f.sig).second) a.push_back({{"sig", f.sig}, {"detail", f.detail}});
    emit(fd, {{"t", "probe"}, {"p", p}, {"args", args}, {"obs", o1}, {"findings", a}, {"lc", w.loggerChecks}});
}

struct Running
{
    pid_t pid = -1;
    int fd = -1;
    std::vector<int> probes;
};
Running startCase(const std::vector<int> &hist, const std::vector<int> &probes, const RunMode &mode)
{
    int pfd[2];
    if (pipe(pfd) != 0) { perror("pipe"); exit(3); }
    fflush(stdout);
    fflush(stderr);
    pid_t c = fork();
    if (c < 0) { perror("fork"); exit(3); }
    if (c == 0) {
        close(pfd[0]);
        int fd = pfd[1];
        alarm(600);
        std::unique_ptr<World> w;
        if (!mode.stateless) { w.reset(new World); w->parsedArgs = mode.parsedArgs; if (mode.queryWorld) w->setupQueryWorld(); }
        std::vector<Finding> sinkF;
        for (int op : hist) {
            if (op < 0) { emit(fd, {{"t", "query-starts"}, {"q", op}}); emit(fd, {{"t", "query"}, {"q", op}, {"result", runQueryStep(*w, op)}}); continue; }
            if (mode.stateless) { World t; t.apply(op, sinkF); }
            else { w->apply(op, sinkF); w->checkHeld(sigma()[size_t(op)].name, sinkF); if (mode.dropAfterOps) w->dropAll(); }
            if (mode.restoreKb) G.restoreKeepBlanks();
        }
        emit(fd, {{"t", "history-done"}});
        auto grandchild = [&](const std::function<void()> &body, int p) {
            pid_t g = fork();
            if (g == 0) { alarm(300); body(); _exit(0); }
            int status = 0;
            while (waitpid(g, &status, 0) < 0 && errno == EINTR) {}
            if (!(WIFEXITED(status) && WEXITSTATUS(status) == 0))
                emit(fd, {{"t", "crash"}, {"p", p}, {"how", WIFSIGNALED(status) ? (WTERMSIG(status) == SIGALRM ? std::string("hang") : "signal:" + std::to_string(WTERMSIG(status))) : "exit:" + std::to_string(WEXITSTATUS(status))}});
        };
        grandchild([&] { emit(fd, {{"t", "tuple"}, {"tuple", G.tuple()}}); }, -1);
        for (int p : probes) {
            grandchild([&] {
                if (mode.stateless) { World t; t.parsedArgs = mode.parsedArgs; probeBody(t, p, mode, fd); }
                else probeBody(*w, p, mode, fd);
            }, p);
        }
        _exit(0);
    }
    close(pfd[1]);
    Running r;
    r.pid = c;
    r.fd = pfd[0];
    r.probes = probes;
    return r;
}
CaseResult finishCase(Running &r)
{
    CaseResult res;
    res.probes.resize(r.probes.size());
    for (size_t i = 0; i < r.probes.size(); ++i) res.probes[i].p = r.probes[i];
    std::string buf;
    char b[65536];
    ssize_t n;
    while ((n = read(r.fd, b, sizeof b)) != 0) {
        if (n < 0) { if (errno == EINTR) continue; break; }
        buf.append(b, size_t(n));
    }
    close(r.fd);
    int status = 0;
    while (waitpid(r.pid, &status, 0) < 0 && errno == EINTR) {}
    bool historyDone = false;
    size_t pos = 0;
    while (pos < buf.size()) {
        size_t e = buf.find('\n', pos);
        if (e == std::string::npos) break;
        json j = json::parse(buf.begin() + long(pos), buf.begin() + long(e), nullptr, false);
        pos = e + 1;
        if (j.is_discarded()) continue;
        std::string t = j["t"];
        if (t == "history-done") historyDone = true;
        else if (t == "query-starts") res.queryStarted = true;
        else if (t == "query") { res.queryDone = true; res.queryResults += j["result"].get<std::string>(); }
        else if (t == "tuple") res.tuple = j["tuple"];
        else if (t == "probe" || t == "crash") {
            int p = j["p"];
            for (auto &pr : res.probes) {
                if (pr.p != p || pr.ran) continue;
                pr.ran = true;
                if (t == "crash") pr.crash = j["how"].get<std::string>();
                else {
                    pr.args = j["args"].get<std::string>();
                    pr.obs = j["obs"].get<std::string>();
                    pr.loggerChecks = j["lc"].get<uint64_t>();
                    for (auto &f : j["findings"]) pr.findings.push_back({f["sig"].get<std::string>(), f["detail"]});
                }
                break;
            }
        }
    }
    if (!(WIFEXITED(status) && WEXITSTATUS(status) == 0) || !historyDone)
        res.childCrash = WIFSIGNALED(status) ? (WTERMSIG(status) == SIGALRM ? std::string("hang") : "signal:" + std::to_string(WTERMSIG(status))) : "exit:" + std::to_string(WEXITSTATUS(status));
    return res;
}
CaseResult runCase(const std::vector<int> &hist, const std::vector<int> &probes, const RunMode &mode)
{
    Running r = startCase(hist, probes, mode);
    return finishCase(r);
}

std::vector<int> allProbes()
{
    return alphabet();
}
json histNames(const std::vector<int> &h)
{
    json a = json::array();
    for (int o : h) a.push_back(stepName(o));
    return a;
}
std::string stepName(int op)
{
    if (op >= 0) return sigma()[size_t(op)].name;
    if (op == -2001) return "QUERIES{every getter of every service}";
    if (op <= -1001) return std::string("QUERIES{") + queryGroupName(-op - 1001) + "}";
    return "QUERY " + queries()[size_t(-op - 1)].name;
}
json diffExcerpt(const std::string &a, const std::string &b)
{
    size_t i = 0;
    while (i < a.size() && i < b.size() && a[i] == b[i]) ++i;
    size_t from = i > 120 ? i - 120 : 0;
    return {{"first_difference_at", i}, {"fresh", safe(a.substr(from, 600), 700)}, {"observed", safe(b.substr(from, 600), 700)}};
}

// the verdict for one probe of one run, relative to the fresh-process reference: a set of finding signatures
struct Verdict
{
    std::map<std::string, json> findings;
    bool argsDiffer = false;
};
Verdict judge(const ProbeResult &pr, const ProbeResult &ref)
{
    Verdict v;
    const std::string &name = sigma()[size_t(pr.p)].name;
    if (!pr.ran || !pr.crash.empty()) {
        v.findings["crash:in-probe:" + name + ":" + (pr.crash.empty() ? std::string("no-report") : pr.crash)] = json::object();
        return v;
    }
    for (auto &f : pr.findings) v.findings[f.sig] = f.detail;
    if (pr.args != ref.args) v.argsDiffer = true;
    else if (pr.obs != ref.obs) v.findings["impure:" + name + ":same-arguments-observe-differently-than-in-a-fresh-process"] = diffExcerpt(ref.obs, pr.obs);
    return v;
}

// fresh-process reference, once per worker process
std::vector<ProbeResult> &freshRef(const RunMode &base)
{
    static std::map<int, std::vector<ProbeResult>> cache;
    int key = (base.stateless ? 1 : 0) | (base.repeat ? 2 : 0) | (ALPHA << 2);
    auto it = cache.find(key);
    if (it != cache.end()) return it->second;
    RunMode m = base;
    m.restoreKb = false;
    m.parsedArgs = false;
    m.dropAfterOps = false;
    CaseResult r = runCase({}, allProbes(), m);
    if (!r.childCrash.empty()) { fprintf(stderr, "c12: fresh reference run died: %s\n", r.childCrash.c_str()); exit(3); }
    for (auto &p : r.probes) if (!p.ran || !p.crash.empty()) { fprintf(stderr, "c12: fresh reference probe %s died: %s\n", sigma()[size_t(p.p)].name.c_str(), p.crash.c_str()); exit(3); }
    return cache[key] = r.probes;
}
json &freshTuple()
{
    static json t;
    if (t.is_null()) t = runCase({}, {}, RunMode{}).tuple;
    return t;
}

const char *VANISH = ":vanishes-when-xmlKeepBlanksDefaultValue-restored";

// judges every probe after one history: real run, then (only where something was found) the counterfactual run
void judgeHistory(const std::vector<int> &hist, const RunMode &base, Ctx &ctx, const std::string &sigPrefix = "")
{
    auto &ref = freshRef(base);
    RunMode real = base;
    real.restoreKb = false;
    CaseResult R = runCase(hist, allProbes(), real);
    if (!R.childCrash.empty()) {
        ctx.violation(sigPrefix + "crash:in-history:last-op:" + (hist.empty() ? std::string("<none>") : sigma()[size_t(hist.back())].name) + ":" + R.childCrash, {{"history", histNames(hist)}});
        ctx.outcome("history-crashed");
        return;
    }
    std::string kbNow = R.tuple.is_object() && R.tuple.contains("xmlKeepBlanksDefaultValue") ? R.tuple["xmlKeepBlanksDefaultValue"].dump() : "?";
    std::string dtdNow = R.tuple.is_object() ? R.tuple["libcellml:mathMLDTD-decompressed"].dump() : "?";
    ctx.outcome("global-state-after-history|keepBlanks=" + kbNow + "|dtd=" + dtdNow + "|lastError=" + (R.tuple.is_object() ? R.tuple.value("xmlLastError", "?") : "?"));
    std::vector<Verdict> vr(R.probes.size());
    std::vector<int> again;
    for (size_t i = 0; i < R.probes.size(); ++i) {
        vr[i] = judge(R.probes[i], ref[i]);
        ctx.count("logger_checks", R.probes[i].loggerChecks);
        if (!vr[i].findings.empty() || vr[i].argsDiffer) again.push_back(R.probes[i].p);
    }
    std::map<int, Verdict> vc;
    if (!again.empty()) {
        RunMode cf = base;
        cf.restoreKb = true;
        CaseResult C = runCase(hist, again, cf);
        ctx.count("counterfactual_runs");
        for (size_t k = 0; k < C.probes.size(); ++k) {
            if (!C.childCrash.empty()) { Verdict v; v.findings["crash:in-history-under-intervention:" + C.childCrash] = json::object(); vc[again[k]] = v; continue; }
            Verdict v = judge(C.probes[k], ref[posOf(again[k])]);
            if (v.argsDiffer) v.findings["impure:" + sigma()[size_t(again[k])].name + ":argument-model-differs-from-the-fresh-one-even-with-keepBlanks-restored"] = diffExcerpt(ref[posOf(again[k])].args, C.probes[k].args);
            vc[again[k]] = v;
        }
    }
    for (size_t i = 0; i < R.probes.size(); ++i) {
        ++ctx.judged;
        int p = R.probes[i].p;
        const OpDef &o = sigma()[size_t(p)];
        std::string cls = std::string(kindName(o.k)) + "|keepBlanks=" + kbNow;
        if (vr[i].findings.empty() && !vr[i].argsDiffer) { ctx.outcome("same-as-fresh|" + cls); continue; }
        const Verdict &c = vc[p];
        json common = {{"history", histNames(hist)}, {"probe", o.name}, {"caller_destroys_all_models_and_results_after_each_history_op", base.dropAfterOps}, {"global_state_before_probe", R.tuple}, {"fresh_global_state", freshTuple()}};
        bool any = false;
        if (vr[i].argsDiffer) {
            // the argument itself came out of an earlier call of this history: this probe is judged in the counterfactual world only
            if (c.findings.empty()) ctx.outcome("argument-tainted-upstream-by-keepBlanks-leak(probe-agrees-once-restored)|" + cls);
            for (auto &f : c.findings) { json d = common; d["finding"] = f.second; ctx.violation(sigPrefix + f.first, d); any = true; }
        }
        for (auto &f : vr[i].findings) {
            json d = common;
            d["finding"] = f.second;
            if (c.findings.count(f.first)) { if (!vr[i].argsDiffer) ctx.violation(sigPrefix + f.first, d); }
            else ctx.violation(sigPrefix + f.first + VANISH, d);
            any = true;
        }
        if (!vr[i].argsDiffer) for (auto &f : c.findings) if (!vr[i].findings.count(f.first)) { json d = common; d["finding"] = f.second; ctx.violation(sigPrefix + f.first + ":only-with-keepBlanks-restored", d); any = true; }
        if (any) ctx.outcome("differs|" + cls);
    }
}

// =================================================================== families
int maxLen()
{
    const char *e = getenv("C12_MAXLEN");
    return e ? atoi(e) : 2;
}
uint64_t pw(uint64_t b, int e) { uint64_t r = 1; while (e-- > 0) r *= b; return r; }
uint64_t histCount() { uint64_t n = 0; for (int l = 0; l <= maxLen(); ++l) n += pw(uint64_t(NOPS()), l); return n; }
std::vector<int> histAt(uint64_t i)
{
    int l = 0;
    while (i >= pw(uint64_t(NOPS()), l)) { i -= pw(uint64_t(NOPS()), l); ++l; }
    std::vector<int> h(size_t(l), 0);
    Radix r(i);
    for (int k = l - 1; k >= 0; --k) h[size_t(k)] = alphabet()[size_t(r.take(uint64_t(NOPS())))];
    return h;
}
std::vector<int> parseHist(const std::string &s)
{
    std::vector<int> h;
    std::stringstream ss(s);
    std::string t;
    while (std::getline(ss, t, ',')) if (!t.empty()) h.push_back(atoi(t.c_str()));
    return h;
}

Family histFamily(const std::string &name)
{
    return Family{name, [] { ALPHA = 0; return histCount(); },
                  [](uint64_t i, Ctx &ctx) {
                      ALPHA = 0;
                      ensureLibrary();
                      RunMode m;
                      auto h = histAt(i);
                      if (i == 0) {
                          // determinism of the reference itself: the empty history is the reference computed a second time
                          auto &ref = freshRef(m);
                          CaseResult again = runCase({}, allProbes(), m);
                          for (size_t k = 0; k < ref.size(); ++k)
                              if (again.probes[k].obs != ref[k].obs || again.probes[k].args != ref[k].args) ctx.violation("HARNESS:fresh-process-observation-not-deterministic:" + sigma()[size_t(alphabet()[k])].name, diffExcerpt(ref[k].obs, again.probes[k].obs));
                      }
                      judgeHistory(h, m, ctx);
                  },
                  [](uint64_t i) { ALPHA = 0; return json{{"history", histNames(histAt(i))}, {"probes", "every operation of the alphabet"}, {"alphabet_size", NOPS()}}; }};
}

// Conflicting-twin family: alphabet = every service (and the parser) on a document AND on its conflicting twin (same names,
// other meanings); all histories of length <= C12_TWINLEN over it, each followed by every operation of that alphabet, on the
// long-lived service instances; every history in two modes: the caller keeps / destroys all models and results it holds
// after each history op (the service instances must not depend on objects the caller has let go of).
int twinLen()
{
    const char *e = getenv("C12_TWINLEN");
    return e ? atoi(e) : 1;
}
uint64_t twinHistCount() { uint64_t n = 0; for (int l = 0; l <= twinLen(); ++l) n += pw(uint64_t(TWIN_ALPHABET.size()), l); return n; }
std::vector<int> twinHistAt(uint64_t i)
{
    uint64_t n = TWIN_ALPHABET.size();
    int l = 0;
    while (i >= pw(n, l)) { i -= pw(n, l); ++l; }
    std::vector<int> h(size_t(l), 0);
    Radix r(i);
    for (int k = l - 1; k >= 0; --k) h[size_t(k)] = TWIN_ALPHABET[size_t(r.take(n))];
    return h;
}
Family twinFamily(const std::string &name)
{
    return Family{name, [] { sigma(); return 2 * twinHistCount(); },
                  [](uint64_t i, Ctx &ctx) {
                      sigma();
                      ALPHA = 1;
                      ensureLibrary();
                      RunMode m;
                      m.dropAfterOps = i >= twinHistCount(); // second half of the index space: the destroying mode
                      auto h = twinHistAt(i % twinHistCount());
                      if (h.empty() && m.dropAfterOps) { ctx.outcome("empty-history(drop mode adds nothing)"); return; }
                      judgeHistory(h, m, ctx); // (the mode is in the detail, not in the signature: same classes as without destruction)
                  },
                  [](uint64_t i) { sigma(); ALPHA = 1; return json{{"history", histNames(twinHistAt(i % twinHistCount()))}, {"caller_destroys_models_and_results_after_each_op", i >= twinHistCount()}, {"probes", "every operation of the twin alphabet"}, {"alphabet_size", TWIN_ALPHABET.size()}}; }};
}

// Query family: queries are INERT. For every history h of length <= 1 over the main alphabet and every position, the history
// with a query (sweep) inserted there must be followed by exactly the observations (all probes, findings, crashes, and the
// documented + reachable state of every long-lived instance) that follow h itself. index = position * NV + variant;
// variants: the 9 sweeps (one per service/argument class), with C12_QUERY_SINGLES=1 also every single getter; the *_asan
// family has one variant: all getters at once. A sweep that is not inert is bisected to the single getter(s).
int queryVariants(bool all)
{
    if (all) return 1;
    const char *e = getenv("C12_QUERY_SINGLES");
    return NGROUPS + ((e && atoi(e)) ? int(queries().size()) : 0);
}
uint64_t queryPositions() { ALPHA = 0; return 1 + 2 * uint64_t(NOPS()); }
void queryDecode(uint64_t i, bool all, std::vector<int> &base, std::vector<int> &withq, int &code)
{
    ALPHA = 0;
    uint64_t nv = uint64_t(queryVariants(all)), j = i / nv, v = i % nv;
    code = all ? -2001 : (v < uint64_t(NGROUPS) ? -(1001 + int(v)) : -(1 + int(v - NGROUPS)));
    base.clear();
    if (j == 0) { withq = {code}; return; }
    // positions: 0 = the query alone; 1..N = after op a; N+1..2N = before op a
    uint64_t n = uint64_t(NOPS());
    int a = alphabet()[size_t((j - 1) % n)];
    base = {a};
    withq = (j > n) ? std::vector<int>{code, a} : std::vector<int>{a, code};
}
struct QueryDiff
{
    bool differs = false, crashes = false;
    json probes = json::array();
    json first;
};
QueryDiff compareRuns(const CaseResult &R0, const CaseResult &Rq)
{
    QueryDiff d;
    for (size_t k = 0; k < R0.probes.size() && k < Rq.probes.size(); ++k) {
        const auto &a = R0.probes[k];
        const auto &b = Rq.probes[k];
        std::set<std::string> fa, fb;
        for (auto &f : a.findings) fa.insert(f.sig);
        for (auto &f : b.findings) fb.insert(f.sig);
        bool diff = a.ran != b.ran || a.crash != b.crash || a.args != b.args || a.obs != b.obs || fa != fb;
        if (!diff) continue;
        d.differs = true;
        if (a.crash != b.crash && !b.crash.empty()) d.crashes = true;
        d.probes.push_back(sigma()[size_t(a.p)].name + (a.crash != b.crash ? " [" + (b.crash.empty() ? std::string("no longer crashes") : "crashes: " + b.crash) + "]" : ""));
        if (d.first.is_null()) { d.first = diffExcerpt(a.obs, b.obs); d.first["probe"] = sigma()[size_t(a.p)].name; }
    }
    return d;
}
Family queryFamily(const std::string &name, bool all)
{
    return Family{name, [all] { sigma(); return queryPositions() * uint64_t(queryVariants(all)); },
                  [all](uint64_t i, Ctx &ctx) {
                      sigma();
                      ALPHA = 0;
                      ensureLibrary();
                      RunMode m;
                      m.repeat = false;
                      m.queryWorld = true;
                      std::vector<int> base, withq;
                      int code;
                      queryDecode(i, all, base, withq, code);
                      static std::vector<int> cachedBase = {-999999};
                      static CaseResult R0;
                      if (cachedBase != base) { R0 = runCase(base, allProbes(), m); cachedBase = base; }
                      if (!R0.childCrash.empty()) { ctx.outcome("history-without-query-crashes(not judged here)"); return; }
                      auto runWith = [&](int c) {
                          std::vector<int> h;
                          for (int o : withq) h.push_back(o < 0 ? c : o);
                          return runCase(h, allProbes(), m);
                      };
                      auto report = [&](int c, const CaseResult &Rq) -> bool {
                          std::vector<int> h;
                          for (int o : withq) h.push_back(o < 0 ? c : o);
                          json d = {{"history_with_query", histNames(h)}, {"history_without", histNames(base)}, {"query_returned", safe(Rq.queryResults, 3000)}};
                          if (!Rq.childCrash.empty()) {
                              ctx.violation((Rq.queryStarted && !Rq.queryDone ? "crash:in-query:" : "query-not-inert:history-crashes-after:") + stepName(c) + ":" + Rq.childCrash, d);
                              return true;
                          }
                          QueryDiff q = compareRuns(R0, Rq);
                          if (!q.differs) return false;
                          d["probes_that_observe_differently"] = q.probes;
                          d["first_difference"] = q.first;
                          ctx.violation("query-not-inert:" + stepName(c) + (q.crashes ? ":a-later-call-crashes" : ":later-observations-or-instance-state-differ"), d);
                          return true;
                      };
                      CaseResult Rq = runWith(code);
                      ctx.judged += uint64_t(NOPS());
                      for (size_t pos = 0; (pos = Rq.queryResults.find("-> present", pos)) != std::string::npos; ++pos) ctx.count("query_answers_present");
                      for (size_t pos = 0; (pos = Rq.queryResults.find("-> absent", pos)) != std::string::npos; ++pos) ctx.count("query_answers_absent");
                      bool bad = !Rq.childCrash.empty() || compareRuns(R0, Rq).differs;
                      if (!bad) { ctx.outcome(std::string("inert|") + (code <= -1001 ? "sweep" : "single-getter") + "|position=" + (base.empty() ? "alone" : (withq[0] < 0 ? "before-op" : "after-op"))); return; }
                      ctx.outcome("not-inert");
                      if (code > -1001) { report(code, Rq); return; }
                      // bisect the sweep to the single getters
                      bool named = false;
                      for (size_t g = 0; g < queries().size(); ++g) {
                          if (code != -2001 && queries()[g].group != -code - 1001) continue;
                          CaseResult Rs = runWith(-(1 + int(g)));
                          if (report(-(1 + int(g)), Rs)) named = true;
                      }
                      if (!named) report(code, Rq); // only the combination shows it
                  },
                  [all](uint64_t i) {
                      sigma();
                      std::vector<int> base, withq;
                      int code;
                      queryDecode(i, all, base, withq, code);
                      return json{{"history_with_query", histNames(withq)}, {"compared_with", histNames(base)}, {"probes", "every operation of the main alphabet + state of every long-lived instance"}};
                  }};
}

// BFS to closure over the abstract global-state tuple; ops in fresh worlds
void closureRun(uint64_t, Ctx &ctx)
{
    ALPHA = 0;
    ensureLibrary();
    RunMode m;
    m.stateless = true;
    m.repeat = false;
    if (g_options.count("history")) { judgeHistory(parseHist(g_options["history"]), m, ctx, "global-state:"); return; }
    struct State { std::vector<int> hist; std::vector<ProbeResult> obs; json tuple; };
    std::map<std::string, State> states;
    auto &ref = freshRef(m);
    CaseResult init = runCase({}, {}, m);
    states[init.tuple.dump()] = {{}, ref, init.tuple};
    std::vector<std::vector<int>> frontier = {{}};
    uint64_t transitions = 0, depth = 0;
    const size_t BATCH = 12;
    while (!frontier.empty() && depth < 16) {
        ++depth;
        std::vector<std::vector<int>> jobs, next;
        for (auto &h : frontier) for (int a = 0; a < NOPS(); ++a) { auto h2 = h; h2.push_back(a); jobs.push_back(h2); }
        for (size_t base = 0; base < jobs.size(); base += BATCH) {
            std::vector<Running> run;
            for (size_t k = base; k < jobs.size() && k < base + BATCH; ++k) run.push_back(startCase(jobs[k], allProbes(), m));
            for (size_t k = 0; k < run.size(); ++k) {
                const auto &h = jobs[base + k];
                CaseResult r = finishCase(run[k]);
                ++transitions;
                if (!r.childCrash.empty() || !r.tuple.is_object()) { ctx.violation("global-state:crash:in-history:last-op:" + sigma()[size_t(h.back())].name + ":" + r.childCrash, {{"history", histNames(h)}}); continue; }
                std::string key = r.tuple.dump();
                auto it = states.find(key);
                if (it == states.end()) {
                    states[key] = {h, r.probes, r.tuple};
                    next.push_back(h);
                    continue;
                }
                // same abstract state reached by another history: every probe must observe the same (validates the abstraction)
                for (size_t p = 0; p < r.probes.size(); ++p) {
                    const auto &a = it->second.obs[p];
                    const auto &b = r.probes[p];
                    std::set<std::string> fa, fb;
                    for (auto &f : a.findings) fa.insert(f.sig);
                    for (auto &f : b.findings) fb.insert(f.sig);
                    if (a.obs != b.obs || a.args != b.args || a.crash != b.crash || fa != fb) {
                        json d = diffExcerpt(a.obs, b.obs);
                        d["tuple"] = r.tuple;
                        d["history_a"] = histNames(it->second.hist);
                        d["history_b"] = histNames(h);
                        d["history"] = histNames(h);
                        ctx.violation("HARNESS:abstraction-error:same-global-state-tuple-different-observation:" + sigma()[p].name, d);
                    } else ctx.count("abstraction_confirmations");
                }
            }
        }
        frontier.swap(next);
    }
    bool closed = frontier.empty();
    ctx.count("states", states.size());
    ctx.count("transitions", transitions);
    ctx.count("bfs_depth", depth);
    ctx.count(closed ? "closure_reached" : "closure_not_reached");
    // every reachable abstract state against the fresh one (with causal attribution)
    json tuples = json::array();
    for (auto &s : states) {
        json diff = json::object();
        for (auto &kv : s.second.tuple.items()) if (freshTuple().value(kv.key(), json()) != kv.value()) diff[kv.key()] = kv.value();
        tuples.push_back({{"reached_by", histNames(s.second.hist)}, {"differs_from_fresh_in", diff}});
        ctx.outcome("abstract-state:" + (diff.empty() ? std::string("fresh") : diff.dump()));
        if (s.second.hist.empty()) { ctx.judged += uint64_t(NOPS()); continue; }
        judgeHistory(s.second.hist, m, ctx, "global-state:");
    }
    fprintf(stderr, "%s\n", json{{"closure", closed}, {"states", states.size()}, {"transitions", transitions}, {"depth", depth}, {"abstract_states", tuples}}.dump().c_str());
}

// the API-built argument models must be indistinguishable, for every service probe, from a strict parse in a fresh process
std::vector<int> serviceOps()
{
    std::vector<int> v;
    for (int i = 0; i < int(sigma().size()); ++i) if (sigma()[size_t(i)].k != PARSE) v.push_back(i);
    return v;
}
void selftestRun(uint64_t i, Ctx &ctx)
{
    ensureLibrary();
    RunMode m;
    int p = serviceOps()[size_t(i)];
    ALPHA = p < NMAIN ? 0 : 1;
    auto &ref = freshRef(m);
    m.parsedArgs = true;
    CaseResult r = runCase({}, {p}, m);
    ++ctx.judged;
    const auto &pr = r.probes[0];
    if (!pr.ran || !pr.crash.empty()) { ctx.violation("HARNESS:selftest-probe-died:" + sigma()[size_t(p)].name, {{"how", pr.crash}}); return; }
    if (pr.args != ref[posOf(p)].args) ctx.violation("HARNESS:api-twin-differs-from-fresh-strict-parse:arguments:" + sigma()[size_t(p)].name, diffExcerpt(ref[posOf(p)].args, pr.args));
    else if (pr.obs != ref[posOf(p)].obs) ctx.violation("HARNESS:api-twin-differs-from-fresh-strict-parse:observation:" + sigma()[size_t(p)].name, diffExcerpt(ref[posOf(p)].obs, pr.obs));
    else ctx.outcome("twin-equals-parsed");
    // the tuple must be readable: the abstraction is meaningless otherwise
    if (!freshTuple().is_object() || !freshTuple().contains("xmlKeepBlanksDefaultValue")) ctx.violation("HARNESS:cannot-read-libxml2-globals", freshTuple());
}

} // namespace

int main(int argc, char **argv)
{
    G.init();
    std::vector<Family> fs = {
        histFamily("hist"),
        histFamily("hist_asan"), // same cases; separate name so that the ASan sub-family is accounted separately
        twinFamily("twin"),
        twinFamily("twin_asan"),
        queryFamily("query", false),
        queryFamily("query_asan", true),
        Family{"closure", [] { return uint64_t(1); }, closureRun,
               [](uint64_t) { json a = json::array(); for (auto &o : sigma()) a.push_back(o.name); return json{{"alphabet", a}, {"state", "abstract tuple of libxml2 globals + DTD flag"}}; }},
        Family{"selftest", [] { return uint64_t(serviceOps().size()); }, selftestRun, [](uint64_t i) { return json{{"probe", sigma()[size_t(serviceOps()[size_t(i)])].name}}; }},
        // inspection aid (not part of the check): the fresh-process tuple and, with -v, every fresh observation
        Family{"fresh", [] { return uint64_t(1); },
               [](uint64_t, Ctx &ctx) {
                   ALPHA = g_options.count("twin") ? 1 : 0;
                   ensureLibrary();
                   ++ctx.judged;
                   printf("# fresh tuple: %s\n", freshTuple().dump().c_str());
                   if (ctx.verbose) for (auto &p : freshRef(RunMode{})) printf("# ---- %s\n# args: %s\n%s\n", sigma()[size_t(p.p)].name.c_str(), p.args.c_str(), p.obs.c_str());
               },
               [](uint64_t) { return json{{"what", "prints the fresh-process global-state tuple and observations"}}; }},
    };
    return harnessMain(argc, argv, fs);
}
