// FLAVOURS: asan plain
// C16 — numeric text is recognised per the CellML grammar and never crashes.
// Exhaustive over all strings of length <= 5 over {digits,+,-,.,e,E,space,a} in every numeric position.
#include "common.hpp"
#include "utilities.h"
#include <cerrno>
#include <climits>

using namespace vf;

static std::string ALPHA; // set from VERIF_TIER-independent argument
static int MAXLEN = 5;
static const std::vector<std::string> EXTREME = {
    "1e308", "1e309", "-1e309", "1e-400", "1e-320", "2147483647", "2147483648", "-2147483648", "-2147483649", "4294967296",
    "1234567890123456789012345678901234567890", "-1234567890123456789012345678901234567890", "0x10", "1_0", "\xef\xbc\x91", "1\xc2\xa0",
    "1.7976931348623157e308", "1.7976931348623159e308", "4.9e-324", "2.2250738585072014e-308", "0.1e-2147483648", "1e2147483648", "1e+2147483647",
    "000000000000000000001", "-0", "-0.0", "+0", ".5e-3", "5.e3", "1E5", "1e+5", "1e-5", "1e", "e1", "1e+", "1.2.3", "--1", "+-1", "1-", "1+1", "nan", "inf", "-inf", "NaN", "INF", "1d3", "1f", "1L",
    "\t1", "1\n", " 1 ", "1 2"};

static uint64_t pw(uint64_t b, int e) { uint64_t r = 1; while (e-- > 0) r *= b; return r; }
static uint64_t enumCount() { uint64_t n = 0; for (int l = 0; l <= MAXLEN; ++l) n += pw(ALPHA.size(), l); return n; }
static std::string strAt(uint64_t i)
{
    uint64_t ne = enumCount();
    if (i >= ne) return EXTREME.at(i - ne);
    int l = 0;
    while (i >= pw(ALPHA.size(), l)) { i -= pw(ALPHA.size(), l); ++l; }
    std::string s(l, ' ');
    for (int k = l - 1; k >= 0; --k) { s[k] = ALPHA[i % ALPHA.size()]; i /= ALPHA.size(); }
    return s;
}
static uint64_t strCount() { return enumCount() + EXTREME.size(); }

// ---------------- reference, written from the property statement
static bool isDigit(char c) { return c >= '0' && c <= '9'; }
static bool refInteger(const std::string &s)
{
    size_t i = 0;
    if (i < s.size() && (s[i] == '+' || s[i] == '-')) ++i;
    size_t d = 0;
    while (i < s.size() && isDigit(s[i])) { ++i; ++d; }
    return d >= 1 && i == s.size();
}
static bool refBasicReal(const std::string &s)
{
    size_t i = 0;
    if (i < s.size() && s[i] == '-') ++i;
    size_t d = 0, dots = 0;
    while (i < s.size() && (isDigit(s[i]) || s[i] == '.')) { if (s[i] == '.') ++dots; else ++d; ++i; }
    return d >= 1 && dots <= 1 && i == s.size();
}
static bool refReal(const std::string &s)
{
    size_t e = s.find_first_of("eE");
    if (e == std::string::npos) return refBasicReal(s);
    return refBasicReal(s.substr(0, e)) && refInteger(s.substr(e + 1));
}
static bool g_subnormal = false; // set by refDouble: result is subnormal (either verdict is allowed by the statement)
static bool refDouble(const std::string &s, double &out)
{ // value + "representable": overflow to infinity or underflow to zero is out of range; a subnormal result is a double
    errno = 0;
    out = strtod(s.c_str(), nullptr);
    g_subnormal = errno == ERANGE && out != 0 && std::isfinite(out);
    return !(errno == ERANGE && (out == 0 || std::isinf(out)));
}
static std::string magClass(double x)
{
    if (x != 0 && std::fabs(x) < 2.2250738585072014e-308) return "subnormal";
    if (std::fabs(x) > 1.7976931348623150e308) return "above-15-digit-max"; // %.15g rounds these above DBL_MAX
    return "normal-range";
}
static bool refInt(const std::string &s, int &out)
{
    errno = 0;
    long v = strtol(s.c_str(), nullptr, 10);
    if (errno == ERANGE || v > INT_MAX || v < INT_MIN) return false;
    out = int(v);
    return true;
}
static bool same15(double a, double b)
{
    if (std::isnan(a) || std::isnan(b)) return std::isnan(a) && std::isnan(b);
    if (a == b) return true;
    char x[64], y[64];
    snprintf(x, sizeof x, "%.15g", a);
    snprintf(y, sizeof y, "%.15g", b);
    return strcmp(x, y) == 0;
}
static std::string strip(const std::string &s)
{
    size_t b = 0, e = s.size();
    while (b < e && isspace((unsigned char)s[b])) ++b;
    while (e > b && isspace((unsigned char)s[e - 1])) --e;
    return s.substr(b, e - b);
}
static std::string xmlEsc(const std::string &s)
{
    std::string r;
    for (char c : s) {
        if (c == '&') r += "&amp;"; else if (c == '<') r += "&lt;"; else if (c == '"') r += "&quot;";
        else if (c == '\t') r += "&#9;"; else if (c == '\n') r += "&#10;"; else r += c;
    }
    return r;
}

template<class F> static bool guarded(Ctx &c, const std::string &where, const std::string &s, F f)
{
    try { f(); return true; }
    catch (const std::exception &e) {
        c.violation("conversion-threw:" + where + ":" + (dynamic_cast<const std::invalid_argument *>(&e) ? "std::invalid_argument" : "other"), {{"string", safe(s)}, {"what", e.what()}});
    } catch (...) { c.violation("conversion-threw:" + where + ":unknown", {{"string", safe(s)}}); }
    return false;
}

// ---------------- family rec: the recognisers and converters, directly
static void runRec(uint64_t i, Ctx &c)
{
    std::string s = strAt(i);
    bool rr = refReal(s), rb = refBasicReal(s), ri = refInteger(s);
    ++c.judged;
    c.outcome(std::string(rr ? "real" : "notreal") + (ri ? "+int" : ""));
    guarded(c, "isCellMLReal", s, [&] { if (libcellml::isCellMLReal(s) != rr) c.violation(std::string("recogniser-disagrees:isCellMLReal:") + (rr ? "rejects-valid" : "accepts-invalid"), {{"string", safe(s)}}); });
    guarded(c, "isCellMLBasicReal", s, [&] { if (libcellml::isCellMLBasicReal(s) != rb) c.violation(std::string("recogniser-disagrees:isCellMLBasicReal:") + (rb ? "rejects-valid" : "accepts-invalid"), {{"string", safe(s)}}); });
    guarded(c, "isCellMLInteger", s, [&] { if (libcellml::isCellMLInteger(s) != ri) c.violation(std::string("recogniser-disagrees:isCellMLInteger:") + (ri ? "rejects-valid" : "accepts-invalid"), {{"string", safe(s)}}); });
    guarded(c, "convertToDouble", s, [&] {
        double d = -12345.0, rd = 0;
        bool ok = libcellml::convertToDouble(s, d);
        bool rep = rr && refDouble(s, rd);
        if (ok != rep && !(rr && g_subnormal)) c.violation(std::string("convertToDouble:") + (rep ? "rejects-valid" : "accepts-invalid"), {{"string", safe(s)}});
        else if (ok && !same15(d, rd)) c.violation("convertToDouble:wrong-value", {{"string", safe(s)}, {"got", dbl(d)}, {"want", dbl(rd)}});
    });
    guarded(c, "canConvertToBasicDouble", s, [&] {
        double rd;
        bool ok = libcellml::canConvertToBasicDouble(s);
        bool rep = rb && refDouble(s, rd);
        if (ok != rep && !(rb && g_subnormal)) c.violation(std::string("canConvertToBasicDouble:") + (rep ? "rejects-valid" : "accepts-invalid"), {{"string", safe(s)}});
    });
    guarded(c, "convertToInt", s, [&] {
        int v = -12345, rv = 0;
        bool ok = libcellml::convertToInt(s, v);
        bool rep = ri && refInt(s, rv);
        if (ok != rep) c.violation(std::string("convertToInt:") + (rep ? "rejects-valid" : "accepts-invalid"), {{"string", safe(s)}});
        else if (ok && v != rv) c.violation("convertToInt:wrong-value", {{"string", safe(s)}, {"got", v}, {"want", rv}});
    });
    guarded(c, "convertPrefixToInt", s, [&] {
        bool ok = false;
        int rv = 0;
        int v = libcellml::convertPrefixToInt(s, &ok);
        bool rep = s.empty() || (ri && refInt(s, rv));
        if (ok != rep) c.violation(std::string("convertPrefixToInt:") + (rep ? "rejects-valid" : "accepts-invalid"), {{"string", safe(s)}});
        else if (ok && !s.empty() && v != rv) c.violation("convertPrefixToInt:wrong-value", {{"string", safe(s)}, {"got", v}, {"want", rv}});
    });
}

// ---------------- family attr: string in each attribute position of a document, parser (+validator)
static const char *POS[] = {"exponent", "multiplier", "prefix", "initial_value", "order"};
static std::string attrDoc(int pos, const std::string &s)
{
    std::string e = xmlEsc(s);
    std::string d = "<?xml version=\"1.0\" encoding=\"UTF-8\"?>\n<model xmlns=\"http://www.cellml.org/cellml/2.0#\" name=\"m\">\n";
    d += "  <units name=\"u\"><unit units=\"metre\"";
    if (pos == 0) d += " exponent=\"" + e + "\"";
    if (pos == 1) d += " multiplier=\"" + e + "\"";
    if (pos == 2) d += " prefix=\"" + e + "\"";
    d += "/></units>\n  <units name=\"w\"><unit units=\"metre\"/></units>\n  <component name=\"c\">\n    <variable name=\"v\" units=\"u\"";
    if (pos == 3) d += " initial_value=\"" + e + "\"";
    d += "/>\n    <variable name=\"t\" units=\"u\"/>\n";
    if (pos == 4) d += "    <reset variable=\"v\" test_variable=\"t\" order=\"" + e + "\"/>\n";
    d += "  </component>\n</model>\n";
    return d;
}
static void runAttr(uint64_t idx, Ctx &c)
{
    int pos = int(idx % 5);
    std::string s = strAt(idx / 5);
    std::string doc = attrDoc(pos, s);
    std::string tag = POS[pos];
    guarded(c, "pipeline:" + tag, s, [&] {
        auto parser = Parser::create();
        auto m = parser->parseModel(doc);
        c.logger(parser, "parser");
        if (!m || m->unitsCount() != 2 || m->componentCount() != 1) { c.violation("attr:document-not-loaded:" + tag, {{"string", safe(s)}, {"issues", issuesJson(parser)}}); return; }
        auto validator = Validator::create();
        validator->validateModel(m);
        c.logger(validator, "validator");
        auto printer = Printer::create();
        std::string printed = printer->printModel(m);
        auto u = m->units(0);
        auto w = m->units(1);
        bool rr = refReal(s), ri = refInteger(s);
        double rd = 0;
        int rv = 0;
        if (pos == 0 || pos == 1) {
            ++c.judged;
            auto rule = pos == 0 ? Issue::ReferenceRule::UNIT_ATTRIBUTE_EXPONENT_VALUE : Issue::ReferenceRule::UNIT_ATTRIBUTE_MULTIPLIER_VALUE;
            bool issue = hasRule(parser, rule);
            double got = pos == 0 ? u->unitAttributeExponent(0) : u->unitAttributeMultiplier(0);
            bool rep = rr && refDouble(s, rd);
            bool sub = rr && g_subnormal;
            c.outcome(tag + (sub ? ":subnormal" : rep ? ":accepted" : rr ? ":out-of-range" : ":rejected"));
            if (sub && issue) rep = false; // a subnormal may be converted or reported as out of range; both satisfy the statement
            if (rep) {
                if (issue) c.violation("attr:" + tag + ":valid-text-reported", {{"string", safe(s)}, {"issues", issuesJson(parser)}});
                if (!same15(got, rd)) c.violation("attr:" + tag + ":wrong-value", {{"string", safe(s)}, {"got", dbl(got)}, {"want", dbl(rd)}});
                // printer round trip of an accepted number
                auto p2 = Parser::create();
                auto m2 = p2->parseModel(printed);
                std::string cls = magClass(got);
                if (!m2 || m2->unitsCount() != 2 || m2->units(0)->unitCount() != 1) c.violation("roundtrip:" + tag + "-not-readable:" + cls, {{"string", safe(s)}, {"printed", safe(printed)}});
                else {
                    double back = pos == 0 ? m2->units(0)->unitAttributeExponent(0) : m2->units(0)->unitAttributeMultiplier(0);
                    if (!same15(back, got)) c.violation("roundtrip:" + tag + "-changed:" + cls, {{"string", safe(s)}, {"got", dbl(back)}, {"want", dbl(got)}, {"issues", issuesJson(p2)}});
                    else if (p2->issueCount() != 0) c.violation("roundtrip:" + tag + "-reported:" + cls, {{"string", safe(s)}, {"issues", issuesJson(p2)}});
                }
            } else if (!issue) c.violation("attr:" + tag + ":invalid-text-not-reported", {{"string", safe(s)}, {"got", dbl(got)}});
            // clients of the stored number must not crash either
            (void)Units::scalingFactor(u, w);
            (void)Units::compatible(u, w);
        } else if (pos == 2) {
            if (s.empty()) { c.outcome("prefix:empty-not-judged"); return; } // the data model cannot represent an empty attribute
            ++c.judged;
            bool issue = hasRule(validator, Issue::ReferenceRule::UNIT_ATTRIBUTE_PREFIX_VALUE);
            bool rep = ri && refInt(s, rv);
            c.outcome(tag + (rep ? ":accepted" : ri ? ":out-of-range" : ":rejected"));
            {
                bool ok2 = false;
                int stored = libcellml::convertPrefixToInt(u->unitAttributePrefix(0), &ok2);
                if (rep && (!ok2 || stored != rv)) c.violation("attr:prefix:wrong-value", {{"string", safe(s)}, {"stored", safe(u->unitAttributePrefix(0))}});
                if (!rep && u->unitAttributePrefix(0) != s) c.violation("attr:prefix:invalid-text-not-kept-for-validation", {{"string", safe(s)}});
            }
            if (rep && issue) c.violation("attr:prefix:valid-text-reported", {{"string", safe(s)}, {"issues", issuesJson(validator)}});
            if (!rep && !issue) c.violation("attr:prefix:invalid-text-not-reported", {{"string", safe(s)}});
            double f = Units::scalingFactor(u, w);
            if (rep && rv >= -300 && rv <= 300) {
                double want = std::pow(10.0, -rv);
                if (!(std::fabs(f - want) <= 1e-9 * std::fabs(want))) c.violation("attr:prefix:scaling-ignores-integer-prefix", {{"string", safe(s)}, {"got", dbl(f)}, {"want", dbl(want)}});
            }
        } else if (pos == 3) {
            if (s.empty()) { c.outcome("initial_value:empty-not-judged"); return; }
            ++c.judged;
            bool issue = validator->errorCount() > 0;
            c.outcome(tag + (rr ? ":accepted" : ":rejected"));
            if (m->component(0)->variable(0)->initialValue() != s) c.violation("attr:initial_value:text-not-stored", {{"string", safe(s)}});
            if (rr && issue) c.violation("attr:initial_value:valid-text-reported", {{"string", safe(s)}, {"issues", issuesJson(validator)}});
            if (!rr && !issue) c.violation("attr:initial_value:invalid-text-not-reported", {{"string", safe(s)}});
            auto an = Analyser::create();
            an->analyseModel(m);
            c.logger(an, "analyser");
        } else {
            ++c.judged;
            auto r = m->component(0)->resetCount() == 1 ? m->component(0)->reset(0) : nullptr;
            if (!r) { c.violation("attr:order:reset-not-loaded", {{"string", safe(s)}}); return; }
            bool issue = hasRule(parser, Issue::ReferenceRule::RESET_ORDER_VALUE);
            bool rep = ri && refInt(s, rv);
            c.outcome(tag + (rep ? ":accepted" : ri ? ":out-of-range" : ":rejected"));
            if (rep) {
                if (issue) c.violation("attr:order:valid-text-reported", {{"string", safe(s)}, {"issues", issuesJson(parser)}});
                if (!r->isOrderSet() || r->order() != rv) c.violation("attr:order:wrong-value", {{"string", safe(s)}, {"got", r->order()}, {"want", rv}});
            } else if (!issue) c.violation("attr:order:invalid-text-not-reported", {{"string", safe(s)}});
        }
    });
}

// ---------------- family cn: strings inside <cn>, packed; three positions
static const int PACK = 128;
static const char *CNPOS[] = {"cn-plain", "cn-enotation-mantissa", "cn-enotation-exponent"};
static std::string cnDoc(int pos, const std::vector<std::string> &ss)
{
    std::string d = "<?xml version=\"1.0\" encoding=\"UTF-8\"?>\n<model xmlns=\"http://www.cellml.org/cellml/2.0#\" name=\"m\">\n  <component name=\"c\">\n";
    for (size_t k = 0; k < ss.size(); ++k) d += "    <variable name=\"v" + std::to_string(k) + "\" units=\"dimensionless\"/>\n";
    d += "    <math xmlns=\"http://www.w3.org/1998/Math/MathML\" xmlns:cellml=\"http://www.cellml.org/cellml/2.0#\">\n";
    for (size_t k = 0; k < ss.size(); ++k) {
        d += "      <apply><eq/><ci>v" + std::to_string(k) + "</ci>";
        std::string e = xmlEsc(ss[k]);
        if (pos == 0) d += "<cn cellml:units=\"dimensionless\">" + e + "</cn>";
        if (pos == 1) d += "<cn cellml:units=\"dimensionless\" type=\"e-notation\">" + e + "<sep/>1</cn>";
        if (pos == 2) d += "<cn cellml:units=\"dimensionless\" type=\"e-notation\">1<sep/>" + e + "</cn>";
        d += "</apply>\n";
    }
    d += "    </math>\n  </component>\n</model>\n";
    return d;
}
static bool cnRefAccept(int pos, const std::string &s)
{
    std::string t = strip(s);
    double d;
    int v;
    if (pos == 2) return refInteger(t) && refInt(t, v);
    return refBasicReal(t) && refDouble(t, d);
}
// returns number of MATH_CN_FORMAT errors, -1 if something else went wrong
static long cnIssues(Ctx &c, int pos, const std::vector<std::string> &ss, bool deep, size_t *others = nullptr)
{
    auto parser = Parser::create();
    auto m = parser->parseModel(cnDoc(pos, ss));
    c.logger(parser, "parser");
    if (!m || m->componentCount() != 1 || parser->issueCount() != 0) return -1;
    auto validator = Validator::create();
    validator->validateModel(m);
    c.logger(validator, "validator");
    long n = 0;
    size_t o = 0;
    for (size_t i = 0; i < validator->issueCount(); ++i) {
        if (validator->issue(i)->referenceRule() == Issue::ReferenceRule::MATH_CN_FORMAT) ++n; else ++o;
    }
    if (others) *others = o;
    if (deep && validator->errorCount() == 0) {
        auto an = Analyser::create();
        an->analyseModel(m);
        c.logger(an, "analyser");
        if (an->model()->isValid()) {
            auto g = Generator::create();
            g->setModel(an->model());
            std::string code = g->implementationCode();
            c.count("generated");
            if (code.empty()) return -2;
        }
    }
    return n;
}
static uint64_t cnPacks() { return (strCount() + PACK - 1) / PACK; }
static void runCn(uint64_t idx, Ctx &c)
{
    int pos = int(idx % 3);
    uint64_t pk = idx / 3;
    std::vector<std::string> ss;
    for (uint64_t k = pk * PACK; k < std::min<uint64_t>((pk + 1) * PACK, strCount()); ++k) ss.push_back(strAt(k));
    long want = 0;
    for (auto &s : ss) if (!cnRefAccept(pos, s)) ++want;
    long got = -3;
    size_t others = 0;
    bool threw = false;
    try { got = cnIssues(c, pos, ss, false, &others); } catch (...) { threw = true; }
    c.judged += ss.size();
    c.outcome(std::string(CNPOS[pos]) + (threw ? ":pack-threw" : got == want && others == 0 ? ":pack-agrees" : ":pack-bisected"));
    if (!threw && got == want && others == 0) return;
    // bisect: each member alone
    for (auto &s : ss) {
        guarded(c, std::string("validator:") + CNPOS[pos], s, [&] {
            size_t o2 = 0;
            bool acc = cnRefAccept(pos, s);
            long g = cnIssues(c, pos, {s}, acc, &o2);
            if (g == -1) { c.violation(std::string("cn:document-not-loaded:") + CNPOS[pos], {{"string", safe(s)}}); return; }
            if (g == -2) { c.violation(std::string("cn:valid-model-generates-nothing:") + CNPOS[pos], {{"string", safe(s)}}); return; }
            if (acc && (g != 0 || o2 != 0)) c.violation(std::string("cn:valid-text-reported:") + CNPOS[pos], {{"string", safe(s)}});
            if (!acc && g == 0) c.violation(std::string("cn:invalid-text-not-reported:") + CNPOS[pos], {{"string", safe(s)}});
        });
    }
}
// every string of length <= 2 in a document of its own (checks the right node's stripped text is fed to the recogniser)
static uint64_t cnSingleCount() { uint64_t n = 0; for (int l = 0; l <= 2; ++l) n += pw(ALPHA.size(), l); return n * 3; }
static void runCnSingle(uint64_t idx, Ctx &c)
{
    int pos = int(idx % 3);
    std::string s = strAt(idx / 3);
    ++c.judged;
    guarded(c, std::string("validator:") + CNPOS[pos], s, [&] {
        size_t o2 = 0;
        bool acc = cnRefAccept(pos, s);
        long g = cnIssues(c, pos, {s}, acc, &o2);
        c.outcome(std::string(CNPOS[pos]) + (acc ? ":accepted" : ":rejected"));
        if (g == -1) { c.violation(std::string("cn:document-not-loaded:") + CNPOS[pos], {{"string", safe(s)}}); return; }
        if (g == -2) { c.violation(std::string("cn:valid-model-generates-nothing:") + CNPOS[pos], {{"string", safe(s)}}); return; }
        if (acc && (g != 0 || o2 != 0)) c.violation(std::string("cn:valid-text-reported:") + CNPOS[pos], {{"string", safe(s)}});
        if (!acc && g == 0) c.violation(std::string("cn:invalid-text-not-reported:") + CNPOS[pos], {{"string", safe(s)}});
    });
}

// ---------------- family roundtrip: doubles set through the API, printed, parsed
static std::vector<double> SPECIALS = {0.0, -0.0, 2.2250738585072014e-308, 4.9406564584124654e-324, 1.7976931348623157e308, 0.1 + 0.2, 1.0 / 3.0,
                                       9007199254740991.0, 9007199254740993.0, 9007199254740992.0, -1.0 / 3.0, 1e15, 1e16, 123456789012345678.0, 1e-5, 1e-4, 0.000123456789012345};
static uint64_t rtCount() { return 900ull * 629 + SPECIALS.size(); } // d.dd (100..999) x k in [-320,308]
static double rtValue(uint64_t i)
{
    if (i >= 900ull * 629) return SPECIALS.at(i - 900ull * 629);
    int mant = 100 + int(i % 900), k = int(i / 900) - 320;
    char b[64];
    snprintf(b, sizeof b, "%d.%02de%d", mant / 100, mant % 100, k);
    return strtod(b, nullptr);
}
static void runRt(uint64_t i, Ctx &c)
{
    double d = rtValue(i);
    for (int neg = 0; neg < 2; ++neg) {
        double x = neg ? -d : d;
        if (!std::isfinite(x)) { c.outcome("non-finite-not-in-domain"); continue; }
        auto m = Model::create("m");
        auto u = Units::create("u");
        u->addUnit("metre", "", x, 1.0);
        u->addUnit("second", "", 1.0, x);
        m->addUnits(u);
        std::string text;
        guarded(c, "printer", dbl(x), [&] { text = Printer::create()->printModel(m); });
        auto p = Parser::create();
        ModelPtr m2;
        guarded(c, "parser", dbl(x), [&] { m2 = p->parseModel(text); });
        ++c.judged;
        std::string cls = magClass(x);
        c.outcome(x == 0 ? "zero" : cls);
        if (!m2 || m2->unitsCount() != 1 || m2->units(0)->unitCount() != 2) { c.violation("roundtrip:not-readable:" + cls, {{"value", dbl(x)}, {"text", safe(text)}}); continue; }
        double e = m2->units(0)->unitAttributeExponent(0), mu = m2->units(0)->unitAttributeMultiplier(1);
        if (!same15(e, x)) c.violation("roundtrip:exponent-changed:" + cls, {{"value", dbl(x)}, {"got", dbl(e)}, {"issues", issuesJson(p)}});
        if (!same15(mu, x)) c.violation("roundtrip:multiplier-changed:" + cls, {{"value", dbl(x)}, {"got", dbl(mu)}, {"issues", issuesJson(p)}});
    }
}

int main(int argc, char **argv)
{
    const char *a = getenv("C16_ALPHABET");
    ALPHA = a ? a : "019+-.eE a";
    if (const char *l = getenv("C16_MAXLEN")) MAXLEN = atoi(l);
    std::vector<Family> fs = {
        {"rec", strCount, runRec, [](uint64_t i) { return json{{"string", safe(strAt(i))}, {"ref_real", refReal(strAt(i))}, {"ref_integer", refInteger(strAt(i))}}; }},
        {"attr", [] { return strCount() * 5; }, runAttr, [](uint64_t i) { return json{{"position", POS[i % 5]}, {"string", safe(strAt(i / 5))}, {"document", safe(attrDoc(int(i % 5), strAt(i / 5)))}}; }},
        {"cn", [] { return cnPacks() * 3; }, runCn, [](uint64_t i) { return json{{"position", CNPOS[i % 3]}, {"pack", i / 3}, {"first", safe(strAt((i / 3) * PACK))}, {"last", safe(strAt(std::min<uint64_t>((i / 3 + 1) * PACK, strCount()) - 1))}}; }},
        {"cnsingle", cnSingleCount, runCnSingle, [](uint64_t i) { return json{{"position", CNPOS[i % 3]}, {"string", safe(strAt(i / 3))}, {"document", safe(cnDoc(int(i % 3), {strAt(i / 3)}))}}; }},
        {"roundtrip", rtCount, runRt, [](uint64_t i) { return json{{"value", dbl(rtValue(i))}}; }},
    };
    return harnessMain(argc, argv, fs);
}
