// FLAVOURS: asan plain
// C13 — identifier assignment is complete, unique and non-destructive.
//
// Family "preids" (shape B): every placement of <= 1 (quick) / <= 2 (thorough) menu ids on the id carriers of the universe
// model x background x every assign* call on a FRESH annotator (no edit after setModel).
// Machines (shape S, xstate.hpp): explicit-state search over Annotator histories - setModel, model edits AFTER
// setModel, structural edits, every assign* variant, clearAllIds - with the implementation as transition relation.
// Lookups (item/items/ids/duplicateIds/itemCount/isUnique/typed getters) and Printer::printModel(m, true) are
// OBSERVATIONS made in every reached state (World::invariant), never operations, so they cannot refresh the
// annotator's cache inside a history: the state key is taken before they run.
//
// Reference: an independent traversal of the model through public getters (snapshot()) - "carrier key -> id".
#include "xstate.hpp"
#include "logger_p.h"
#include <cstddef>
#include <malloc.h>

using namespace vf;

namespace {

// ------------------------------------------------------------------ outcome classes shared with forked children
struct Slot
{
    int state; // 0 empty, 1 being written, 2 ready
    char name[116];
    uint64_t n;
};
constexpr int NSLOT = 2048;
Slot *g_slots = nullptr;
void note(const std::string &cls, uint64_t k = 1)
{
    if (!g_slots) return;
    size_t h = std::hash<std::string> {}(cls);
    for (int p = 0; p < NSLOT; ++p) {
        Slot &s = g_slots[(h + size_t(p)) % NSLOT];
        int st = __atomic_load_n(&s.state, __ATOMIC_ACQUIRE);
        if (st == 0) {
            int expect = 0;
            if (__atomic_compare_exchange_n(&s.state, &expect, 1, false, __ATOMIC_ACQ_REL, __ATOMIC_ACQUIRE)) {
                strncpy(s.name, cls.c_str(), sizeof(s.name) - 1);
                __atomic_store_n(&s.state, 2, __ATOMIC_RELEASE);
                __atomic_fetch_add(&s.n, k, __ATOMIC_RELAXED);
                return;
            }
            st = __atomic_load_n(&s.state, __ATOMIC_ACQUIRE);
        }
        for (int spin = 0; st == 1 && spin < 1000000; ++spin) st = __atomic_load_n(&s.state, __ATOMIC_ACQUIRE);
        if (st == 2 && strncmp(s.name, cls.c_str(), sizeof(s.name) - 1) == 0) {
            __atomic_fetch_add(&s.n, k, __ATOMIC_RELAXED);
            return;
        }
    }
}

// ------------------------------------------------------------------ auxiliary view of the annotator's hidden state
// AnnotatorImpl is defined in annotator.cpp, so its layout is mirrored here. It is used ONLY to (a) build the state
// key used for de-duplication and (b) pick the adversarial menu id "the id the annotator would hand out next".
// A start-up probe verifies the mirror; if it fails the harness falls back to a model-only key and literal ids.
struct AnnView: public Logger::LoggerImpl
{
    Annotator *mAnnotator;
    std::multimap<std::string, AnyCellmlElementPtr> mIdList;
    std::weak_ptr<Model> mModel;
    size_t mCounter;
    size_t mHash;
};
AnnView *view(const AnnotatorPtr &a) { return reinterpret_cast<AnnView *>(a->Logger::mPimpl); }
bool g_hasHash = false; // the mirrored mHash field exists in the build under test (a repaired annotator may have dropped it)
bool viewWorks()
{
    static int ok = -1;
    if (ok < 0) {
        auto a = Annotator::create();
        auto m = Model::create("probe");
        m->setId("q");
        a->setModel(m);
        AnnView *v = view(a);
        // never read past the real object: the allocation must be at least as large as the part of the mirror that is read
        size_t usable = malloc_usable_size(v);
        bool canReadCounter = usable >= offsetof(AnnView, mCounter) + sizeof(size_t);
        bool canReadHash = usable >= sizeof(AnnView);
        ok = (canReadCounter && v->mAnnotator == a.get() && v->mCounter == 0xb4da55 && v->mIdList.size() == 1 && v->mIdList.count("q") == 1 && v->mModel.lock() == m) ? 1 : 0;
        if (ok && canReadHash) {
            // the field behind the counter is the hash iff it is non-zero after setModel and zero after clearAllIds
            size_t h1 = v->mHash;
            a->clearAllIds();
            size_t h2 = v->mHash;
            g_hasHash = h1 != 0 && h2 == 0;
            m->setId("q");
            a->setModel(m);
        }
        if (ok) {
            (void)a->assignId(m, CellmlElementType::ENCAPSULATION);
            ok = (m->encapsulationId() == "b4da55" && v->mIdList.size() == 2) ? 1 : 0;
        }
    }
    return ok == 1;
}
std::string hexId(size_t n)
{
    std::stringstream s;
    s << std::hex << n;
    return s.str();
}

const char *typeName(CellmlElementType t)
{
    static const char *N[] = {"COMPONENT", "COMPONENT_REF", "CONNECTION", "ENCAPSULATION", "IMPORT", "MAP_VARIABLES", "MATH", "MODEL", "RESET", "RESET_VALUE", "TEST_VALUE", "UNDEFINED", "UNIT", "UNITS", "VARIABLE"};
    int i = int(t);
    return (i >= 0 && i < 15) ? N[i] : "OUT-OF-RANGE";
}

// ------------------------------------------------------------------ independent traversal
struct Carrier
{
    std::string key;
    CellmlElementType kind;
    std::string id;
    bool exists; // the element exists in the document structure (an assign* of its kind must give it an id)
};
struct Snap
{
    bool live = false;
    std::vector<Carrier> c;
    const Carrier *find(const std::string &k) const
    {
        for (auto &x : c) if (x.key == k) return &x;
        return nullptr;
    }
    std::map<std::string, int> idCounts() const
    {
        std::map<std::string, int> m;
        for (auto &x : c) if (!x.id.empty()) ++m[x.id];
        return m;
    }
    std::string str() const
    {
        if (!live) return "<no-model>";
        std::string s;
        for (auto &x : c) s += x.key + "=" + x.id + (x.exists ? "" : "(no-element)") + ";";
        return s;
    }
    bool operator==(const Snap &o) const { return live == o.live && str() == o.str(); }
};

struct Labels
{
    std::map<const void *, std::string> m;
    void add(const void *p, const std::string &l) { m[p] = l; }
    std::string of(const void *p) const
    {
        if (!p) return "<null>";
        auto it = m.find(p);
        return it == m.end() ? "<unknown>" : it->second;
    }
};

const void *compOf(const VariablePtr &v)
{
    return v ? static_cast<const void *>(std::dynamic_pointer_cast<Component>(v->parent()).get()) : nullptr;
}
std::string pairKey(const std::string &prefix, std::string a, std::string b)
{
    if (b < a) std::swap(a, b);
    return prefix + a + "~" + b;
}

void snapComponent(const ComponentPtr &c, const Labels &L, Snap &s, std::vector<ImportSourcePtr> &imports, int depth)
{
    bool inHierarchy = std::dynamic_pointer_cast<Component>(c->parent()) != nullptr || c->componentCount() > 0;
    s.c.push_back({"comp:" + L.of(c.get()), CellmlElementType::COMPONENT, c->id(), true});
    s.c.push_back({"cref:" + L.of(c.get()), CellmlElementType::COMPONENT_REF, c->encapsulationId(), inHierarchy});
    if (c->isImport() && c->importSource() && std::find(imports.begin(), imports.end(), c->importSource()) == imports.end()) imports.push_back(c->importSource());
    for (size_t i = 0; i < c->variableCount(); ++i) {
        auto v = c->variable(i);
        s.c.push_back({"var:" + L.of(v.get()), CellmlElementType::VARIABLE, v->id(), true});
    }
    for (size_t i = 0; i < c->variableCount(); ++i) {
        auto v = c->variable(i);
        for (size_t e = 0; e < v->equivalentVariableCount(); ++e) {
            auto w = v->equivalentVariable(e);
            if (!w) continue;
            std::string mk = pairKey("map:", L.of(v.get()), L.of(w.get()));
            if (!s.find(mk)) s.c.push_back({mk, CellmlElementType::MAP_VARIABLES, Variable::equivalenceMappingId(v, w), true});
            std::string ck = pairKey("conn:", L.of(compOf(v)), L.of(compOf(w)));
            if (!s.find(ck)) s.c.push_back({ck, CellmlElementType::CONNECTION, Variable::equivalenceConnectionId(v, w), true});
        }
    }
    for (size_t i = 0; i < c->resetCount(); ++i) {
        auto r = c->reset(i);
        s.c.push_back({"reset:" + L.of(r.get()), CellmlElementType::RESET, r->id(), true});
        s.c.push_back({"tv:" + L.of(r.get()), CellmlElementType::TEST_VALUE, r->testValueId(), true});
        s.c.push_back({"rv:" + L.of(r.get()), CellmlElementType::RESET_VALUE, r->resetValueId(), true});
    }
    if (depth < 16) for (size_t i = 0; i < c->componentCount(); ++i) snapComponent(c->component(i), L, s, imports, depth + 1);
}
bool anyHierarchy(const ModelPtr &m)
{
    for (size_t i = 0; i < m->componentCount(); ++i) if (m->component(i)->componentCount() > 0) return true;
    return false;
}
Snap snapshot(const ModelPtr &m, const Labels &L)
{
    Snap s;
    if (!m) return s;
    s.live = true;
    std::vector<ImportSourcePtr> imports;
    s.c.push_back({"model", CellmlElementType::MODEL, m->id(), true});
    s.c.push_back({"encap", CellmlElementType::ENCAPSULATION, m->encapsulationId(), anyHierarchy(m)});
    for (size_t i = 0; i < m->unitsCount(); ++i) {
        auto u = m->units(i);
        s.c.push_back({"units:" + L.of(u.get()), CellmlElementType::UNITS, u->id(), true});
        for (size_t j = 0; j < u->unitCount(); ++j) s.c.push_back({"unit:" + L.of(u.get()) + "[" + std::to_string(j) + "]", CellmlElementType::UNIT, u->unitId(j), true});
        if (u->isImport() && u->importSource() && std::find(imports.begin(), imports.end(), u->importSource()) == imports.end()) imports.push_back(u->importSource());
    }
    for (size_t i = 0; i < m->componentCount(); ++i) snapComponent(m->component(i), L, s, imports, 0);
    for (auto &is : imports) s.c.push_back({"import:" + L.of(is.get()), CellmlElementType::IMPORT, is->id(), true});
    return s;
}

// what an AnyCellmlElement returned by the annotator denotes, in carrier-key form
std::string describe(const AnyCellmlElementPtr &it, const Labels &L, const ModelPtr &cur)
{
    if (!it) return "<null-item>";
    switch (it->type()) {
    case CellmlElementType::COMPONENT: return "comp:" + L.of(it->component().get());
    case CellmlElementType::COMPONENT_REF: return "cref:" + L.of(it->component().get());
    case CellmlElementType::CONNECTION: {
        auto p = it->variablePair();
        if (!p || !p->variable1() || !p->variable2()) return "conn:<null>";
        return pairKey("conn:", L.of(compOf(p->variable1())), L.of(compOf(p->variable2())));
    }
    case CellmlElementType::MAP_VARIABLES: {
        auto p = it->variablePair();
        if (!p) return "map:<null>";
        return pairKey("map:", L.of(p->variable1().get()), L.of(p->variable2().get()));
    }
    case CellmlElementType::ENCAPSULATION: return it->model() == cur ? "encap" : "encap:of-other-model";
    case CellmlElementType::MODEL: return it->model() == cur ? "model" : "model:other";
    case CellmlElementType::IMPORT: return "import:" + L.of(it->importSource().get());
    case CellmlElementType::RESET: return "reset:" + L.of(it->reset().get());
    case CellmlElementType::RESET_VALUE: return "rv:" + L.of(it->reset().get());
    case CellmlElementType::TEST_VALUE: return "tv:" + L.of(it->reset().get());
    case CellmlElementType::UNIT: {
        auto ui = it->unitsItem();
        if (!ui) return "unit:<null>";
        return "unit:" + L.of(ui->units().get()) + "[" + std::to_string(ui->index()) + "]";
    }
    case CellmlElementType::UNITS: return "units:" + L.of(it->units().get());
    case CellmlElementType::VARIABLE: return "var:" + L.of(it->variable().get());
    case CellmlElementType::UNDEFINED: return "undefined";
    default: return "type:" + std::to_string(int(it->type()));
    }
}

// ------------------------------------------------------------------ the universe (real objects)
struct Universe
{
    ModelPtr m0, m1;
    ComponentPtr c0, c1, c2, c3, c4, c5, d0; // c4 is a LOCAL child of the imported c2, c5 a local child of c4
    VariablePtr v0, v1, v2, v3, v4, w0;
    UnitsPtr u0, u1, fu;
    ResetPtr r0, r1;
    ImportSourcePtr is0, fis;
    Labels L;
    AnnotatorPtr ann;
    const char *MATH = "<math xmlns=\"http://www.w3.org/1998/Math/MathML\"><apply><eq/><ci>x</ci><cn xmlns:cellml=\"http://www.cellml.org/cellml/2.0#\" cellml:units=\"u0\">1</cn></apply></math>";

    Universe()
    {
        m0 = Model::create("m");
        u0 = Units::create("u0");
        u0->addUnit("metre");
        m0->addUnits(u0);
        is0 = ImportSource::create();
        is0->setUrl("lib.cellml");
        u1 = Units::create("u1");
        u1->setImportSource(is0);
        u1->setImportReference("lu");
        m0->addUnits(u1);
        c0 = Component::create("c0");
        c1 = Component::create("c1");
        c2 = Component::create("c2");
        c3 = Component::create("c3");
        v0 = Variable::create("x");
        v1 = Variable::create("y");
        v2 = Variable::create("z");
        for (auto &v : {v0, v1, v2}) { v->setUnits(u0); v->setInterfaceType("public_and_private"); }
        c0->addVariable(v0);
        c1->addVariable(v1);
        c3->addVariable(v2);
        r0 = Reset::create();
        r0->setVariable(v0);
        r0->setTestVariable(v0);
        r0->setOrder(1);
        r0->setTestValue(MATH);
        r0->setResetValue(MATH);
        c0->addReset(r0);
        c0->addComponent(c1);
        m0->addComponent(c0);
        c2->setImportSource(is0);
        c2->setImportReference("lc");
        // locally defined components encapsulated UNDER the imported component (legal CellML 2.0): every carrier kind below an import
        c4 = Component::create("c4");
        c5 = Component::create("c5");
        v3 = Variable::create("p");
        v4 = Variable::create("q");
        for (auto &v : {v3, v4}) { v->setUnits(u0); v->setInterfaceType("public_and_private"); }
        c4->addVariable(v3);
        c5->addVariable(v4);
        r1 = Reset::create();
        r1->setVariable(v3);
        r1->setTestVariable(v3);
        r1->setOrder(1);
        r1->setTestValue(MATH);
        r1->setResetValue(MATH);
        c4->addReset(r1);
        c4->addComponent(c5);
        c2->addComponent(c4);
        m0->addComponent(c2);
        Variable::addEquivalence(v0, v1);
        Variable::addEquivalence(v3, v4);
        // the other model: its items are foreign to m0
        m1 = Model::create("other");
        d0 = Component::create("d0");
        d0->setId("a");
        w0 = Variable::create("w");
        w0->setUnits("second");
        w0->setId("b4da55");
        d0->addVariable(w0);
        m1->addComponent(d0);
        fis = ImportSource::create();
        fis->setUrl("other_lib.cellml");
        fu = Units::create("fu");
        fu->setImportSource(fis);
        fu->setImportReference("lu");
        m1->addUnits(fu);
        L.add(m0.get(), "m0"); L.add(m1.get(), "m1");
        L.add(c0.get(), "c0"); L.add(c1.get(), "c1"); L.add(c2.get(), "c2"); L.add(c3.get(), "c3"); L.add(d0.get(), "d0");
        L.add(v0.get(), "v0"); L.add(v1.get(), "v1"); L.add(v2.get(), "v2"); L.add(w0.get(), "w0");
        L.add(u0.get(), "u0"); L.add(u1.get(), "u1"); L.add(fu.get(), "fu");
        L.add(r0.get(), "r0"); L.add(is0.get(), "is0"); L.add(fis.get(), "fis");
        L.add(c4.get(), "c4"); L.add(c5.get(), "c5"); L.add(v3.get(), "v3"); L.add(v4.get(), "v4"); L.add(r1.get(), "r1");
        ann = Annotator::create();
    }

    // ---- the 16 editable carriers of m0
    static constexpr int NCARRIER = 27; // 0..15: the original carriers; 16..26: the carriers below the imported component
    static const char *carrierName(int k)
    {
        static const char *N[] = {"model.id", "model.encapsulationId", "c0.id", "c1.id", "c1.encapsulationId", "v0.id", "v1.id", "mapping(v0,v1)", "connection(v0,v1)", "u0.id", "u1.id", "u0.unit[0].id", "r0.id", "r0.testValueId", "r0.resetValueId", "is0.id",
                                  "c4.id", "c4.encapsulationId", "v3.id", "mapping(v3,v4)", "connection(v3,v4)", "r1.id", "r1.testValueId", "r1.resetValueId", "c5.id", "c5.encapsulationId", "v4.id"};
        return N[k];
    }
    void setCarrier(int k, const std::string &id)
    {
        switch (k) {
        case 0: m0->setId(id); break;
        case 1: m0->setEncapsulationId(id); break;
        case 2: c0->setId(id); break;
        case 3: c1->setId(id); break;
        case 4: c1->setEncapsulationId(id); break;
        case 5: v0->setId(id); break;
        case 6: v1->setId(id); break;
        case 7: Variable::setEquivalenceMappingId(v0, v1, id); break;
        case 8: Variable::setEquivalenceConnectionId(v0, v1, id); break;
        case 9: u0->setId(id); break;
        case 10: u1->setId(id); break;
        case 11: u0->setUnitId(0, id); break;
        case 12: r0->setId(id); break;
        case 13: r0->setTestValueId(id); break;
        case 14: r0->setResetValueId(id); break;
        case 15: is0->setId(id); break;
        case 16: c4->setId(id); break;
        case 17: c4->setEncapsulationId(id); break;
        case 18: v3->setId(id); break;
        case 19: Variable::setEquivalenceMappingId(v3, v4, id); break;
        case 20: Variable::setEquivalenceConnectionId(v3, v4, id); break;
        case 21: r1->setId(id); break;
        case 22: r1->setTestValueId(id); break;
        case 23: r1->setResetValueId(id); break;
        case 24: c5->setId(id); break;
        case 25: c5->setEncapsulationId(id); break;
        case 26: v4->setId(id); break;
        }
    }
    // ---- the 19 carriers of the pristine m0, in snapshot() key form (for the preids family)
    static const std::vector<std::string> &pristineKeys()
    {
        static std::vector<std::string> k = {"model", "encap", "units:u0", "unit:u0[0]", "units:u1", "comp:c0", "cref:c0", "var:v0", "map:v0~v1", "conn:c0~c1", "reset:r0", "tv:r0", "rv:r0", "comp:c1", "cref:c1", "var:v1", "comp:c2", "import:is0", "cref:c2",
                                              "comp:c4", "cref:c4", "var:v3", "map:v3~v4", "conn:c4~c5", "reset:r1", "tv:r1", "rv:r1", "comp:c5", "cref:c5", "var:v4"};
        return k;
    }
    void setByKey(const std::string &k, const std::string &id)
    {
        if (k == "model") m0->setId(id);
        else if (k == "encap") m0->setEncapsulationId(id);
        else if (k == "units:u0") u0->setId(id);
        else if (k == "unit:u0[0]") u0->setUnitId(0, id);
        else if (k == "units:u1") u1->setId(id);
        else if (k == "comp:c0") c0->setId(id);
        else if (k == "cref:c0") c0->setEncapsulationId(id);
        else if (k == "var:v0") v0->setId(id);
        else if (k == "map:v0~v1") Variable::setEquivalenceMappingId(v0, v1, id);
        else if (k == "conn:c0~c1") Variable::setEquivalenceConnectionId(v0, v1, id);
        else if (k == "reset:r0") r0->setId(id);
        else if (k == "tv:r0") r0->setTestValueId(id);
        else if (k == "rv:r0") r0->setResetValueId(id);
        else if (k == "comp:c1") c1->setId(id);
        else if (k == "cref:c1") c1->setEncapsulationId(id);
        else if (k == "var:v1") v1->setId(id);
        else if (k == "comp:c2") c2->setId(id);
        else if (k == "import:is0") is0->setId(id);
        else if (k == "cref:c2") c2->setEncapsulationId(id);
        else if (k == "comp:c4") c4->setId(id);
        else if (k == "cref:c4") c4->setEncapsulationId(id);
        else if (k == "var:v3") v3->setId(id);
        else if (k == "map:v3~v4") Variable::setEquivalenceMappingId(v3, v4, id);
        else if (k == "conn:c4~c5") Variable::setEquivalenceConnectionId(v3, v4, id);
        else if (k == "reset:r1") r1->setId(id);
        else if (k == "tv:r1") r1->setTestValueId(id);
        else if (k == "rv:r1") r1->setResetValueId(id);
        else if (k == "comp:c5") c5->setId(id);
        else if (k == "cref:c5") c5->setEncapsulationId(id);
        else if (k == "var:v4") v4->setId(id);
    }

    // ---- the items assignId can be called with
    static constexpr int NITEM = 37; // 25..36: items below the imported component and its own component_ref
    static const char *itemName(int k)
    {
        static const char *N[] = {"m0,MODEL", "m0,ENCAPSULATION", "c0,COMPONENT", "c1,COMPONENT", "c2,COMPONENT", "c0,COMPONENT_REF", "c1,COMPONENT_REF", "v0", "v1", "v0,v1,MAP_VARIABLES", "v0,v1,CONNECTION",
                                  "u0", "u1", "u0,0", "r0,RESET", "r0,TEST_VALUE", "r0,RESET_VALUE", "is0", "v2", "w0-of-other-model", "fis-of-other-model", "u0,7-out-of-range", "null-variable", "null-units-item", "AnyCellmlElement{VARIABLE holding a Component}",
                                  "c4,COMPONENT", "c4,COMPONENT_REF", "v3", "v3,v4,MAP_VARIABLES", "v3,v4,CONNECTION", "r1,RESET", "r1,TEST_VALUE", "r1,RESET_VALUE", "c5,COMPONENT", "c5,COMPONENT_REF", "v4", "c2,COMPONENT_REF"};
        return N[k];
    }
    // key of the carrier the item denotes (empty: denotes nothing that can exist in a model), and its kind
    static std::string itemKey(int k)
    {
        static const char *K[] = {"model", "encap", "comp:c0", "comp:c1", "comp:c2", "cref:c0", "cref:c1", "var:v0", "var:v1", "map:v0~v1", "conn:c0~c1", "units:u0", "units:u1", "unit:u0[0]", "reset:r0", "tv:r0", "rv:r0", "import:is0", "var:v2", "var:w0", "import:fis", "", "", "", "",
                                  "comp:c4", "cref:c4", "var:v3", "map:v3~v4", "conn:c4~c5", "reset:r1", "tv:r1", "rv:r1", "comp:c5", "cref:c5", "var:v4", "cref:c2"};
        return K[k];
    }
    static const char *itemKind(int k)
    {
        static const char *K[] = {"MODEL", "ENCAPSULATION", "COMPONENT", "COMPONENT", "COMPONENT", "COMPONENT_REF", "COMPONENT_REF", "VARIABLE", "VARIABLE", "MAP_VARIABLES", "CONNECTION", "UNITS", "UNITS", "UNIT", "RESET", "TEST_VALUE", "RESET_VALUE", "IMPORT", "VARIABLE", "VARIABLE", "IMPORT", "UNIT", "VARIABLE", "UNIT", "VARIABLE",
                                  "COMPONENT", "COMPONENT_REF", "VARIABLE", "MAP_VARIABLES", "CONNECTION", "RESET", "TEST_VALUE", "RESET_VALUE", "COMPONENT", "COMPONENT_REF", "VARIABLE", "COMPONENT_REF"};
        return K[k];
    }
    std::string assignItem(int k)
    {
        switch (k) {
        case 0: return m0 ? ann->assignId(m0, CellmlElementType::MODEL) : ann->assignId(ModelPtr(), CellmlElementType::MODEL);
        case 1: return ann->assignId(m0, CellmlElementType::ENCAPSULATION);
        case 2: return ann->assignId(c0, CellmlElementType::COMPONENT);
        case 3: return ann->assignId(c1, CellmlElementType::COMPONENT);
        case 4: return ann->assignId(c2, CellmlElementType::COMPONENT);
        case 5: return ann->assignId(c0, CellmlElementType::COMPONENT_REF);
        case 6: return ann->assignId(c1, CellmlElementType::COMPONENT_REF);
        case 7: return ann->assignId(v0);
        case 8: return ann->assignId(v1);
        case 9: return ann->assignId(v0, v1, CellmlElementType::MAP_VARIABLES);
        case 10: return ann->assignId(VariablePair::create(v0, v1), CellmlElementType::CONNECTION);
        case 11: return ann->assignId(u0);
        case 12: return ann->assignId(u1);
        case 13: return ann->assignId(u0, 0);
        case 14: return ann->assignId(r0, CellmlElementType::RESET);
        case 15: return ann->assignId(r0, CellmlElementType::TEST_VALUE);
        case 16: return ann->assignId(r0, CellmlElementType::RESET_VALUE);
        case 17: return ann->assignId(is0);
        case 18: return ann->assignId(v2);
        case 19: return ann->assignId(w0);
        case 20: return ann->assignId(fis);
        case 21: return ann->assignId(UnitsItem::create(u0, 7));
        case 22: return ann->assignId(VariablePtr());
        case 23: return ann->assignId(UnitsItem::create(UnitsPtr(), 0));
        case 24: {
            auto e = AnyCellmlElement::AnyCellmlElementImpl::create();
            e->mPimpl->mType = CellmlElementType::VARIABLE;
            e->mPimpl->mItem = c0;
            return ann->assignId(e);
        }
        case 25: return ann->assignId(c4, CellmlElementType::COMPONENT);
        case 26: return ann->assignId(c4, CellmlElementType::COMPONENT_REF);
        case 27: return ann->assignId(v3);
        case 28: return ann->assignId(v3, v4, CellmlElementType::MAP_VARIABLES);
        case 29: return ann->assignId(VariablePair::create(v4, v3), CellmlElementType::CONNECTION);
        case 30: return ann->assignId(r1, CellmlElementType::RESET);
        case 31: return ann->assignId(r1, CellmlElementType::TEST_VALUE);
        case 32: return ann->assignId(r1, CellmlElementType::RESET_VALUE);
        case 33: return ann->assignId(c5, CellmlElementType::COMPONENT);
        case 34: return ann->assignId(c5, CellmlElementType::COMPONENT_REF);
        case 35: return ann->assignId(v4);
        case 36: return ann->assignId(c2, CellmlElementType::COMPONENT_REF);
        }
        return "";
    }
};

// ------------------------------------------------------------------ oracles shared by the machines and the preids family
struct AssignSpec
{
    std::string label;                                // e.g. assignIds(VARIABLE)
    std::function<bool(CellmlElementType)> requested; // kinds every id-less carrier of which must get an id
    std::string target;                               // assignId: key of the carrier that must receive a NEW id ("" = none)
    std::string situation;                            // appended to every signature
};
// pre/post: snapshots of the model the call operates on
void judgeAssign(const AssignSpec &a, const Snap &pre, const Snap &post, std::vector<Viol> &out)
{
    auto bad = [&](const std::string &what, const std::string &key, const std::string &extra = "") {
        out.push_back({"assign:" + a.label + ":" + what + ":" + a.situation, {{"carrier", key}, {"pre", pre.str()}, {"post", post.str()}, {"extra", extra}}});
    };
    if (pre.c.size() != post.c.size()) { bad("carrier-set-changed", ""); return; }
    auto preIds = pre.idCounts();
    std::vector<std::pair<std::string, std::string>> fresh; // (carrier, new id)
    size_t outside = 0;
    for (auto &p : post.c) {
        const Carrier *q = pre.find(p.key);
        if (!q) { bad("carrier-set-changed", p.key); return; }
        bool isTarget = !a.target.empty() && p.key == a.target;
        if (!q->id.empty() && !isTarget && p.id != q->id) bad("existing-id-changed", p.key, q->id + " -> " + p.id);
        if (q->id.empty() && q->exists && a.requested(q->kind) && p.id.empty()) bad("carrier-of-requested-kind-left-without-id", p.key);
        if (isTarget && (p.id.empty() || p.id == q->id)) bad("target-did-not-receive-a-new-id", p.key, q->id + " -> " + p.id);
        if (p.id != q->id && !p.id.empty()) {
            fresh.push_back({p.key, p.id});
            if (!isTarget && !a.requested(q->kind)) ++outside;
        }
    }
    for (size_t i = 0; i < fresh.size(); ++i) {
        if (preIds.count(fresh[i].second)) bad("new-id-collides-with-existing-id", fresh[i].first, fresh[i].second);
        for (size_t j = i + 1; j < fresh.size(); ++j) if (fresh[i].second == fresh[j].second) bad("new-ids-not-distinct", fresh[i].first + "," + fresh[j].first, fresh[i].second);
    }
    note("assign:" + a.label.substr(0, a.label.find('(')) + ":" + (fresh.empty() ? "nothing-assigned" : "assigned") + (outside ? "+ids-outside-requested-kind" : ""));
}

// Lookups against the traversal. The annotator's items(id) are compared with the carriers of the id found by the traversal
// (one violation per KIND of carrier that is listed although the model does not have it / is missed although the model has
// it); every other lookup is then compared with items(id). judged=false: disagreements are only counted (the statement
// speaks about lookups after assign*).
std::string kindOfKey(const std::string &k) { return k.substr(0, k.find(':')); }
void judgeLookups(const AnnotatorPtr &ann, const ModelPtr &cur, const Labels &L, bool judged, const std::string &situation, std::vector<Viol> &out, bool fullBattery = true)
{
    Snap t = snapshot(cur, L);
    auto counts = t.idCounts();
    bool disagreed = false, anyDup = false;
    auto bad = [&](const std::string &what, json d) {
        disagreed = true;
        d["model"] = t.str();
        if (judged) out.push_back({"lookup:" + what + ":" + situation, d});
    };
    auto check = [&](const char *svc) { if (auto x = loggerIncoherence(ann)) out.push_back({std::string("C15:logger-incoherent:annotator"), {{"after", svc}, {"what", *x}}}); };
    auto ids = ann->ids();
    check("ids");
    auto dup = ann->duplicateIds();
    check("duplicateIds");
    if (!std::is_sorted(ids.begin(), ids.end()) || std::adjacent_find(ids.begin(), ids.end()) != ids.end()) bad("ids()-has-repeats-or-is-unordered", {{"ids", ids}});
    std::set<std::string> probe;
    for (auto &kv : counts) probe.insert(kv.first);
    for (auto &x : ids) probe.insert(x);
    for (auto &x : dup) probe.insert(x);
    probe.insert("a");
    probe.insert("b4da55");
    probe.insert("no-such-id");
    for (auto &id : probe) {
        std::multiset<std::string> expect;
        for (auto &c : t.c) if (c.id == id) expect.insert(c.key);
        if (expect.size() > 1) anyDup = true;
        auto its = ann->items(id);
        check("items");
        std::multiset<std::string> got;
        for (auto &it : its) got.insert(describe(it, L, cur));
        // (1) items(id) against the traversal
        std::multiset<std::string> extra, missing;
        std::set_difference(got.begin(), got.end(), expect.begin(), expect.end(), std::inserter(extra, extra.begin()));
        std::set_difference(expect.begin(), expect.end(), got.begin(), got.end(), std::inserter(missing, missing.begin()));
        std::set<std::string> ek, mk;
        for (auto &k : extra) {
            // why is it not a carrier of this id? listed more often than carried / a carrier of the model that has another
            // id (stale entry) / nothing the model contains (foreign or non-existent item)
            const Carrier *c = t.find(k);
            ek.insert(kindOfKey(k) + (expect.count(k) ? "-more-often-than-it-is-carried" : c ? "-under-an-id-it-does-not-carry" : "-that-is-not-in-the-model"));
        }
        for (auto &k : missing) mk.insert(kindOfKey(k));
        json detail = {{"id", id}, {"items", std::vector<std::string>(got.begin(), got.end())}, {"carriers-per-traversal", std::vector<std::string>(expect.begin(), expect.end())}};
        for (auto &k : ek) bad("items(id)-lists-a-" + k, detail);
        for (auto &k : mk) bad("items(id)-misses-a-" + k + "-that-carries-the-id", detail);
        // (2) every other lookup against items(id)
        size_t n = its.size();
        size_t ic = ann->itemCount(id);
        check("itemCount");
        if (ic != n) bad("itemCount(id)-differs-from-items(id).size()", {{"id", id}, {"itemCount", ic}, {"items", n}});
        bool uq = ann->isUnique(id);
        if (uq != (n == 1)) bad("isUnique(id)-inconsistent-with-items(id)", {{"id", id}, {"isUnique", uq}, {"items", n}});
        bool inIds = std::find(ids.begin(), ids.end(), id) != ids.end(), inDup = std::find(dup.begin(), dup.end(), id) != dup.end();
        if (inIds != (n > 0)) bad("ids()-inconsistent-with-items(id)", {{"id", id}, {"in-ids", inIds}, {"items", n}});
        if (inDup != (n > 1)) bad("duplicateIds()-inconsistent-with-items(id)", {{"id", id}, {"in-duplicateIds", inDup}, {"items", n}});
        // reduced battery (preids, single-item assignments): the index itself is compared in full (ids, duplicateIds, items,
        // itemCount, isUnique per id); item(id) / typed getters / indexed forms only for ids that are listed exactly once
        if (!fullBattery && n != 1) continue;
        auto one = ann->item(id);
        size_t issuesAfterItem = ann->issueCount();
        check("item");
        std::string d1 = describe(one, L, cur);
        if (n == 1) {
            const std::string k = *got.begin();
            if (d1 != k) bad("item(id)-differs-from-the-only-element-of-items(id)", {{"id", id}, {"item", d1}, {"items", k}});
            // the typed getter designated for the kind returns the same object
            bool ok = true;
            std::string pre = kindOfKey(k);
            auto lab = [&](const void *p) { return L.of(p); };
            if (pre == "comp") ok = ann->component(id) && "comp:" + lab(ann->component(id).get()) == k;
            else if (pre == "cref") ok = ann->componentEncapsulation(id) && "cref:" + lab(ann->componentEncapsulation(id).get()) == k;
            else if (pre == "var") ok = ann->variable(id) && "var:" + lab(ann->variable(id).get()) == k;
            else if (pre == "units") ok = ann->units(id) && "units:" + lab(ann->units(id).get()) == k;
            else if (pre == "unit") { auto ui = ann->unitsItem(id); ok = ui && "unit:" + lab(ui->units().get()) + "[" + std::to_string(ui->index()) + "]" == k; }
            else if (pre == "reset") ok = ann->reset(id) && "reset:" + lab(ann->reset(id).get()) == k;
            else if (pre == "tv") ok = ann->testValue(id) && "tv:" + lab(ann->testValue(id).get()) == k;
            else if (pre == "rv") ok = ann->resetValue(id) && "rv:" + lab(ann->resetValue(id).get()) == k;
            else if (pre == "import") ok = ann->importSource(id) && "import:" + lab(ann->importSource(id).get()) == k;
            else if (k == "model") ok = ann->model(id) == cur;
            else if (k == "encap") ok = ann->encapsulation(id) == cur;
            else if (pre == "map") { auto p = ann->mapVariables(id); ok = p && pairKey("map:", lab(p->variable1().get()), lab(p->variable2().get())) == k; }
            else if (pre == "conn") { auto p = ann->connection(id); ok = p && p->variable1() && p->variable2() && pairKey("conn:", lab(compOf(p->variable1())), lab(compOf(p->variable2()))) == k; }
            if (!ok) bad("typed-getter-differs-from-item(id)", {{"id", id}, {"item", k}});
        } else {
            if (d1 != "undefined") bad(n == 0 ? "item(id)-returns-an-object-although-items(id)-is-empty" : "item(id)-returns-an-object-although-items(id)-has-several", {{"id", id}, {"item", d1}});
            if (issuesAfterItem == 0) out.push_back({std::string("C15:unexplained-failure:annotator:item(id):") + (n == 0 ? "unknown-id" : "duplicated-id"), {{"id", id}}});
        }
        for (size_t i = 0; i <= n && fullBattery; ++i) {
            auto x = ann->item(id, i);
            size_t ni = ann->issueCount();
            check("item(id,index)");
            std::string dx = describe(x, L, cur);
            if (i < n && dx != describe(its[i], L, cur)) bad("item(id,index)-differs-from-items(id)[index]", {{"id", id}, {"index", i}, {"item", dx}});
            if (i == n) {
                if (dx != "undefined") bad("item(id,count)-returns-an-object", {{"id", id}, {"item", dx}});
                else if (ni == 0) out.push_back({std::string("C15:unexplained-failure:annotator:item(id,index):index-out-of-range"), {{"id", id}, {"index", i}}});
            }
        }
    }
    Snap t2 = snapshot(cur, L);
    if (!(t2 == t)) out.push_back({"lookup:lookups-modified-the-model:" + situation, {{"pre", t.str()}, {"post", t2.str()}}});
    note(std::string("lookups:") + (judged ? "judged" : "observed-only") + (disagreed ? ":disagree-with-traversal" : ":agree") + (anyDup ? "+duplicate-ids-present" : ""));
}

// Printer::printModel(m, true): unique ids on all elements, model unchanged
void collectIds(xmlNodePtr n, std::map<std::string, int> &ids, std::vector<std::string> &without, bool inMath)
{
    for (; n; n = n->next) {
        if (n->type != XML_ELEMENT_NODE) continue;
        bool math = inMath || (n->ns && n->ns->href && std::string((const char *)n->ns->href) == "http://www.w3.org/1998/Math/MathML");
        if (!math) {
            xmlChar *v = xmlGetNoNsProp(n, BAD_CAST "id");
            if (v && *v) ++ids[(const char *)v];
            else without.push_back((const char *)n->name);
            if (v) xmlFree(v);
        }
        collectIds(n->children, ids, without, math);
    }
}
void judgePrinter(const ModelPtr &m, const Labels &L, const std::string &situation, std::vector<Viol> &out)
{
    Snap pre = snapshot(m, L);
    std::string canonPre = canonModel(m);
    auto printer = Printer::create();
    std::string text = printer->printModel(m, true);
    if (auto x = loggerIncoherence(printer)) out.push_back({"C15:logger-incoherent:printer", {{"what", *x}}});
    Snap post = snapshot(m, L);
    if (!(pre == post) || canonPre != canonModel(m)) out.push_back({"printer:autoIds-modified-the-model:" + situation, {{"pre", pre.str()}, {"post", post.str()}}});
    xmlDocPtr d = xmlReadMemory(text.data(), int(text.size()), "p.xml", nullptr, XML_PARSE_NOERROR | XML_PARSE_NOWARNING | XML_PARSE_NONET);
    if (!d) { out.push_back({"printer:autoIds-output-is-not-xml:" + situation, {{"text", safe(text, 600)}, {"model", pre.str()}}}); return; }
    std::map<std::string, int> ids;
    std::vector<std::string> without;
    collectIds(xmlDocGetRootElement(d), ids, without, false);
    xmlFreeDoc(d);
    if (!without.empty()) out.push_back({"printer:autoIds-element-without-id:" + situation, {{"elements", without}, {"model", pre.str()}, {"text", safe(text, 1500)}}});
    auto mine = pre.idCounts();
    size_t generated = 0;
    for (auto &kv : ids) {
        int have = mine.count(kv.first) ? mine[kv.first] : 0;
        if (kv.second > std::max(1, have)) out.push_back({"printer:autoIds-generated-id-not-unique:" + situation, {{"id", kv.first}, {"in-text", kv.second}, {"in-model", have}, {"model", pre.str()}}});
        if (!have) ++generated;
    }
    note(std::string("printer:autoIds:") + (generated ? "generated-ids" : "nothing-to-generate") + (mine.size() ? "+model-has-ids" : "+model-has-no-ids"));
}

// ------------------------------------------------------------------ the machine
enum Kind { EDIT, ADD, RM, DESTROY, SETMODEL, ASSIGN_ALL, ASSIGN_ALL_M, ASSIGN_IDS, ASSIGN_ID, CLEAR, CLEAR_M };
struct Op
{
    Kind k;
    int a, b;
};

template<int INIT, int ALPHA>
struct AnnWorld
{
    Universe u;
    int cur = -1;          // reference: which model the annotator holds (0: m0, 1: m1, -1: none)
    bool m0Alive = true;
    bool c3In = false, r0In = true, u0In = true, c2In = true, u1In = true;
    bool editedSince = false; // reference: the model was edited after it was last handed to the annotator
    bool lastAssign = false, lastChangedModel = true;
    std::string key;

    static const std::vector<Op> &ops()
    {
        static std::vector<Op> o;
        if (o.empty()) {
            if (ALPHA == 0) {
                for (int c = 0; c < 16; ++c) for (int v = 0; v < 4; ++v) o.push_back({EDIT, c, v});
                for (int c = 16; c < Universe::NCARRIER; ++c) for (int v : {1, 2}) o.push_back({EDIT, c, v}); // below the import: "a" and the next automatic id
                for (int v = 0; v < 2; ++v) o.push_back({ADD, v, 0});
                for (int r = 0; r < 5; ++r) o.push_back({RM, r, 0});
                o.push_back({DESTROY, 0, 0});
                for (int m = 0; m < 3; ++m) o.push_back({SETMODEL, m, 0});
                o.push_back({ASSIGN_ALL, 0, 0});
                for (int m = 0; m < 3; ++m) o.push_back({ASSIGN_ALL_M, m, 0});
                for (int t = 0; t < 15; ++t) o.push_back({ASSIGN_IDS, t, 0});
                for (int i = 0; i < Universe::NITEM; ++i) o.push_back({ASSIGN_ID, i, 0});
                o.push_back({CLEAR, 0, 0});
                for (int m = 0; m < 3; ++m) o.push_back({CLEAR_M, m, 0});
            } else {
                // core alphabet for the deeper search: the carriers the cache treats differently (hash-visible v0/model/unit/is0,
                // hash-invisible mapping/connection), one add, two removes, every assign* shape
                for (int c : {0, 5, 7, 8, 11, 15, 16, 18}) for (int v : {1, 2}) o.push_back({EDIT, c, v}); // 16, 18: component and variable below the import
                o.push_back({EDIT, 5, 0});
                o.push_back({EDIT, 7, 0});
                o.push_back({ADD, 0, 0});
                o.push_back({RM, 1, 0});
                o.push_back({RM, 3, 0});
                for (int m = 0; m < 3; ++m) o.push_back({SETMODEL, m, 0});
                o.push_back({ASSIGN_ALL, 0, 0});
                o.push_back({ASSIGN_ALL_M, 0, 0});
                o.push_back({ASSIGN_ALL_M, 2, 0});
                for (auto t : {CellmlElementType::COMPONENT, CellmlElementType::VARIABLE, CellmlElementType::CONNECTION, CellmlElementType::MAP_VARIABLES, CellmlElementType::IMPORT, CellmlElementType::UNIT, CellmlElementType::MODEL}) o.push_back({ASSIGN_IDS, int(t), 0});
                for (int i : {7, 9, 10, 13, 17, 20, 21, 25, 27}) o.push_back({ASSIGN_ID, i, 0});
                o.push_back({CLEAR, 0, 0});
            }
        }
        return o;
    }
    static int opCount() { return int(ops().size()); }
    static const char *valueName(int v) { static const char *N[] = {"\"\"", "\"a\"", "NEXT-AUTOMATIC-ID", "NEXT-AUTOMATIC-ID+1"}; return N[v]; }
    static const char *modelName(int m) { static const char *N[] = {"m0", "m1", "null"}; return N[m]; }
    static std::string opName(int i)
    {
        const Op &o = ops()[i];
        switch (o.k) {
        case EDIT: return std::string("edit ") + Universe::carrierName(o.a) + " := " + valueName(o.b);
        case ADD: return o.a == 0 ? "m0.addComponent(c3{id=\"a\", variable v2{id=NEXT-AUTOMATIC-ID}})" : "m0.addComponent(c3{no ids, variable v2})";
        case RM: { static const char *N[] = {"m0.removeComponent(c3)", "c0.removeReset(r0)", "m0.removeUnits(u0)", "m0.removeComponent(c2)", "m0.removeUnits(u1)"}; return N[o.a]; }
        case DESTROY: return "destroy m0";
        case SETMODEL: return std::string("setModel(") + modelName(o.a) + ")";
        case ASSIGN_ALL: return "assignAllIds()";
        case ASSIGN_ALL_M: return std::string("assignAllIds(") + modelName(o.a) + ")";
        case ASSIGN_IDS: return std::string("assignIds(") + typeName(CellmlElementType(o.a)) + ")";
        case ASSIGN_ID: return std::string("assignId(") + Universe::itemName(o.a) + ")";
        case CLEAR: return "clearAllIds()";
        case CLEAR_M: return std::string("clearAllIds(") + modelName(o.a) + ")";
        }
        return "?";
    }

    AnnWorld()
    {
        if (INIT == 1) {
            u.m0->setId("a");
            u.c0->setId("a");
            u.v0->setId("b4da55");
            u.u0->setId("b4da56");
            Variable::setEquivalenceConnectionId(u.v0, u.v1, "b4da57");
            u.r0->setTestValueId("a");
            u.is0->setId("b4da58");
            u.c4->setId("a");       // below the imported component
            u.v3->setId("b4da59");
        }
        u.ann->setModel(u.m0);
        cur = 0;
        computeKey();
    }
    ModelPtr model(int m) const { return m == 0 ? u.m0 : m == 1 ? u.m1 : ModelPtr(); }
    ModelPtr curModel() const { return model(cur); }
    std::string value(int v)
    {
        switch (v) {
        case 0: return "";
        case 1: return "a";
        case 2: return viewWorks() ? hexId(view(u.ann)->mCounter) : "b4da55";
        default: return viewWorks() ? hexId(view(u.ann)->mCounter + 1) : "b4da56";
        }
    }
    bool enabled(int i)
    {
        const Op &o = ops()[i];
        switch (o.k) {
        case EDIT: return m0Alive;
        case ADD: return m0Alive && !c3In;
        case RM: return m0Alive && (o.a == 0 ? c3In : o.a == 1 ? r0In : o.a == 2 ? u0In : o.a == 3 ? c2In : u1In);
        case DESTROY: return m0Alive;
        case SETMODEL: case ASSIGN_ALL_M: case CLEAR_M: return o.a != 0 || m0Alive;
        default: return true;
        }
    }
    void computeKey()
    {
        std::string s = "cur=" + std::to_string(cur) + (m0Alive ? "" : " m0-destroyed") + (editedSince ? " edited" : "") + " M0:" + snapshot(u.m0, u.L).str() + " M1:" + snapshot(u.m1, u.L).str();
        if (!c3In) s += " c3{" + u.c3->id() + "," + u.v2->id() + "}"; // ids of the detached component matter when it is added back
        if (viewWorks()) {
            AnnView *v = view(u.ann);
            s += " counter=" + hexId(v->mCounter) + " cache:";
            std::vector<std::string> e;
            for (auto &kv : v->mIdList) e.push_back(kv.first + "/" + std::to_string(int(kv.second->type())));
            std::sort(e.begin(), e.end());
            for (auto &x : e) s += x + ",";
            if (g_hasHash) s += " H" + std::to_string(v->mHash);
        }
        if (g_options.count("fullkey") || g_options.count("history")) { key = s; return; } // replays print the readable state
        // 128-bit digest keeps the explorer's seen-set small
        uint64_t h1 = 1469598103934665603ULL, h2 = std::hash<std::string> {}(s);
        for (unsigned char ch : s) { h1 ^= ch; h1 *= 1099511628211ULL; }
        char b[40];
        snprintf(b, sizeof b, "%016llx%016llx", (unsigned long long)h1, (unsigned long long)h2);
        key = b;
    }
    std::string canon() { return key; }
    std::string situation() const { return editedSince ? "model-edited-after-setModel" : "model-not-edited-after-setModel"; }
    void checkLogger(const char *after, std::vector<Viol> &out)
    {
        if (auto x = loggerIncoherence(u.ann)) out.push_back({"C15:logger-incoherent:annotator", {{"after", after}, {"what", *x}}});
    }
    std::function<bool(CellmlElementType)> all() { return [](CellmlElementType t) { return t != CellmlElementType::MATH && t != CellmlElementType::UNDEFINED; }; }

    void apply(int i, std::vector<Viol> &out)
    {
        const Op &o = ops()[i];
        lastAssign = false;
        Snap pre0 = snapshot(u.m0, u.L), pre1 = snapshot(u.m1, u.L);
        auto preOf = [&](int m) -> const Snap & { return m == 0 ? pre0 : pre1; };
        // an assign* call that must not do anything: neither model may change
        auto judgeRefused = [&](const std::string &label, const std::string &why, const std::string &exempt = "") {
            Snap p0 = snapshot(u.m0, u.L), p1 = snapshot(u.m1, u.L);
            // pre-existing ids of either model must survive (the statement); ids given to objects outside the annotator's
            // model are only counted
            auto cmp = [&](const Snap &a, const Snap &b, const char *which) {
                for (auto &c : a.c) {
                    const Carrier *d = b.find(c.key);
                    if (c.key == exempt) continue;
                    if (!c.id.empty() && d && d->id != c.id) out.push_back({"assign:" + label + ":existing-id-changed-although-the-call-failed:" + why, {{"model", which}, {"carrier", c.key}, {"pre", a.str()}, {"post", b.str()}}});
                    if (c.id.empty() && d && !d->id.empty()) note("assign:" + label.substr(0, label.find('(')) + ":failed-call-still-gave-an-id:" + why);
                }
            };
            cmp(pre0, p0, "m0");
            cmp(pre1, p1, "m1");
        };
        switch (o.k) {
        case EDIT: u.setCarrier(o.a, value(o.b)); editedSince = true; break;
        case ADD:
            if (o.a == 0) { std::string nx = value(2); u.c3->setId("a"); u.v2->setId(nx); }
            else { u.c3->setId(""); u.v2->setId(""); }
            u.m0->addComponent(u.c3);
            c3In = true;
            editedSince = true;
            break;
        case RM:
            switch (o.a) {
            case 0: u.m0->removeComponent(u.c3); c3In = false; break;
            case 1: u.c0->removeReset(u.r0); r0In = false; break;
            case 2: u.m0->removeUnits(u.u0); u0In = false; break;
            case 3: u.m0->removeComponent(u.c2); c2In = false; break;
            case 4: u.m0->removeUnits(u.u1); u1In = false; break;
            }
            editedSince = true;
            break;
        case DESTROY:
            u.m0.reset();
            m0Alive = false;
            if (cur == 0) cur = -1;
            break;
        case SETMODEL:
            u.ann->setModel(model(o.a));
            checkLogger("setModel", out);
            cur = o.a == 2 ? -1 : o.a;
            editedSince = false;
            break;
        case ASSIGN_ALL: {
            lastAssign = true;
            bool r = u.ann->assignAllIds();
            checkLogger("assignAllIds()", out);
            if (cur < 0) {
                if (r) out.push_back({"assign:assignAllIds():returned-true-without-a-model", json::object()});
                if (u.ann->issueCount() == 0) out.push_back({"C15:unexplained-failure:annotator:assignAllIds():no-model", json::object()});
                judgeRefused("assignAllIds()", "no-model");
            } else judgeAssign({"assignAllIds()", all(), "", situation()}, preOf(cur), snapshot(curModel(), u.L), out);
            break;
        }
        case ASSIGN_ALL_M: {
            lastAssign = true;
            ModelPtr m = model(o.a);
            bool r = u.ann->assignAllIds(m);
            checkLogger("assignAllIds(model)", out);
            if (!m) {
                if (r) out.push_back({"assign:assignAllIds(model):returned-true-for-a-null-model", json::object()});
                if (u.ann->issueCount() == 0) out.push_back({"C15:unexplained-failure:annotator:assignAllIds(model):null-model", {{"returned", r}}});
                judgeRefused("assignAllIds(model)", "null-model");
            } else {
                cur = o.a;
                editedSince = false;
                judgeAssign({"assignAllIds(model)", all(), "", situation()}, preOf(cur), snapshot(curModel(), u.L), out);
            }
            break;
        }
        case ASSIGN_IDS: {
            lastAssign = true;
            auto t = CellmlElementType(o.a);
            std::string label = std::string("assignIds(") + typeName(t) + ")";
            bool r = u.ann->assignIds(t);
            checkLogger("assignIds", out);
            if (cur < 0) {
                if (r) out.push_back({"assign:" + label + ":returned-true-without-a-model", json::object()});
                if (u.ann->issueCount() == 0) out.push_back({"C15:unexplained-failure:annotator:assignIds(type):no-model", json::object()});
                judgeRefused(label, "no-model");
            } else judgeAssign({label, [t](CellmlElementType k) { return k == t && t != CellmlElementType::MATH && t != CellmlElementType::UNDEFINED; }, "", situation()}, preOf(cur), snapshot(curModel(), u.L), out);
            break;
        }
        case ASSIGN_ID: {
            lastAssign = true;
            std::string k = Universe::itemKey(o.a);
            std::string label = std::string("assignId(") + Universe::itemKind(o.a) + ")";
            bool member = cur >= 0 && !k.empty() && preOf(cur).find(k) != nullptr && !(o.a <= 1 && cur != 0); // items 0/1 are m0 itself
            std::string id = u.assignItem(o.a);
            checkLogger("assignId", out);
            size_t issues = u.ann->issueCount();
            if (member) {
                Snap post = snapshot(curModel(), u.L);
                judgeAssign({label, [](CellmlElementType) { return false; }, k, situation()}, preOf(cur), post, out);
                const Carrier *c = post.find(k);
                if (id.empty()) out.push_back({"assign:" + label + ":refused-for-an-item-of-the-model:" + situation(), {{"item", Universe::itemName(o.a)}, {"model", post.str()}}});
                else if (c && c->id != id) out.push_back({"assign:" + label + ":returned-id-is-not-the-id-of-the-item:" + situation(), {{"returned", id}, {"carried", c->id}}});
                // the other model is not touched
                Snap other = snapshot(model(1 - cur), u.L);
                if (!(other == preOf(1 - cur))) out.push_back({"assign:" + label + ":other-model-modified:" + situation(), {{"pre", preOf(1 - cur).str()}, {"post", other.str()}}});
            } else {
                std::string why = cur < 0 ? "no-model" : k.empty() ? (o.a == 21 ? ((cur == 0 && u0In) ? "unit-index-out-of-range" : "item-not-in-the-model") : o.a == 24 ? "inconsistent-item" : "null-item") : "item-not-in-the-model";
                // An import source outside the model is given an id BY DESIGN (test Annotator.automaticIdAllItemsWrongModel:
                // "Import sources don't belong to a model so an identifier will be assigned"): the item itself is not judged.
                bool importByDesign = cur >= 0 && std::string(Universe::itemKind(o.a)) == "IMPORT";
                if (importByDesign) why = "import-source-outside-the-model";
                if (!id.empty()) {
                    note("assign:assignId:gave-an-id-to-something-outside-the-model:" + why);
                    // statement-grounded part: the id returned must then be carried by exactly that item -> seen by the lookups
                } else if (issues == 0) out.push_back({"C15:unexplained-failure:annotator:assignId:" + why, {{"item", Universe::itemName(o.a)}}});
                judgeRefused(label, why, importByDesign ? k : std::string());
                if (cur >= 0) {
                    Snap post = snapshot(curModel(), u.L);
                    if (!(post == preOf(cur))) out.push_back({"assign:" + label + ":model-modified-by-a-call-for-a-foreign-item:" + why, {{"pre", preOf(cur).str()}, {"post", post.str()}}});
                }
            }
            break;
        }
        case CLEAR:
            u.ann->clearAllIds();
            checkLogger("clearAllIds()", out);
            if (cur >= 0) {
                Snap post = snapshot(curModel(), u.L);
                for (auto &c : post.c) if (!c.id.empty()) { out.push_back({"clear:clearAllIds():id-survives", {{"carrier", c.key}, {"post", post.str()}}}); break; }
            } else if (u.ann->issueCount() == 0) out.push_back({"C15:unexplained-failure:annotator:clearAllIds():no-model", json::object()});
            break;
        case CLEAR_M: {
            ModelPtr m = model(o.a);
            u.ann->clearAllIds(m);
            checkLogger("clearAllIds(model)", out);
            if (m) {
                cur = o.a;
                editedSince = false;
                Snap post = snapshot(curModel(), u.L);
                for (auto &c : post.c) if (!c.id.empty()) { out.push_back({"clear:clearAllIds(model):id-survives", {{"carrier", c.key}, {"post", post.str()}}}); break; }
            } else {
                // clearAllIds(null): whether the annotator then forgets or keeps its model is not part of the statement (the
                // repository changed this behaviour in acf12c7); the reference follows the implementation. The call fails: issue.
                auto held = u.ann->model();
                cur = (held && held == u.m0) ? 0 : (held && held == u.m1) ? 1 : -1;
                if (u.ann->issueCount() == 0) out.push_back({"C15:unexplained-failure:annotator:clearAllIds(model):null-model", json::object()});
                if (!(snapshot(u.m0, u.L) == pre0) || !(snapshot(u.m1, u.L) == pre1)) out.push_back({"clear:clearAllIds(null-model):modified-a-model", json::object()});
            }
            break;
        }
        }
        // the annotator reports the model the reference believes it holds
        if (u.ann->model() != curModel()) out.push_back({"annotator:model()-is-not-the-model-last-handed-over", {{"op", opName(i)}}});
        if (u.ann->hasModel() != (curModel() != nullptr)) out.push_back({"annotator:hasModel()-disagrees", {{"op", opName(i)}}});
        lastChangedModel = !(snapshot(u.m0, u.L) == pre0) || !(snapshot(u.m1, u.L) == pre1);
        computeKey();
    }

    // observations in the reached state (run once per state, after the key was taken; they may refresh the cache)
    void invariant(std::vector<Viol> &out)
    {
        // Observations are a function of the state (the key covers both models, the reference flags and the annotator's
        // hidden state) and of whether they are judged; within one process each (state, judged) pair is observed once.
        static std::unordered_set<std::string> observed, printed;
        if (m0Alive && lastChangedModel && printed.insert(snapshot(u.m0, u.L).str()).second) judgePrinter(u.m0, u.L, "m0", out);
        if (viewWorks() && !g_options.count("history") && !observed.insert(key + (lastAssign ? "J" : "O")).second) { note("lookups:same-state-already-observed-by-this-worker"); return; }
        ModelPtr cm = curModel();
        if (!cm) {
            // lookups without a model are outside the statement (and Annotator::ids() on an expired model is C09's crash)
            note("lookups:skipped:annotator-has-no-model");
            return;
        }
        judgeLookups(u.ann, cm, u.L, lastAssign, situation(), out);
    }
};

// ------------------------------------------------------------------ machine family wrapper: collapses the violation
// stream (the same class is reached through thousands of histories) and publishes the outcome classes
template<class W>
Family annFamily(const std::string &name, ExploreLimits quick, ExploreLimits thorough)
{
    Family f = machineFamily<W>(name, quick, thorough);
    auto inner = f.run;
    f.run = [inner](uint64_t i, Ctx &c) {
        if (g_options.count("history")) { inner(i, c); return; }
        g_slots = static_cast<Slot *>(mmap(nullptr, sizeof(Slot) * NSLOT, PROT_READ | PROT_WRITE, MAP_SHARED | MAP_ANONYMOUS, -1, 0));
        if (g_slots == MAP_FAILED) g_slots = nullptr;
        const char *s = getenv("VERIF_SCRATCH");
        std::string path = std::string(s ? s : "/verif/build/scratch") + "/c13out." + std::to_string(getpid());
        fflush(stdout);
        int saved = dup(1);
        int fd = open(path.c_str(), O_WRONLY | O_CREAT | O_TRUNC, 0644);
        if (fd >= 0) { dup2(fd, 1); close(fd); }
        uint64_t v0 = c.violations;
        inner(i, c);
        fflush(stdout);
        dup2(saved, 1);
        close(saved);
        std::map<std::string, uint64_t> perSig;
        uint64_t printed = 0, suppressed = 0;
        FILE *in = fopen(path.c_str(), "rb");
        if (in) {
            char *line = nullptr;
            size_t cap = 0;
            ssize_t n;
            while ((n = getline(&line, &cap, in)) > 0) {
                json j = json::parse(line, line + n, nullptr, false);
                if (j.is_discarded() || !j.contains("sig")) { fwrite(line, 1, size_t(n), stdout); continue; }
                uint64_t k = ++perSig[j["sig"].get<std::string>()];
                if (k <= 3) { fwrite(line, 1, size_t(n), stdout); ++printed; } else ++suppressed;
            }
            free(line);
            fclose(in);
        }
        unlink(path.c_str());
        c.violations = v0 + printed;
        c.count("violation_lines_suppressed_as_repeats_of_a_printed_class", suppressed);
        for (auto &kv : perSig) c.count("violating_transitions[" + kv.first + "]", kv.second);
        c.count("hidden_state_view_available", viewWorks() ? 1 : 0);
        c.count("hidden_hash_field_present", g_hasHash ? 1 : 0);
        if (g_slots) {
            for (int p = 0; p < NSLOT; ++p) if (g_slots[p].state == 2) c.outcomes[g_slots[p].name] += g_slots[p].n;
            munmap(g_slots, sizeof(Slot) * NSLOT);
            g_slots = nullptr;
        }
        fflush(stdout);
    };
    return f;
}

// ------------------------------------------------------------------ family preids: all placements of menu ids x every assign* on a fresh annotator
const std::vector<std::string> &menu()
{
    static std::vector<std::string> m = {"a", "b4da55", "b4da56", "b4da58"};
    return m;
}
int preK() { const char *t = getenv("VERIF_TIER"); return (t && std::string(t) == "thorough") ? 2 : 1; }
uint64_t choose(uint64_t n, uint64_t k) { uint64_t r = 1; for (uint64_t i = 0; i < k; ++i) r = r * (n - i) / (i + 1); return r; }
const int NASSIGN = 1 + 1 + 15 + int(Universe::pristineKeys().size()); // assignAllIds(), assignAllIds(model), assignIds(type), assignId(each pristine carrier)
struct PreCase
{
    std::vector<int> carriers; // indices into pristineKeys
    std::vector<int> values;
    int background;            // 0: all other carriers without id, 1: all other carriers with distinct ids x<k>, 2: all others share id "a"
    int assign;
};
uint64_t preCount()
{
    uint64_t n = Universe::pristineKeys().size(), total = 0;
    for (int k = 0; k <= preK(); ++k) { uint64_t c = choose(n, k); for (int j = 0; j < k; ++j) c *= menu().size(); total += c * (k <= 1 ? 3 : 1); }
    return total * NASSIGN;
}
PreCase preDecode(uint64_t i)
{
    PreCase pc;
    Radix r(i);
    pc.assign = int(r.take(NASSIGN));
    pc.background = 0;
    uint64_t rest = r.v, n = Universe::pristineKeys().size();
    for (int k = 0; k <= preK(); ++k) {
        uint64_t c = choose(n, k), vals = 1, nbg = k <= 1 ? 3 : 1; // two placed ids: only on the id-less background (cost)
        for (int j = 0; j < k; ++j) vals *= menu().size();
        if (rest < c * vals * nbg) {
            pc.background = int(rest % nbg);
            rest /= nbg;
            uint64_t comb = rest / vals, vv = rest % vals;
            // unrank the combination (lexicographic)
            std::vector<int> cs;
            int start = 0;
            for (int pos = 0; pos < k; ++pos) {
                for (int x = start; x < int(n); ++x) {
                    uint64_t below = choose(n - x - 1, k - pos - 1);
                    if (comb < below) { cs.push_back(x); start = x + 1; break; }
                    comb -= below;
                }
            }
            pc.carriers = cs;
            for (int j = 0; j < k; ++j) { pc.values.push_back(int(vv % menu().size())); vv /= menu().size(); }
            return pc;
        }
        rest -= c * vals * nbg;
    }
    return pc;
}
std::string preAssignName(int a)
{
    if (a == 0) return "assignAllIds()";
    if (a == 1) return "assignAllIds(model)";
    if (a < 17) return std::string("assignIds(") + typeName(CellmlElementType(a - 2)) + ")";
    return "assignId(" + Universe::pristineKeys()[a - 17] + ")";
}
int itemForKey(const std::string &k)
{
    for (int i = 0; i < Universe::NITEM; ++i) if (Universe::itemKey(i) == k) return i;
    return -1;
}
json preShow(uint64_t i)
{
    PreCase pc = preDecode(i);
    json ids = json::object();
    for (size_t j = 0; j < pc.carriers.size(); ++j) ids[Universe::pristineKeys()[pc.carriers[j]]] = menu()[pc.values[j]];
    static const char *B[] = {"others-without-id", "others-with-distinct-ids", "others-all-\"a\""};
    return {{"placed", ids}, {"background", B[pc.background]}, {"call", preAssignName(pc.assign)}};
}
void preRun(uint64_t i, Ctx &ctx)
{
    PreCase pc = preDecode(i);
    Universe u;
    auto &keys = Universe::pristineKeys();
    if (pc.background) for (size_t k = 0; k < keys.size(); ++k) u.setByKey(keys[k], pc.background == 1 ? "x" + std::to_string(k) : "a");
    for (size_t j = 0; j < pc.carriers.size(); ++j) u.setByKey(keys[pc.carriers[j]], menu()[pc.values[j]]);
    std::vector<Viol> out;
    Snap pre = snapshot(u.m0, u.L);
    std::string label = preAssignName(pc.assign);
    auto allKinds = [](CellmlElementType t) { return t != CellmlElementType::MATH && t != CellmlElementType::UNDEFINED; };
    if (pc.assign == 0) judgePrinter(u.m0, u.L, "m0", out); // the printer depends on the model only: once per placement, on the pre-state
    if (pc.assign != 1) { u.ann->setModel(u.m0); ctx.logger(u.ann, "annotator"); }
    std::string sit = "fresh-annotator";
    if (pc.assign == 0) { (void)u.ann->assignAllIds(); judgeAssign({label, allKinds, "", sit}, pre, snapshot(u.m0, u.L), out); }
    else if (pc.assign == 1) { ModelPtr m = u.m0; (void)u.ann->assignAllIds(m); judgeAssign({label, allKinds, "", sit}, pre, snapshot(u.m0, u.L), out); }
    else if (pc.assign < 17) {
        auto t = CellmlElementType(pc.assign - 2);
        (void)u.ann->assignIds(t);
        judgeAssign({label, [t](CellmlElementType k) { return k == t && t != CellmlElementType::MATH && t != CellmlElementType::UNDEFINED; }, "", sit}, pre, snapshot(u.m0, u.L), out);
    } else {
        const std::string &k = keys[pc.assign - 17];
        std::string kind = k.substr(0, k.find(':'));
        label = "assignId(" + kind + ")";
        std::string id;
        if (k == "cref:c2") id = u.ann->assignId(u.c2, CellmlElementType::COMPONENT_REF);
        else id = u.assignItem(itemForKey(k));
        Snap post = snapshot(u.m0, u.L);
        judgeAssign({label, [](CellmlElementType) { return false; }, k, sit}, pre, post, out);
        const Carrier *c = post.find(k);
        if (id.empty()) out.push_back({"assign:" + label + ":refused-for-an-item-of-the-model:" + sit, {{"model", post.str()}}});
        else if (c && c->id != id) out.push_back({"assign:" + label + ":returned-id-is-not-the-id-of-the-item:" + sit, {{"returned", id}, {"carried", c->id}}});
    }
    ctx.logger(u.ann, "annotator");
    judgeLookups(u.ann, u.m0, u.L, true, sit, out, pc.assign < 17);
    ++ctx.judged;
    size_t withId = 0, dupl = 0;
    for (auto &kv : pre.idCounts()) { withId += size_t(kv.second); if (kv.second > 1) ++dupl; }
    ctx.outcome(std::string(pc.assign < 2 ? "all" : pc.assign < 17 ? "by-type" : "one-item") + (withId == 0 ? ":no-pre-existing-ids" : withId == pre.c.size() ? ":every-carrier-has-an-id" : ":some-pre-existing-ids") + (dupl ? "+duplicates" : "") + (out.empty() ? ":held" : ":VIOLATED"));
    for (auto &v : out) { json d = v.detail; d["case"] = preShow(i); ctx.violation(v.sig, d); }
}

// ------------------------------------------------------------------ family lookupindex: item(id, index) / typed getters with index >= count
constexpr int NTYPED = 14;
// (getter, extra, count, carrier). With exactly one carrier of the id every call aborts the process (genuine defect), so that
// sub-space is thinned: item(id,index) for every carrier, all 14 getters for the carrier var:v0 only.
struct LookupCase { int g, extra, count, k; };
const std::vector<LookupCase> &lookupCases()
{
    static std::vector<LookupCase> c;
    if (c.empty()) {
        int nk = int(Universe::pristineKeys().size());
        for (int k = 0; k < nk; ++k) for (int count = 0; count < 3; ++count) for (int extra = 0; extra < 2; ++extra) for (int g = 0; g < NTYPED; ++g) {
            if (count == 1 && g != 0 && Universe::pristineKeys()[size_t(k)] != "var:v0") continue;
            c.push_back({g, extra, count, k});
        }
    }
    return c;
}
uint64_t lookupIndexCount() { return lookupCases().size(); }
json lookupIndexShow(uint64_t i)
{
    const LookupCase &lc = lookupCases()[i];
    int g = lc.g, extra = lc.extra, count = lc.count, k = lc.k;
    static const char *G[] = {"item", "component", "componentEncapsulation", "connection", "encapsulation", "importSource", "mapVariables", "model", "reset", "resetValue", "testValue", "units", "unitsItem", "variable"};
    return {{"id-carried-by", Universe::pristineKeys()[k]}, {"carriers-with-the-id", count}, {"index", count + extra}, {"getter", std::string(G[g]) + "(id, index)"}};
}
void lookupIndexRun(uint64_t i, Ctx &ctx)
{
    const LookupCase &lc = lookupCases()[i];
    int g = lc.g, extra = lc.extra, count = lc.count, k = lc.k;
    Universe u;
    auto &keys = Universe::pristineKeys();
    bool onSharedImport = false;
    for (int j = 0; j < count; ++j) {
        const std::string &key = keys[(size_t(k) + size_t(j) * 7) % keys.size()];
        u.setByKey(key, "the-id");
        if (key == "import:is0") onSharedImport = true; // the annotator lists the shared import source twice (separate finding)
    }
    u.ann->setModel(u.m0);
    size_t index = size_t(count + extra);
    bool null = true;
    switch (g) {
    case 0: { auto it = u.ann->item("the-id", index); null = !it || it->type() == CellmlElementType::UNDEFINED; break; }
    case 1: null = !u.ann->component("the-id", index); break;
    case 2: null = !u.ann->componentEncapsulation("the-id", index); break;
    case 3: null = !u.ann->connection("the-id", index); break;
    case 4: null = !u.ann->encapsulation("the-id", index); break;
    case 5: null = !u.ann->importSource("the-id", index); break;
    case 6: null = !u.ann->mapVariables("the-id", index); break;
    case 7: null = !u.ann->model("the-id", index); break;
    case 8: null = !u.ann->reset("the-id", index); break;
    case 9: null = !u.ann->resetValue("the-id", index); break;
    case 10: null = !u.ann->testValue("the-id", index); break;
    case 11: null = !u.ann->units("the-id", index); break;
    case 12: null = !u.ann->unitsItem("the-id", index); break;
    case 13: null = !u.ann->variable("the-id", index); break;
    }
    ctx.logger(u.ann, "annotator");
    ++ctx.judged;
    std::string sit = count == 0 ? "unknown-id" : count == 1 ? "unique-id" : "duplicated-id";
    if (onSharedImport) sit += "+id-on-the-shared-import-source";
    ctx.outcome("index>=count:" + sit + (null ? ":nothing-returned" : ":OBJECT-RETURNED"));
    if (!null) ctx.violation("lookup:item(id,index>=count)-returns-an-object:" + sit, lookupIndexShow(i));
    else if (u.ann->issueCount() == 0) ctx.violation("C15:unexplained-failure:annotator:item(id,index):index-out-of-range:" + sit, lookupIndexShow(i));
}

// ------------------------------------------------------------------ family sharing: which imported entities share which ImportSource object
// For ku imported units and kc imported components: EVERY set partition of the ku+kc importing entities (units in units order,
// then components in component order) into ImportSource objects - so S1,S2,S1 / S1,S2,S2,S1 / units-component-units sharing -
// x every subset of the sources carrying an id x {ids distinct, ids shared pairwise by different sources (true duplicates)} x
// {no local entity, a local units and a local component listed between the imported ones} x 5 assign* calls on a fresh annotator.
// Oracles unchanged: judgeAssign + judgeLookups against the traversal, which counts each ImportSource OBJECT once.
struct SharePattern
{
    int ku, kc;
    std::vector<int> block; // restricted growth string over the ku+kc entities
    int blocks;
    uint64_t first; // index of its first case
};
void growPartitions(int n, std::vector<int> &cur, int maxBlock, std::vector<std::vector<int>> &out)
{
    if (int(cur.size()) == n) { out.push_back(cur); return; }
    for (int b = 0; b <= maxBlock + 1; ++b) {
        cur.push_back(b);
        growPartitions(n, cur, std::max(maxBlock, b), out);
        cur.pop_back();
    }
}
constexpr int SHARE_OPS = 5;
const std::vector<SharePattern> &sharePatterns()
{
    static std::vector<SharePattern> pats;
    if (pats.empty()) {
        const char *t = getenv("VERIF_TIER");
        bool thorough = t && std::string(t) == "thorough";
        int maxU = thorough ? 4 : 3, maxC = thorough ? 3 : 2;
        uint64_t at = 0;
        for (int ku = 0; ku <= maxU; ++ku) for (int kc = 0; kc <= maxC; ++kc) {
            if (ku + kc == 0) continue;
            std::vector<std::vector<int>> parts;
            std::vector<int> cur;
            growPartitions(ku + kc, cur, -1, parts);
            for (auto &b : parts) {
                int k = *std::max_element(b.begin(), b.end()) + 1;
                pats.push_back({ku, kc, b, k, at});
                at += (uint64_t(1) << k) * 2 * 2 * SHARE_OPS;
            }
        }
        pats.push_back({0, 0, {}, 0, at}); // sentinel
    }
    return pats;
}
uint64_t shareCount() { return sharePatterns().back().first; }
struct ShareCase
{
    const SharePattern *p;
    uint64_t idMask;
    bool dupIds, local;
    int op;
};
ShareCase shareDecode(uint64_t i)
{
    auto &pats = sharePatterns();
    size_t lo = 0, hi = pats.size() - 1;
    while (hi - lo > 1) { size_t mid = (lo + hi) / 2; if (pats[mid].first <= i) lo = mid; else hi = mid; }
    ShareCase c;
    c.p = &pats[lo];
    Radix r(i - pats[lo].first);
    c.op = int(r.take(SHARE_OPS));
    c.local = r.take(2) == 1;
    c.dupIds = r.take(2) == 1;
    c.idMask = r.take(uint64_t(1) << pats[lo].blocks);
    return c;
}
std::string shareSourceId(const ShareCase &c, int b)
{
    if (!((c.idMask >> b) & 1)) return "";
    return "s" + std::to_string(c.dupIds ? (b / 2) * 2 : b); // dupIds: sources 0,1 share "s0", sources 2,3 share "s2", ...
}
static const char *SHARE_OP[] = {"assignIds(MODEL)", "assignAllIds()", "assignIds(IMPORT)", "assignId(import source of the first importing entity)", "assignAllIds(model)"};
json shareShow(uint64_t i)
{
    ShareCase c = shareDecode(i);
    json ents = json::array();
    for (int e = 0; e < c.p->ku + c.p->kc; ++e) {
        int b = c.p->block[size_t(e)];
        ents.push_back((e < c.p->ku ? "units iu" + std::to_string(e) : "component ic" + std::to_string(e - c.p->ku)) + " <- S" + std::to_string(b) + (shareSourceId(c, b).empty() ? "" : "{id=" + shareSourceId(c, b) + "}"));
    }
    return {{"importing-entities-in-listing-order", ents}, {"local-units-and-component-listed-second", c.local}, {"call", SHARE_OP[c.op]}};
}
void shareRun(uint64_t i, Ctx &ctx)
{
    ShareCase c = shareDecode(i);
    const SharePattern &p = *c.p;
    Labels L;
    auto m = Model::create("share");
    L.add(m.get(), "m");
    std::vector<ImportSourcePtr> src;
    for (int b = 0; b < p.blocks; ++b) {
        auto is = ImportSource::create();
        is->setUrl("lib" + std::to_string(b) + ".cellml");
        is->setId(shareSourceId(c, b));
        L.add(is.get(), "S" + std::to_string(b));
        src.push_back(is);
    }
    std::vector<UnitsPtr> keepU;
    std::vector<ComponentPtr> keepC;
    for (int e = 0; e < p.ku; ++e) {
        auto u = Units::create("iu" + std::to_string(e));
        u->setImportSource(src[size_t(p.block[size_t(e)])]);
        u->setImportReference("lu");
        L.add(u.get(), "U" + std::to_string(e));
        m->addUnits(u);
        keepU.push_back(u);
        if (c.local && e == 0) {
            auto lu = Units::create("local_units");
            lu->addUnit("second");
            L.add(lu.get(), "LU");
            m->addUnits(lu);
            keepU.push_back(lu);
        }
    }
    for (int e = 0; e < p.kc; ++e) {
        auto comp = Component::create("ic" + std::to_string(e));
        comp->setImportSource(src[size_t(p.block[size_t(p.ku + e)])]);
        comp->setImportReference("lc");
        L.add(comp.get(), "C" + std::to_string(e));
        m->addComponent(comp);
        keepC.push_back(comp);
        if (c.local && e == 0) {
            auto lc = Component::create("local_component");
            L.add(lc.get(), "LC");
            m->addComponent(lc);
            keepC.push_back(lc);
        }
    }
    std::vector<Viol> out;
    if (c.op == 0) judgePrinter(m, L, "sharing", out);
    Snap pre = snapshot(m, L);
    auto ann = Annotator::create();
    if (c.op != 4) { ann->setModel(m); ctx.logger(ann, "annotator"); }
    std::string sit = "fresh-annotator:import-sharing";
    auto allKinds = [](CellmlElementType t) { return t != CellmlElementType::MATH && t != CellmlElementType::UNDEFINED; };
    switch (c.op) {
    case 0: (void)ann->assignIds(CellmlElementType::MODEL); judgeAssign({"assignIds(MODEL)", [](CellmlElementType k) { return k == CellmlElementType::MODEL; }, "", sit}, pre, snapshot(m, L), out); break;
    case 1: (void)ann->assignAllIds(); judgeAssign({"assignAllIds()", allKinds, "", sit}, pre, snapshot(m, L), out); break;
    case 2: (void)ann->assignIds(CellmlElementType::IMPORT); judgeAssign({"assignIds(IMPORT)", [](CellmlElementType k) { return k == CellmlElementType::IMPORT; }, "", sit}, pre, snapshot(m, L), out); break;
    case 3: {
        std::string id = ann->assignId(src[0]);
        Snap post = snapshot(m, L);
        judgeAssign({"assignId(IMPORT)", [](CellmlElementType) { return false; }, "import:S0", sit}, pre, post, out);
        const Carrier *cr = post.find("import:S0");
        if (id.empty()) out.push_back({"assign:assignId(IMPORT):refused-for-an-item-of-the-model:" + sit, {{"model", post.str()}}});
        else if (cr && cr->id != id) out.push_back({"assign:assignId(IMPORT):returned-id-is-not-the-id-of-the-item:" + sit, {{"returned", id}, {"carried", cr->id}}});
        break;
    }
    case 4: { ModelPtr mm = m; (void)ann->assignAllIds(mm); judgeAssign({"assignAllIds(model)", allKinds, "", sit}, pre, snapshot(m, L), out); break; }
    }
    ctx.logger(ann, "annotator");
    judgeLookups(ann, m, L, true, sit, out);
    ++ctx.judged;
    int shared = 0, nonAdjacent = 0;
    for (int b = 0; b < p.blocks; ++b) {
        std::vector<int> members;
        for (int e = 0; e < p.ku + p.kc; ++e) if (p.block[size_t(e)] == b) members.push_back(e);
        if (members.size() > 1) ++shared;
        for (size_t k = 1; k < members.size(); ++k) if (members[k] != members[k - 1] + 1) { ++nonAdjacent; break; }
    }
    ctx.outcome(std::string("sharing:") + (shared == 0 ? "no-source-shared" : nonAdjacent ? "shared-by-non-adjacent-entities" : "shared-by-adjacent-entities") + (c.idMask ? (c.dupIds ? ":ids-partly-equal" : ":ids-distinct") : ":no-ids") + ":" + std::vector<std::string>{"assignIds(MODEL)", "assignAllIds", "assignIds(IMPORT)", "assignId(source)", "assignAllIds(model)"}[size_t(c.op)] + (out.empty() ? ":held" : ":VIOLATED"));
    for (auto &v : out) { json d = v.detail; d["case"] = shareShow(i); ctx.violation(v.sig, d); }
}

} // namespace

int main(int argc, char **argv)
{
    ExploreLimits q3, t3, t4;
    q3.maxDepth = 3;
    t3.maxDepth = 3;
    t4.maxDepth = 4;
    q3.maxStates = t3.maxStates = t4.maxStates = 4000000;
    q3.sliceSize = t3.sliceSize = t4.sliceSize = 16;
    ExploreLimits q2 = q3;
    q2.maxDepth = 2;
    std::vector<Family> fs = {
        Family {"preids", preCount, preRun, preShow},
        Family {"lookupindex", lookupIndexCount, lookupIndexRun, lookupIndexShow},
        Family {"sharing", shareCount, shareRun, shareShow},
        annFamily<AnnWorld<0, 0>>("annotator-full-noids", q2, t3),
        annFamily<AnnWorld<1, 0>>("annotator-full-mixedids", q2, t3),
        annFamily<AnnWorld<0, 1>>("annotator-core-noids", q3, t4),
        annFamily<AnnWorld<1, 1>>("annotator-core-mixedids", q3, t4),
    };
    return harnessMain(argc, argv, fs);
}
