// C01 helper: the pipeline driver. Runs every stage on whatever the previous stage returned, including after errors,
// with the C15 Logger invariants after each service call. It does not catch anything: an exception, a sanitizer report,
// a signal or a hang ends the worker and the supervisor turns it into a violation named after the crashing function.
#pragma once
#include "common.hpp"
#include "c01_seeds.hpp"

namespace c01 {
using namespace vf;

enum Stage : unsigned {
    ST_VALIDATE = 1,
    ST_PRINT = 2,
    ST_Q_UNITS = 4,   // isImport/isResolved/requiresImports/isDefined/isBaseUnit on every units
    ST_Q_MODEL = 8,   // hasImports/hasUnresolvedImports/isDefined on the model, isResolved/requiresImports/isDefined on every component
    ST_RESOLVE = 16,  // Importer::resolveImports with the in-memory library
    ST_FLATTEN = 32,  // (implies resolve) Importer::flattenModel, then validate + print the flat model
    ST_ANALYSE = 64,  // Analyser::analyseModel + Generator (C interface/implementation, Python implementation)
    ST_FLAT_ANALYSE = 128, // analyse + generate the flattened model (when the model has imports)
    ST_ALL = 255
};
static const unsigned SINGLE_STAGES[] = {ST_VALIDATE, ST_PRINT, ST_Q_UNITS, ST_Q_MODEL, ST_RESOLVE, ST_FLATTEN, ST_ANALYSE, ST_FLATTEN | ST_FLAT_ANALYSE};
static const char *SINGLE_STAGE_NAMES[] = {"validate", "print", "units-queries", "model-queries", "resolve", "flatten", "analyse+generate", "flatten+analyse-flat"};
static const size_t N_SINGLE = 8;

struct PipeResult
{
    size_t parserErrWarn = 0, parserIssues = 0, validatorErrWarn = 0, validatorIssues = 0;
    std::vector<size_t> docParserErrors; // per document
    bool haveModel = false, resolved = false, flat = false;
    int analyserType = -1, flatAnalyserType = -1;
    size_t codeBytes = 0;
    std::string cls;
    json detail = json::object(); // issue lists, filled only with -v
};

inline size_t errWarn(const LoggerPtr &l) { return l->errorCount() + l->warningCount(); }

inline void queryComponent(const ComponentPtr &c, int depth, uint64_t &acc)
{
    acc += c->isImport() + 2 * c->isResolved() + 4 * c->requiresImports() + 8 * c->isDefined();
    if (depth > 5000) return;
    for (size_t i = 0; i < c->componentCount(); ++i) queryComponent(c->component(i), depth + 1, acc);
}

inline int analyseAndGenerate(Ctx &c, const ModelPtr &m, const char *tag, size_t &codeBytes)
{
    auto an = Analyser::create();
    an->analyseModel(m);
    c.logger(an, tag);
    if (c.verbose) fprintf(stderr, "analyser issues: %s\n", issuesJson(an, 8).dump().c_str());
    auto am = an->model();
    int type = am ? int(am->type()) : -2;
    for (auto prof : {GeneratorProfile::Profile::C, GeneratorProfile::Profile::PYTHON}) {
        auto g = Generator::create();
        g->setProfile(GeneratorProfile::create(prof));
        g->setModel(am);
        std::string a = g->interfaceCode(), b = g->implementationCode();
        codeBytes += a.size() + b.size();
    }
    if (am) {
        for (size_t i = 0; i < am->equationCount(); ++i) {
            auto eq = am->equation(i);
            if (eq) (void)Generator::equationCode(eq->ast());
        }
    }
    return type;
}

// docs[mainDoc] goes through the pipeline; the other documents are the import library (key -> parsed model).
inline PipeResult pipeline(Ctx &c, const std::vector<Doc> &docs, int mainDoc, bool strict, unsigned stages = ST_ALL, bool bothImporters = true)
{
    PipeResult r;
    auto parseAll = [&](std::vector<ModelPtr> &out, bool record) {
        out.clear();
        for (size_t i = 0; i < docs.size(); ++i) {
            auto parser = Parser::create(strict);
            auto m = parser->parseModel(docs[i].text);
            c.logger(parser, "parser");
            if (c.verbose && record) r.detail["parser:" + docs[i].key] = issuesJson(parser);
            out.push_back(m);
            if (record) {
                r.docParserErrors.push_back(parser->errorCount());
                if (int(i) == mainDoc) { r.parserErrWarn = errWarn(parser); r.parserIssues = parser->issueCount(); }
            }
        }
    };
    std::vector<ModelPtr> models;
    parseAll(models, true);
    ModelPtr m = models[mainDoc];
    r.haveModel = m != nullptr;
    r.cls = std::string("p") + (r.parserErrWarn ? "E" : "0");
    if (!m) { r.cls += "|null-model"; return r; }

    if (stages & ST_VALIDATE) {
        auto v = Validator::create();
        v->validateModel(m);
        c.logger(v, "validator");
        r.validatorErrWarn = errWarn(v);
        r.validatorIssues = v->issueCount();
        if (c.verbose) r.detail["validator"] = issuesJson(v);
        r.cls += std::string("|v") + (r.validatorErrWarn ? "E" : "0");
    }
    if (stages & ST_PRINT) {
        auto p = Printer::create();
        std::string s1 = p->printModel(m);
        c.logger(p, "printer");
        std::string s2 = p->printModel(m, true);
        c.logger(p, "printer");
        auto rp = Parser::create(true);
        auto m2 = rp->parseModel(s1); // what the printer wrote goes back into the parser
        c.logger(rp, "parser");
        r.cls += s1.empty() ? "|print-empty" : (rp->errorCount() ? "|reparse-E" : "|reparse-0");
        (void)s2;
        (void)m2;
    }
    if (stages & ST_Q_UNITS) {
        uint64_t acc = 0;
        for (size_t i = 0; i < m->unitsCount(); ++i) {
            auto u = m->units(i);
            acc += u->isImport() + 2 * u->isResolved() + 4 * u->requiresImports() + 8 * u->isDefined() + 16 * u->isBaseUnit();
        }
        c.count("units_queried", m->unitsCount());
        (void)acc;
    }
    if (stages & ST_Q_MODEL) {
        uint64_t acc = m->hasImports() + 2 * m->hasUnresolvedImports() + 4 * m->isDefined();
        for (size_t i = 0; i < m->componentCount(); ++i) queryComponent(m->component(i), 0, acc);
        r.cls += std::string("|") + (m->hasImports() ? "imports" : "noimports") + (m->isDefined() ? "+defined" : "+undefined");
    }
    if (stages & (ST_RESOLVE | ST_FLATTEN)) {
        int passes = bothImporters ? 2 : 1;
        for (int pass = 0; pass < passes; ++pass) {
            bool istrict = pass == 0 ? strict : !strict;
            std::vector<ModelPtr> ms;
            if (pass == 0) ms = models; else parseAll(ms, false); // resolving/flattening may change library models: fresh objects for the second importer
            auto mm = ms[mainDoc];
            if (!mm) continue;
            auto imp = Importer::create(istrict);
            for (size_t i = 0; i < docs.size(); ++i) {
                // the main document is reachable under its own key as well (a document importing from itself / import cycles)
                ModelPtr lib = ms[i];
                if (int(i) == mainDoc) {
                    auto ps = Parser::create(strict);
                    lib = ps->parseModel(docs[i].text);
                }
                if (lib) imp->addModel(lib, docs[i].key);
            }
            bool ok = imp->resolveImports(mm, "/verif-nonexistent-base/");
            c.logger(imp, "importer");
            if (pass == 0) { r.resolved = ok; r.cls += ok ? "|resolved" : "|unresolved"; }
            if (c.verbose) r.detail[std::string("importer-resolve:") + (istrict ? "strict" : "permissive")] = issuesJson(imp);
            if (ok && imp->issueCount() == 0) c.count("resolve_clean");
            if (!ok && imp->issueCount() == 0) c.violation("C15:failure-unexplained:resolveImports-false-without-issue", {{"strict", istrict}});
            if (stages & ST_FLATTEN) {
                auto flat = imp->flattenModel(mm);
                c.logger(imp, "importer");
                if (pass == 0) { r.flat = flat != nullptr; r.cls += flat ? "|flat" : "|noflat"; }
                if (c.verbose) r.detail[std::string("importer-flatten:") + (istrict ? "strict" : "permissive")] = issuesJson(imp);
                if (!flat && imp->issueCount() == 0) c.violation("C15:failure-unexplained:flattenModel-null-without-issue", {{"strict", istrict}});
                if (flat) {
                    auto v = Validator::create();
                    v->validateModel(flat);
                    c.logger(v, "validator");
                    auto p = Printer::create();
                    (void)p->printModel(flat);
                    c.logger(p, "printer");
                    if ((stages & ST_FLAT_ANALYSE) && pass == 0 && mm->hasImports()) {
                        r.flatAnalyserType = analyseAndGenerate(c, flat, "analyser", r.codeBytes);
                        r.cls += "|fa" + std::to_string(r.flatAnalyserType);
                    }
                }
            }
            if (pass == 0) m = mm;
        }
    }
    if (stages & ST_ANALYSE) {
        size_t bytes = 0;
        r.analyserType = analyseAndGenerate(c, m, "analyser", bytes);
        r.codeBytes += bytes;
        r.cls += "|a" + std::to_string(r.analyserType) + (bytes ? "+code" : "");
    }
    return r;
}

} // namespace c01
