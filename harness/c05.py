#!/usr/bin/env python3
"""C05 — analysis classifies every model and variable correctly and consistently.
Family 'graph': every dependency graph (lib/depgraph.py) x placement; inside one case the model is analysed under every
transformation (component / variable / equation order, three renamings) and judged by
 (a) ground truth from construction (model type, role of every variable),
 (b) well-formedness of the valid AnalyserModel,
 (c) invariance of the classification across the transformations,
 (d) values: the generated C and Python are run and compared with the reference values (equation placement, C03).
Family 'variant': under-/over-constrained and otherwise broken variants of every graph (must be classified as such, with an issue).
  --n=2|3   --edges=K (max read edges, n=3 quick)   --prop=C05"""
import os
import re, sys, json, shutil, tempfile
V = os.path.dirname(os.path.dirname(os.path.abspath(__file__)))
sys.path.insert(0, os.path.join(V, 'lib'))
import depgraph as D
import codeexec as X
from pyharness import Family, Lcx, main

TRANSFORMS = [dict(), dict(perm_comp=True), dict(rev_vars=True), dict(rev_eqs=True), dict(perm_comp=True, rev_vars=True, rev_eqs=True),
              dict(rename=1), dict(rename=2), dict(rename=3), dict(rename=4), dict(rename=1, rev_eqs=True, perm_comp=True),
              dict(init_on_twin=True), dict(init_on_twin=True, perm_comp=True, rev_eqs=True),
              dict(pad=1), dict(pad=2, rev_eqs=True)]
PAD_ROLES = {'zpk': 'constant', 'zpc': 'computed_constant', 'zpt': 'algebraic'}


def tname(t):
    return '+'.join('%s=%s' % kv for kv in sorted(t.items())) or 'identity'


def wellformed(res, L, kinds, reads):
    """(b) — returns list of (sig, detail)."""
    out = []
    entries = []
    if res.get('voi'):
        entries.append(('voi', res['voi']))
    entries += [('state', s) for s in res.get('states', [])] + [('variable', s) for s in res.get('variables', [])]
    seen = {}
    for arr, e in entries:
        cls = L.class_of(e['comp'], e['var'])
        if cls is None:
            out.append(('wellformed:entry-is-not-a-model-variable', {'entry': e}))
            continue
        if cls in seen:
            out.append(('wellformed:class-appears-twice', {'class': str(cls), 'entries': [seen[cls], e]}))
        seen[cls] = e
    expected = set(range(L.n)) | ({'t'} if L.has_state else set()) | (({'zpk', 'zpc'} | ({'zpt'} if L.has_state else set())) if L.pad else set())
    for cls in expected - set(seen):
        out.append(('wellformed:class-missing', {'class': str(cls)}))
    for arr in ('states', 'variables'):
        idx = [e['index'] for e in res.get(arr, [])]
        if idx != list(range(len(idx))):
            out.append(('wellformed:%s-indices-not-dense' % arr, {'indices': idx}))
    eqs = res.get('equations', [])
    for arr, e in entries:
        if arr == 'voi':
            continue
        ty = e['type']
        es = [x for x in e['eqs'] if x >= 0]
        if ty in ('state', 'computed_constant', 'algebraic'):
            if not es:
                out.append(('wellformed:computed-variable-without-equation', {'entry': e}))
                continue
            nla = {eqs[x]['nla_index'] for x in es}
            if len(es) > 1 and (len(nla) != 1 or -1 in nla):
                out.append(('wellformed:variable-computed-by-several-unrelated-equations', {'entry': e}))
        for x in es:
            if not any(v['type'] == e['type'] and v['index'] == e['index'] for v in eqs[x]['vars']):
                out.append(('wellformed:equation-does-not-list-its-variable', {'entry': e, 'equation': x}))
    # equation.vars -> variable.eqs
    byti = {(e['type'], e['index']): e for arr, e in entries}
    for x, q in enumerate(eqs):
        for v in q['vars']:
            e = byti.get((v['type'], v['index']))
            if e is None or x not in e['eqs']:
                out.append(('wellformed:variable-does-not-list-its-equation', {'equation': x, 'var': v}))
        for s in q['nla_siblings']:
            if s < 0 or x not in eqs[s]['nla_siblings'] or eqs[s]['nla_index'] != q['nla_index']:
                out.append(('wellformed:nla-siblings-asymmetric', {'equation': x}))
    # dependencies ⊇ equations computing the non-constant variables read
    computing = {}
    for arr, e in entries:
        cls = L.class_of(e['comp'], e['var'])
        for x in e.get('eqs', []):
            if x >= 0:
                computing.setdefault(cls, set()).add(x)
    for i in range(L.n):
        if kinds[i] == 'K' or i not in computing:
            continue
        for x in computing[i]:
            for j in reads[i]:
                if j == 't' or kinds[j] == 'K':
                    continue
                need = computing.get(j, set())
                if kinds[j] == 'S':
                    continue  # a state's value is known; its rate equation is not a prerequisite
                if need and not (need & set(eqs[x]['deps'])) and not (need & {x}):
                    out.append(('wellformed:dependency-missing', {'equation_of': i, 'reads': j, 'deps': eqs[x]['deps'], 'need': sorted(need)}))
    for x, q in enumerate(eqs):
        if x in q['deps']:
            out.append(('wellformed:equation-depends-on-itself', {'equation': x, 'type': q['type']}))
    # non-NLA equations admit a topological order
    color = {}

    def dfs(x):
        color[x] = 1
        for d in eqs[x]['deps']:
            if d < 0 or eqs[d]['type'] == 'ode':
                continue  # a state's value comes from the integrator: its ODE is not an ordering constraint
            if color.get(d) == 1:
                return False
            if d not in color and not dfs(d):
                return False
        color[x] = 2
        return True
    for x in range(len(eqs)):
        if x not in color and eqs[x]['type'] != 'nla':
            if not dfs(x):
                out.append(('wellformed:dependency-cycle-among-direct-equations', {'equation': x}))
                break
    return out


class Runner:
    def __init__(self, opts):
        self.opts = opts
        self.n = int(opts.get('n', '2'))
        self.edges = int(opts['edges']) if 'edges' in opts else None
        self.flavour = opts.get('flavour', 'plain')
        self.lcx = None
        self.tmp = None
        self._cases = None

    def cases(self):
        if self._cases is None:
            cs = []
            for n in range(1, self.n + 1):
                gs = D.graphs(n, self.edges if n == 3 else None)
                for g in gs:
                    for p in D.placements(n):
                        cs.append((g[0], g[1], p))
            self._cases = cs
        return self._cases

    def job(self, j):
        if self.lcx is None:
            self.lcx = Lcx(self.flavour)
        return self.lcx.job(j)

    def work(self):
        if self.tmp is None:
            base = os.path.join(V, 'build', 'scratch')
            os.makedirs(base, exist_ok=True)
            self.tmp = tempfile.mkdtemp(prefix='c05.', dir=base)
        return self.tmp

    def cleanup(self):
        if self.lcx:
            self.lcx.close()
        if self.tmp:
            shutil.rmtree(self.tmp, ignore_errors=True)


def check_values(r, res, L, kinds, reads, report, ext=None):
    """(d) run generated C and Python; compare with reference values."""
    ref = D.values(kinds, reads)
    idx = {}
    for arr in ('states', 'variables'):
        for e in res.get(arr, []):
            idx[L.class_of(e['comp'], e['var'])] = (arr, e['index'])
    # second evaluation point: the integrator moved the states (same voi), then only computeVariables runs; every variable
    # must match the equations at the NEW states (rates are not recomputed by that call and are not compared)
    second = None
    ref2 = None
    cur = {'ref': ref}
    if 'S' in kinds and all(i in idx for i in range(L.n) if kinds[i] == 'S'):
        ref2 = D.values(kinds, reads, init=D.INIT2)
        second = {'states': {idx[i][1]: D.INIT2[i] for i in range(L.n) if kinds[i] == 'S'}, 'before': lambda: cur.update(ref=ref2)}

    def nla(obj, u, n, arrays):
        sent = [98765.4321 + 7 * i for i in range(n)]
        obj(sent)
        vs = list(arrays['variables'])
        want = []
        for sv in sent:
            hit = [i for i, x in enumerate(vs) if x == sv]
            cls = next((c for c, (a, ix) in idx.items() if a == 'variables' and hit and ix == hit[0]), None)
            want.append(cur['ref'][cls] if cls is not None and not isinstance(cur['ref'].get(cls), tuple) else float('nan'))
        f = obj(want)
        for fi in f:
            if not abs(fi) <= 1e-9:
                report('values:nla-objective-nonzero-at-solution', {'f': repr(fi)})
        return want
    outs = {}
    cdir = None
    try:
        so, cdir = X.compile_c(res['c_h'], res['c_c'], r.work(), 'g', strict=False)
        cur['ref'] = ref
        outs['C'] = X.CRun(so, res['c_h']).run(voi=D.VOI, nla=nla, second=second)
    except X.CompileError as ce:
        report('values:c-does-not-compile', {'diagnostics': ce.diag[:800]})
    except Exception as ex:
        report('values:C-run-raised:%s' % type(ex).__name__, {'error': str(ex)[:300]})
    try:
        cur['ref'] = ref
        outs['Python'] = X.PyRun(res['py']).run(voi=D.VOI, nla=nla, second=second)
    except Exception as ex:
        report('values:Python-run-raised:%s' % type(ex).__name__, {'error': str(ex)[:300]})
    if cdir:
        shutil.rmtree(cdir, ignore_errors=True)
    for prof, o in outs.items():
        for i in range(L.n):
            if i not in idx:
                continue
            arr, ix = idx[i]
            if kinds[i] == 'S':
                got_s, got_r = o['states'][ix], o['rates'][ix]
                if not X.close(got_s, ref[i][0]) or not X.close(got_r, ref[i][1]):
                    report('values:%s:state-or-rate-wrong:%s' % (prof, kinds[i]), {'var': i, 'got': [repr(got_s), repr(got_r)], 'want': [repr(x) for x in ref[i]]})
            else:
                got = o[arr][ix]
                if not X.close(got, ref[i]):
                    report('values:%s:value-wrong:%s' % (prof, kinds[i]), {'var': i, 'got': repr(got), 'want': repr(ref[i])})
                elif ref2 is not None and 'second' in o and not X.close(o['second'][arr][ix], ref2[i]):
                    report('values:%s:stale-after-the-states-moved:%s' % (prof, kinds[i]), {'var': i, 'got': repr(o['second'][arr][ix]), 'want': repr(ref2[i]), 'at-first-point': repr(got)})


def families(opts):
    r = Runner(opts)

    def run_graph(ci, ctx):
        kinds, reads, place = r.cases()[ci]
        roles, mtype = D.truth(kinds, reads)
        summary = {}
        desc = {'kinds': ''.join(kinds), 'reads': [sorted(map(str, x)) for x in reads], 'place': list(place)}

        def rep(sig, det, t):
            d = dict(det)
            d.update(graph=desc, transform=tname(t))
            ctx.violation(sig if sig.startswith('C15:') else 'graph:' + sig, d)
        for t in TRANSFORMS:
            if len(set(place)) == 1 and (t.get('perm_comp') and len(t) == 1 or t.get('rename') in (2, 3, 4) or t.get('init_on_twin')):
                continue  # no second component / no twins: the transformation is the identity
            if r.opts.get('onlypad') == '1' and t and not t.get('pad'):
                continue  # (maintenance option: identity and padding only)
            if t.get('pad') and not (r.opts.get('pad') == '1' or 'G' in kinds or 'C' in kinds):
                continue  # padding: everywhere in the quick tier; in the thorough tier on the graphs with guessed unknowns / coupled systems
            L = D.Layout(kinds, reads, place, **t)
            job = {'id': ci, 'doc': L.render(), 'code': not t, 'ast': False}
            if not t:
                # afterwards: the same equations listed in the opposite order on the SAME model object, analysed again with the same
                # analyser, generated with the same generator - must equal what fresh instances produce
                job['regen_math'] = dict(re.findall(r'<component name="([^"]+)">.*?(<math .*?</math>)', D.Layout(kinds, reads, place, rev_eqs=True).render(), re.S))
            res = r.job(job)
            ctx.judged += 1
            rg = res.get('regen')
            if rg is not None:
                if rg.get('type_reused_analyser') != rg.get('type_fresh_analyser') or not rg.get('issues_same', True):
                    rep('history:reused-analyser-differs-from-fresh-analyser-after-the-model-was-edited', {k: rg.get(k) for k in ('type_reused_analyser', 'type_fresh_analyser')}, t)
                for k in ('c_h_same', 'c_c_same', 'py_same'):
                    if rg.get(k) is False:
                        rep('history:reused-generator-differs-from-fresh-generator-after-the-model-was-edited:' + k[:-5], {}, t)
            if 'crash' in res:
                rep('pipeline-crash:' + res['crash'], {'stderr_tail': res.get('stderr', '')}, t)
                continue
            for x in res.get('c15', []):
                rep('C15:logger-incoherent:' + x['service'], x, t)
            if res.get('parse_issues') or res.get('validate_errors'):
                rep('harness-generated-invalid-document', {'issues': (res.get('parse_issues') or []) + (res.get('validate_issues') or [])}, t)
                continue
            ty = res.get('type')
            ctx.outcome('%s:%s' % (mtype, ty))
            if ty != mtype or not res.get('valid'):
                rep('truth:model-type:%s-classified-as-%s' % (mtype, ty), {'issues': [i for i in res.get('analyse_issues', []) if i['level'] == 'ERROR'][:3]}, t)
                summary[tname(t)] = ('type', ty)
                continue
            got = {}
            for arr, lst in (('state', res.get('states', [])), ('variable', res.get('variables', []))):
                for e in lst:
                    got[L.class_of(e['comp'], e['var'])] = e['type']
            if res.get('voi'):
                got[L.class_of(res['voi']['comp'], res['voi']['var'])] = res['voi']['type']
            for pcls, prole in PAD_ROLES.items():
                if pcls in got and got[pcls] != prole:
                    rep('truth:role:unrelated-%s-classified-as-%s' % (prole, got[pcls]), {}, t)
            got = {k: v for k, v in got.items() if k not in PAD_ROLES}   # what the others are must not depend on the padding
            for i in range(L.n):
                if got.get(i) not in roles[i]:
                    rep('truth:role:%s(%s)-classified-as-%s' % (kinds[i], '|'.join(sorted(roles[i])), got.get(i)), {'var': i}, t)
            if L.has_state and got.get('t') != 'variable_of_integration':
                rep('truth:voi-classified-as-%s' % got.get('t'), {}, t)
            for sig, det in wellformed(res, L, kinds, reads):
                rep(sig, det, t)
            summary[tname(t)] = (ty, tuple(sorted((str(k), v) for k, v in got.items())))
            if not t:
                check_values(r, res, L, kinds, reads, lambda s, d: rep(s, d, t))
        vals = set(summary.values())
        if len(vals) > 1:
            rep('invariance:classification-changes-under-reordering-or-renaming', {'by_transform': {k: str(v) for k, v in summary.items()}}, {})

    VARIANTS = ['drop_eq', 'dup_eq', 'drop_init']

    def variant_cases():
        out = []
        for ci, (kinds, reads, place) in enumerate(r.cases()):
            for i in range(len(kinds)):
                for v in VARIANTS:
                    if v in ('drop_eq', 'dup_eq') and kinds[i] == 'K':
                        continue
                    if v == 'drop_init' and kinds[i] != 'S':
                        continue
                    out.append((ci, v, i))
        return out
    vc = []

    def vcases():
        if not vc:
            vc.extend(variant_cases())
        return vc

    def run_variant(vi, ctx):
        ci, v, i = vcases()[vi]
        kinds, reads, place = r.cases()[ci]
        L = D.Layout(kinds, reads, place, **{v: i})
        res = r.job({'id': vi, 'doc': L.render(), 'code': True})
        ctx.judged += 1
        desc = {'kinds': ''.join(kinds), 'reads': [sorted(map(str, x)) for x in reads], 'place': list(place), 'variant': v, 'var': i}
        if 'crash' in res:
            ctx.violation('variant:pipeline-crash:' + res['crash'], {'graph': desc, 'stderr_tail': res.get('stderr', '')})
            return
        for x in res.get('c15', []):
            ctx.violation('C15:logger-incoherent:' + x['service'], x)
        if res.get('parse_issues') or res.get('validate_errors'):
            ctx.violation('variant:harness-generated-invalid-document', {'graph': desc, 'issues': res.get('validate_issues')})
            return
        ty = res.get('type')
        # expected: dropping the only definition of a variable leaves it unknown -> underconstrained, unless something else still
        # determines it; duplicating an equation -> overconstrained; a state without initial value -> underconstrained
        want = {'drop_eq': {'underconstrained'}, 'dup_eq': {'overconstrained'}, 'drop_init': {'underconstrained'}}[v]
        if v == 'drop_eq' and kinds[i] == 'S':
            want = {'underconstrained', 'algebraic', 'ode', 'nla', 'dae'}  # an initialised variable without its ODE is a constant: the model may stay valid
        if v == 'dup_eq' and any(j != 't' and kinds[j] == 'K' for j in reads[i]):
            # the copy can be read as an implicit equation for the initialised variable it mentions (initial value = initial guess):
            # CellML has no way to tell a constant from a guess, so a valid NLA/DAE reading is accepted as well
            want = want | {'nla', 'dae'}
        if v == 'drop_eq' and kinds[i] in 'GC':
            want = {'underconstrained', 'algebraic', 'ode', 'nla', 'dae'}  # an initialised variable without its equation is a constant
        if v == 'dup_eq' and kinds[i] in 'NGC':
            want = {'overconstrained', 'nla', 'dae', 'unsuitably_constrained'}  # two copies of one implicit equation: documented nowhere; not judged strictly
        ctx.outcome('%s:%s' % (v, ty))
        if ty not in want:
            ctx.violation('variant:%s:%s-classified-as-%s' % (v, kinds[i], ty), {'graph': desc})
        if ty in ('underconstrained', 'overconstrained', 'unsuitably_constrained', 'invalid'):
            if not res.get('analyse_issues'):
                ctx.violation('C15:failure-not-explained:analyser', {'graph': desc, 'type': ty})
            for k in ('c_h', 'c_c', 'py'):
                if res.get(k):
                    ctx.violation('variant:code-generated-for-invalid-model', {'graph': desc, 'which': k})

    # ---- two independent defects at once: under + over -> unsuitably constrained, under + under -> under
    v2 = []

    def v2cases():
        if v2:
            return v2
        for ci, (kinds, reads, place) in enumerate(r.cases()):
            n = len(kinds)
            if 'G' in kinds or 'C' in kinds:
                continue
            # undirected connectivity through reads: the two defects must sit in unrelated parts of the model
            adj = {i: set() for i in range(n)}
            for i in range(n):
                for j in reads[i]:
                    if j != 't' and j != i:
                        adj[i].add(j); adj[j].add(i)

            def comp_of(i):
                seen, todo = {i}, [i]
                while todo:
                    x = todo.pop()
                    for y in adj[x]:
                        if y not in seen:
                            seen.add(y); todo.append(y)
                return seen
            strict_drop = [i for i in range(n) if kinds[i] in 'EN']
            strict_dup = [i for i in range(n) if kinds[i] in 'ES' and not any(j != 't' and kinds[j] == 'K' for j in reads[i])]
            strict_init = [i for i in range(n) if kinds[i] == 'S']
            for (ka, la), (kb, lb), want in ((('drop_eq', strict_drop), ('dup_eq', strict_dup), 'unsuitably_constrained'),
                                             (('drop_init', strict_init), ('dup_eq', strict_dup), 'unsuitably_constrained'),
                                             (('drop_eq', strict_drop), ('drop_init', strict_init), 'underconstrained')):
                for a_ in la:
                    for b_ in lb:
                        if a_ != b_ and b_ not in comp_of(a_):
                            v2.append((ci, {ka: a_, kb: b_}, want))
        return v2

    def run_variant2(vi, ctx):
        ci, kw, want = v2cases()[vi]
        kinds, reads, place = r.cases()[ci]
        desc = {'kinds': ''.join(kinds), 'reads': [sorted(map(str, x)) for x in reads], 'place': list(place), 'defects': kw}
        seen = set()
        for t in ({}, {'rev_eqs': True}, {'rev_vars': True, 'perm_comp': True}):
            if len(set(place)) == 1 and t.get('perm_comp'):
                t = {'rev_vars': True}
            kk = dict(kw)
            kk.update(t)
            L = D.Layout(kinds, reads, place, **kk)
            res = r.job({'id': vi, 'doc': L.render(), 'code': True})
            ctx.judged += 1
            if 'crash' in res:
                ctx.violation('variant2:pipeline-crash:' + res['crash'], {'graph': desc, 'stderr_tail': res.get('stderr', '')})
                return
            for x in res.get('c15', []):
                ctx.violation('C15:logger-incoherent:' + x['service'], x)
            if res.get('parse_issues') or res.get('validate_errors'):
                ctx.violation('variant2:harness-generated-invalid-document', {'graph': desc, 'issues': res.get('validate_issues')})
                return
            ty = res.get('type')
            seen.add(ty)
            ctx.outcome('%s:%s' % ('+'.join(sorted(kw)), ty))
            if ty != want:
                ctx.violation('variant2:%s:classified-as-%s-expected-%s' % ('+'.join(sorted(kw)), ty, want), {'graph': desc, 'transform': tname(t)})
            if not res.get('analyse_issues'):
                ctx.violation('C15:failure-not-explained:analyser', {'graph': desc, 'type': ty})
            for k in ('c_h', 'c_c', 'py'):
                if res.get(k):
                    ctx.violation('variant:code-generated-for-invalid-model', {'graph': desc, 'which': k})
        if len(seen) > 1:
            ctx.violation('variant2:classification-changes-under-reordering', {'graph': desc, 'types': sorted(map(str, seen))})

    def show_variant2(vi):
        ci, kw, want = v2cases()[vi]
        kinds, reads, place = r.cases()[ci]
        return {'kinds': ''.join(kinds), 'reads': [sorted(map(str, x)) for x in reads], 'place': list(place), 'defects': kw, 'expected': want,
                'document': D.Layout(kinds, reads, place, **kw).render()}

    def show_graph(ci):
        kinds, reads, place = r.cases()[ci]
        return {'kinds': ''.join(kinds), 'reads': [sorted(map(str, x)) for x in reads], 'place': list(place), 'truth': [sorted(x) for x in D.truth(kinds, reads)[0]],
                'model_type': D.truth(kinds, reads)[1], 'document': D.Layout(kinds, reads, place).render()}

    # ---- C17: one class carries a name, a units name and a component name longer than everything else in the model
    ncs = []

    def name_cases():
        if not ncs:
            for ci, (kinds, reads, place) in enumerate(r.cases()):
                for cls in list(range(len(kinds))) + (['t'] if 'S' in kinds else []):
                    ncs.append((ci, cls))
        return ncs

    def run_names(ni, ctx):
        sys.path.insert(0, os.path.join(V, 'harness'))
        import c03
        ci, cls = name_cases()[ni]
        kinds, reads, place = r.cases()[ci]
        L = D.Layout(kinds, reads, place, long=cls)
        res = r.job({'id': ni, 'doc': L.render(), 'code': True, 'ast': True})
        ctx.judged += 1
        desc = {'kinds': ''.join(kinds), 'reads': [sorted(map(str, x)) for x in reads], 'place': list(place), 'long_class': str(cls)}
        if 'crash' in res:
            ctx.violation('names:pipeline-crash:' + res['crash'], {'graph': desc})
            return
        if res.get('parse_issues') or res.get('validate_errors') or not res.get('valid'):
            ctx.outcome('names:model-not-valid(not judged here):%s' % res.get('type'))
            return
        ctx.outcome('names:%s:long=%s' % (res.get('type'), 't' if cls == 't' else kinds[cls]))
        run03 = c03.Runner({'prop': 'C17'})
        crun = prun = None
        cdir = None
        try:
            so, cdir = X.compile_c(res['c_h'], res['c_c'], r.work(), 'n', strict=True)
            crun = X.CRun(so, res['c_h'])
        except X.CompileError as ce:
            if 'findRoot' in ce.diag and 'undeclared' in ce.diag:
                ctx.violation('graph:values:c-does-not-compile', {'diagnostics': ce.diag[:600], 'graph': desc})
            else:
                ctx.violation('names:structure:c-does-not-compile-cleanly', {'diagnostics': ce.diag[:1000], 'graph': desc})
        try:
            prun = X.PyRun(res['py'])
        except Exception as ex:
            ctx.violation('names:structure:python-does-not-load:%s' % type(ex).__name__, {'error': str(ex)[:300], 'graph': desc})
        for kk, sig, det in run03.structure(res, crun, prun):
            d = dict(det)
            d['graph'] = desc
            ctx.violation('names:%s:%s-model:long=%s' % (sig, res.get('type'), 't' if cls == 't' else kinds[cls]), d)
        if cdir:
            shutil.rmtree(cdir, ignore_errors=True)

    import atexit
    atexit.register(r.cleanup)
    return [Family('names', lambda: len(name_cases()), run_names, lambda ni: {'long_class': str(name_cases()[ni][1]), 'graph': show_graph(name_cases()[ni][0])}),
            Family('graph', lambda: len(r.cases()), run_graph, show_graph),
            Family('variant', lambda: len(vcases()), run_variant, lambda vi: {'variant': vcases()[vi][1], 'var': vcases()[vi][2], 'graph': show_graph(vcases()[vi][0])}),
            Family('variant2', lambda: len(v2cases()), run_variant2, show_variant2)]


if __name__ == '__main__':
    sys.exit(main(families))
