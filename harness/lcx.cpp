// FLAVOURS: asan plain
// lcx — the pipeline driver (DESIGN §2.2): JSON-lines jobs on stdin, one JSON line per job on stdout.
//   job: {"id":…, "doc": "<xml>", "mode": "strict"|"permissive", "ext": [{"comp":…,"var":…,"deps":[{"comp":…,"var":…}]}],
//         "lib": {"url": "<xml>", …}, "flatten": bool, "code": bool, "ast": bool}
// Stages: parse → validate → (resolve+flatten) → analyse (with external variables) → generate C (.h/.c) and Python.
// The C15 Logger-coherence checker runs after every service call; incoherences come back under "c15".
#include "common.hpp"
#include <iostream>

using namespace vf;

static const char *AST_NAMES[] = {"EQUALITY", "EQ", "NEQ", "LT", "LEQ", "GT", "GEQ", "AND", "OR", "XOR", "NOT", "PLUS", "MINUS", "TIMES", "DIVIDE", "POWER", "ROOT", "ABS", "EXP", "LN", "LOG", "CEILING", "FLOOR", "MIN", "MAX", "REM", "DIFF",
                                  "SIN", "COS", "TAN", "SEC", "CSC", "COT", "SINH", "COSH", "TANH", "SECH", "CSCH", "COTH", "ASIN", "ACOS", "ATAN", "ASEC", "ACSC", "ACOT", "ASINH", "ACOSH", "ATANH", "ASECH", "ACSCH", "ACOTH",
                                  "PIECEWISE", "PIECE", "OTHERWISE", "CI", "CN", "DEGREE", "LOGBASE", "BVAR", "TRUE", "FALSE", "E", "PI", "INF", "NAN"};

static std::string compOf(const VariablePtr &v)
{
    auto p = v ? std::dynamic_pointer_cast<Component>(v->parent()) : nullptr;
    return p ? p->name() : "";
}
static json varRefJson(const VariablePtr &v)
{
    if (!v) return nullptr;
    return json{{"comp", compOf(v)}, {"var", v->name()}};
}
static json astJson(const AnalyserEquationAstPtr &a, int depth = 0)
{
    if (!a || depth > 200) return nullptr;
    json j = json::array();
    int t = int(a->type());
    j.push_back(t >= 0 && t < int(sizeof AST_NAMES / sizeof *AST_NAMES) ? AST_NAMES[t] : "?");
    if (a->type() == AnalyserEquationAst::Type::CI) j.push_back(varRefJson(a->variable()));
    else if (a->type() == AnalyserEquationAst::Type::CN) j.push_back(a->value());
    auto l = a->leftChild(), r = a->rightChild();
    if (l || r) { j.push_back(astJson(l, depth + 1)); j.push_back(astJson(r, depth + 1)); }
    return j;
}
static ComponentPtr findComp(const ComponentEntityPtr &e, const std::string &name, int depth = 0)
{
    for (size_t i = 0; i < e->componentCount(); ++i) {
        auto c = e->component(i);
        if (c->name() == name) return c;
        if (depth < 64) if (auto r = findComp(c, name, depth + 1)) return r;
    }
    return nullptr;
}
static VariablePtr findVar(const ModelPtr &m, const json &ref)
{
    if (!m || !ref.is_object()) return nullptr;
    auto c = findComp(m, ref.value("comp", ""));
    return c ? c->variable(ref.value("var", "")) : nullptr;
}
static json avJson(const AnalyserVariablePtr &v, const std::map<AnalyserEquation *, size_t> &eqIdx)
{
    json j = {{"type", AnalyserVariable::typeAsString(v->type())}, {"index", v->index()}, {"comp", compOf(v->variable())}, {"var", v->variable() ? v->variable()->name() : ""},
              {"units", v->variable() && v->variable()->units() ? v->variable()->units()->name() : ""}, {"init", varRefJson(v->initialisingVariable())}};
    json e = json::array();
    for (size_t i = 0; i < v->equationCount(); ++i) { auto it = eqIdx.find(v->equation(i).get()); e.push_back(it == eqIdx.end() ? -1 : int(it->second)); }
    j["eqs"] = e;
    return j;
}

static json runJob(const json &job)
{
    json out = {{"id", job.value("id", json())}};
    if (job.value("nomodel", false)) {
        auto g = Generator::create();
        if (job.value("nullmodel", false)) g->setModel(nullptr);
        out["c_h"] = g->interfaceCode();
        out["c_c"] = g->implementationCode();
        g->setProfile(GeneratorProfile::create(GeneratorProfile::Profile::PYTHON));
        out["py_h"] = g->interfaceCode();
        out["py"] = g->implementationCode();
        return out;
    }
    json c15 = json::array();
    auto chk = [&](const LoggerPtr &l, const char *svc) { if (auto x = loggerIncoherence(l)) c15.push_back({{"service", svc}, {"what", *x}}); };
    auto parser = Parser::create(job.value("mode", std::string("strict")) != "permissive");
    ModelPtr m = parser->parseModel(job.value("doc", std::string()));
    chk(parser, "parser");
    out["parse_issues"] = issuesJson(parser);
    if (!m) { out["null_model"] = true; out["c15"] = c15; return out; }
    auto validator = Validator::create();
    validator->validateModel(m);
    chk(validator, "validator");
    out["validate_issues"] = issuesJson(validator);
    out["validate_errors"] = validator->errorCount();
    ModelPtr work = m;
    if (job.contains("lib") || job.value("flatten", false)) {
        auto importer = Importer::create(job.value("mode", std::string("strict")) != "permissive");
        if (job.contains("lib")) for (auto it = job["lib"].begin(); it != job["lib"].end(); ++it) {
            auto p2 = Parser::create();
            auto lm = p2->parseModel(it.value().get<std::string>());
            if (lm) importer->addModel(lm, it.key());
        }
        std::string before = canonModel(m);
        bool ok = importer->resolveImports(m, job.value("base", std::string("")));
        chk(importer, "importer.resolve");
        out["resolve_ok"] = ok;
        out["resolve_issues"] = issuesJson(importer);
        out["unresolved_after"] = m->hasUnresolvedImports();
        std::vector<std::string> libBefore;
        for (size_t i = 0; i < importer->libraryCount(); ++i) libBefore.push_back(canonModel(importer->library(i)));
        if (job.value("flatten", false)) {
            std::string pre = canonModel(m);
            auto flat = importer->flattenModel(m);
            chk(importer, "importer.flatten");
            out["flatten_issues"] = issuesJson(importer);
            out["flat_null"] = flat == nullptr;
            out["arg_unchanged_by_flatten"] = canonModel(m) == pre;
            bool libSame = true;
            for (size_t i = 0; i < importer->libraryCount() && i < libBefore.size(); ++i) if (canonModel(importer->library(i)) != libBefore[i]) { libSame = false; out["lib_changed_key"] = importer->key(i); }
            out["lib_unchanged_by_flatten"] = libSame;
            if (flat) {
                out["flat_has_imports"] = flat->hasImports();
                out["flat_canon"] = canonModel(flat);
                auto v2 = Validator::create();
                v2->validateModel(flat);
                chk(v2, "validator(flat)");
                out["flat_validate_issues"] = issuesJson(v2);
                out["flat_validate_errors"] = v2->errorCount();
                out["flat_doc"] = Printer::create()->printModel(flat);
                work = flat;
            } else { out["c15"] = c15; return out; }
        }
    }
    auto an = Analyser::create();
    json extRes = json::array();
    if (job.contains("ext")) for (auto &e : job["ext"]) {
        VariablePtr v = e.value("foreign", false) ? Variable::create(e.value("var", "foreign")) : findVar(work, e);
        auto ev = AnalyserExternalVariable::create(v);
        json deps = json::array();
        if (e.contains("deps")) for (auto &d : e["deps"]) {
            VariablePtr dv = d.value("foreign", false) ? Variable::create("foreign_dep") : findVar(work, d);
            deps.push_back(ev->addDependency(dv));
        }
        bool added = an->addExternalVariable(ev);
        extRes.push_back({{"found", v != nullptr}, {"added", added}, {"deps_added", deps}});
    }
    out["ext_result"] = extRes;
    std::string preAn = canonModel(work);
    an->analyseModel(work);
    chk(an, "analyser");
    out["analyse_issues"] = issuesJson(an, 200);
    out["arg_unchanged_by_analyse"] = canonModel(work) == preAn;
    auto am = an->model();
    if (!am) { out["no_analyser_model"] = true; out["c15"] = c15; return out; }
    out["type"] = AnalyserModel::typeAsString(am->type());
    out["valid"] = am->isValid();
    std::map<AnalyserEquation *, size_t> eqIdx;
    for (size_t i = 0; i < am->equationCount(); ++i) eqIdx[am->equation(i).get()] = i;
    if (am->voi()) out["voi"] = avJson(am->voi(), eqIdx);
    json st = json::array(), vs = json::array(), es = json::array();
    for (size_t i = 0; i < am->stateCount(); ++i) st.push_back(avJson(am->state(i), eqIdx));
    for (size_t i = 0; i < am->variableCount(); ++i) vs.push_back(avJson(am->variable(i), eqIdx));
    for (size_t i = 0; i < am->equationCount(); ++i) {
        auto e = am->equation(i);
        json j = {{"type", AnalyserEquation::typeAsString(e->type())}, {"nla_index", e->nlaSystemIndex() == size_t(-1) ? -1 : long(e->nlaSystemIndex())}, {"state_rate_based", e->isStateRateBased()}};
        json deps = json::array(), sib = json::array(), evs = json::array();
        for (size_t k = 0; k < e->dependencyCount(); ++k) { auto it = eqIdx.find(e->dependency(k).get()); deps.push_back(it == eqIdx.end() ? -1 : int(it->second)); }
        for (size_t k = 0; k < e->nlaSiblingCount(); ++k) { auto it = eqIdx.find(e->nlaSibling(k).get()); sib.push_back(it == eqIdx.end() ? -1 : int(it->second)); }
        for (size_t k = 0; k < e->variableCount(); ++k) { auto v = e->variable(k); evs.push_back({{"type", AnalyserVariable::typeAsString(v->type())}, {"index", v->index()}}); }
        j["deps"] = deps;
        j["nla_siblings"] = sib;
        j["vars"] = evs;
        if (job.value("ast", false)) j["ast"] = astJson(e->ast());
        es.push_back(j);
    }
    out["states"] = st;
    out["variables"] = vs;
    out["equations"] = es;
    out["has_external"] = am->hasExternalVariables();
    if (job.value("code", true)) {
        auto g = Generator::create();
        g->setModel(am);
        out["c_h"] = g->interfaceCode();
        out["c_c"] = g->implementationCode();
        auto pp = GeneratorProfile::create(GeneratorProfile::Profile::PYTHON);
        g->setProfile(pp);
        out["py_h"] = g->interfaceCode();
        out["py"] = g->implementationCode();
        if (job.contains("regen_math")) {
            // the caller edits the SAME model object (new math strings: same equations, other listing order), analyses it again with
            // the SAME analyser and generates with the SAME generator: the output must equal what fresh instances produce
            for (auto it = job["regen_math"].begin(); it != job["regen_math"].end(); ++it) {
                auto c = work->component(it.key(), true);
                if (c) c->setMath(it.value().get<std::string>());
            }
            an->analyseModel(work);
            auto am2 = an->model();
            auto anF = Analyser::create();
            anF->analyseModel(work);
            auto amF = anF->model();
            json rg;
            rg["type_reused_analyser"] = am2 ? AnalyserModel::typeAsString(am2->type()) : "null";
            rg["type_fresh_analyser"] = amF ? AnalyserModel::typeAsString(amF->type()) : "null";
            rg["issues_same"] = issuesJson(an, 200) == issuesJson(anF, 200);
            if (am2 && amF && am2->isValid() && amF->isValid()) {
                auto gF = Generator::create();
                gF->setModel(amF);
                g->setModel(am2);
                g->setProfile(GeneratorProfile::create(GeneratorProfile::Profile::C));
                rg["c_h_same"] = g->interfaceCode() == gF->interfaceCode();
                rg["c_c_same"] = g->implementationCode() == gF->implementationCode();
                if (!rg["c_c_same"].get<bool>()) { rg["c_c_reused"] = g->implementationCode(); rg["c_c_fresh"] = gF->implementationCode(); }
                g->setProfile(pp);
                gF->setProfile(GeneratorProfile::create(GeneratorProfile::Profile::PYTHON));
                rg["py_same"] = g->implementationCode() == gF->implementationCode();
            }
            out["regen"] = rg;
        }
    }
    out["c15"] = c15;
    return out;
}

int main()
{
    std::string line;
    while (std::getline(std::cin, line)) {
        if (line.empty()) continue;
        json job = json::parse(line, nullptr, false);
        json out;
        if (job.is_discarded()) out = {{"error", "bad job json"}};
        else {
            try { out = runJob(job); }
            catch (const std::exception &e) { out = {{"id", job.value("id", json())}, {"exception", e.what()}}; }
        }
        std::string s = out.dump(-1, ' ', false, json::error_handler_t::replace);
        fwrite(s.data(), 1, s.size(), stdout);
        fputc('\n', stdout);
        fflush(stdout);
    }
    return 0;
}
