// FLAVOURS: asan plain
// C11 — clone() is a faithful, independent deep copy.
// Families:
//   clone-api / clone-parsed : every entity (model, components, units, variables, resets) of every model of a generated family (built through the
//                API, and the same model after print -> parse) is cloned; oracle before mutation; then EVERY single mutation of
//                the mutation alphabet on the original, and separately on the clone, must leave the other side unchanged.
//   clone-parsed-pre : the oracle before mutation only (thorough: under ASan, while clone-parsed runs on the plain build)
//   resets-api : the reset-link grid (2 shapes x where the reset's variable lives x where its test_variable lives, each of
//                {own, sibling, child, no component, null} x order set/unset = 100 models), same oracle and mutation phase
//   imports-api / imports-parsed : the import-sharing grid (imported component with an imported child / grandchild / sibling,
//                with or without imported units, EVERY partition of those entities into shared import-source objects: 21 models)
//   twins-api / twins-parsed : the twins grid (content-equal sibling components / variables / units / resets with equivalences,
//                resets and shared import sources attached to the first, the later or both twins: 122 models)
//   eqpos-api / eqpos-parsed : the equivalence-position grid (all ordered forests on <= 5 components of depth <= 3 x which
//                components bear a variable x which pair of them is connected / all pairs), oracle before mutation on every entity
//   foreign-eq : models one of whose variables is equivalent to a variable outside the model (orphan / orphan component /
//                other model): carve-out of the semantic oracle (what a copy of such a link should be is not stated); judged:
//                no crash, and the clone's equivalences among its OWN variables are exactly the original's.
// Independent reference: canonical dumps through public getters (common.hpp + c10c11.hpp); never uses clone() to judge clone().
#include "c10c11.hpp"

using namespace vf;

// ------------------------------------------------------------------------------------------------ generated model specs
struct Dims
{
    int shape, eids, units, resets, imports, eqs, math, ids;
};
static std::vector<std::vector<int>> DIM_VALUES; // per dimension, the values enumerated in this tier
static void setTier(bool thorough)
{
    if (thorough) DIM_VALUES = {{0, 1, 2, 3}, {0, 1}, {0, 1, 2, 3}, {0, 1, 2, 3, 4}, {0, 1, 2}, {0, 1, 2, 3}, {0, 1}, {0, 1}};
    else DIM_VALUES = {{0, 2, 3}, {0, 1}, {2, 3}, {1, 2, 3}, {0, 2}, {0, 2, 3}, {1}, {1}};
}
static uint64_t specCount()
{
    uint64_t n = 1;
    for (auto &d : DIM_VALUES) n *= d.size();
    return n;
}
static Dims dimsAt(uint64_t i)
{
    Radix r(i);
    int v[8];
    for (int d = 0; d < 8; ++d) v[d] = DIM_VALUES[d][r.take(DIM_VALUES[d].size())];
    return {v[0], v[1], v[2], v[3], v[4], v[5], v[6], v[7]};
}
static json dimsJson(const Dims &d)
{
    static const char *shape[] = {"A,B flat", "A>B", "A>{B,C}", "A>B>C"};
    static const char *units[] = {"standard-units-by-name", "model-units-linked", "one-variable-owns-units-outside-the-model", "imported-units"};
    static const char *resets[] = {"none", "valid", "order-unset", "variable-of-another-component", "null-variables-empty-values"};
    static const char *imports[] = {"none", "one-imported-component", "two-imported-components-sharing-one-import-source"};
    static const char *eqs[] = {"none", "one-without-ids", "one-with-mapping-and-connection-id", "several-with-ids"};
    return {{"shape", shape[d.shape]}, {"encapsulation_ids", bool(d.eids)}, {"units", units[d.units]}, {"resets", resets[d.resets]}, {"imports", imports[d.imports]},
            {"equivalences", eqs[d.eqs]}, {"math", bool(d.math)}, {"ids", bool(d.ids)}};
}
static json modelSpec(const Dims &d)
{
    auto id = [&](const std::string &s) { return d.ids ? s : std::string(); };
    auto unitsU1 = [&]() {
        return json{{"k", "units"}, {"name", "u1"}, {"id", id("u1_id")},
                    {"unit", json::array({{{"ref", "second"}, {"prefix", "milli"}, {"exp", -1.0}, {"mult", 1.0}, {"id", id("u1a")}}, {{"ref", "metre"}, {"prefix", ""}, {"exp", 2.0}, {"mult", 1000.0}, {"id", ""}}})}};
    };
    json m = {{"k", "model"}, {"name", "m"}, {"id", id("m_id")}, {"eid", d.eids ? "m_eid" : ""}, {"units", json::array()}, {"components", json::array()}, {"eqs", json::array()}};
    if (d.units >= 1) m["units"].push_back(unitsU1());
    if (d.units == 3) m["units"].push_back({{"k", "units"}, {"name", "uimp"}, {"id", id("uimp_id")}, {"iref", "remote_units"}, {"isrc", {{"id", id("is_u")}, {"url", "units_source.cellml"}, {"share", "SU"}}}});
    auto comp = [&](const std::string &n, bool first) {
        json v1u = d.units == 0 ? json{{"k", "units"}, {"name", "second"}} : json{{"k", "units"}, {"name", "u1"}, {"link", true}};
        if (first && d.units == 2) v1u = {{"k", "units"}, {"name", "ustand"}, {"id", id("ustand_id")}, {"unit", json::array({{{"ref", "kelvin"}, {"prefix", "kilo"}, {"exp", 1.0}, {"mult", 2.0}, {"id", id("us1")}}})}};
        if (first && d.units == 3) v1u = {{"k", "units"}, {"name", "uimp"}, {"link", true}};
        json c = {{"k", "comp"}, {"name", n}, {"id", id(n + "_id")}, {"eid", d.eids ? n + "_eid" : std::string()}, {"math", first && d.math ? MATH_A : ""},
                  {"variables", json::array({{{"k", "var"}, {"name", "v1"}, {"id", id(n + "_v1")}, {"iv", "1.0"}, {"iface", "public_and_private"}, {"u", v1u}},
                                             {{"k", "var"}, {"name", "v2"}, {"id", id(n + "_v2")}, {"iv", ""}, {"iface", "public_and_private"}, {"u", {{"k", "units"}, {"name", "second"}}}}})},
                  {"resets", json::array()}, {"components", json::array()}};
        return c;
    };
    json A = comp("A", true), B = comp("B", false), C = comp("C", false);
    json pathA = {0}, pathB, pathC;
    switch (d.shape) {
    case 0: pathB = {1}; break;
    case 1: pathB = {0, 0}; break;
    case 2: pathB = {0, 0}; pathC = {0, 1}; break;
    default: pathB = {0, 0}; pathC = {0, 0, 0}; break;
    }
    auto var = [](json p, int v) { p.push_back(v); return p; };
    if (d.resets) {
        json r = {{"k", "reset"}, {"id", id("r1")}, {"oset", d.resets != 2}, {"order", 3}, {"var", 0}, {"tvar", 1}, {"tval", MATH_A}, {"tid", id("r1_t")}, {"rval", MATH_C}, {"rid", id("r1_r")}};
        if (d.resets == 3) r["var"] = var(pathB, 0);
        if (d.resets == 4) { r["var"] = nullptr; r["tvar"] = nullptr; r["tval"] = ""; r["rval"] = ""; }
        A["resets"].push_back(r);
    }
    json imp1 = {{"k", "comp"}, {"name", "imp1"}, {"id", id("imp1_id")}, {"eid", ""}, {"iref", "remote1"}, {"isrc", {{"id", id("is_c")}, {"url", "components_source.cellml"}, {"share", "SC"}}}};
    json imp2 = imp1;
    imp2["name"] = "imp2";
    imp2["id"] = id("imp2_id");
    imp2["iref"] = "remote2";
    if (d.eids) imp2["eid"] = "imp2_eid";
    if (d.imports == 2) A["components"].push_back(imp2); // an imported child inside the encapsulation, sharing the source object with imp1
    switch (d.shape) {
    case 0: break;
    case 1: A["components"].insert(A["components"].begin(), B); break;
    case 2: A["components"].insert(A["components"].begin(), C); A["components"].insert(A["components"].begin(), B); break;
    default: B["components"].push_back(C); A["components"].insert(A["components"].begin(), B); break;
    }
    m["components"].push_back(A);
    if (d.shape == 0) m["components"].push_back(B);
    if (d.imports >= 1) m["components"].push_back(imp1);
    if (d.eqs >= 1) m["eqs"].push_back({{"a", var(pathA, 0)}, {"b", var(pathB, 0)}, {"mid", d.eqs >= 2 ? "map1" : ""}, {"cid", d.eqs >= 2 ? "con1" : ""}});
    if (d.eqs == 3) {
        m["eqs"].push_back({{"a", var(pathA, 1)}, {"b", var(pathB, 1)}, {"mid", "map2"}, {"cid", "con1"}});
        if (!pathC.is_null()) m["eqs"].push_back({{"a", var(pathB, 0)}, {"b", var(pathC, 0)}, {"mid", "map3"}, {"cid", "con3"}});
    }
    return m;
}

// ---- the reset-link grid: WHERE the variable and the test_variable of a reset live, independently
// shapes: R0 = model{ A{K}, S }   R1 = model{ P{ A{K}, S } }   (reset owner A, child K, sibling S); every component has v1, v2
static const char *LOCS[] = {"own-component", "sibling-component", "child-component", "no-component", "null"};
static uint64_t resetGridCount() { return 2 * 5 * 5 * 2; }
struct RDims { int shape, vloc, tloc, order; };
static RDims rdimsAt(uint64_t i)
{
    Radix r(i);
    RDims d;
    d.vloc = int(r.take(5)); d.tloc = int(r.take(5)); d.order = int(r.take(2)); d.shape = int(r.take(2));
    return d;
}
static json rdimsJson(const RDims &d)
{
    return {{"grid", "reset-links"}, {"shape", d.shape == 0 ? "model{A{K},S}" : "model{P{A{K},S}}"}, {"reset_owner", "A"}, {"variable_in", LOCS[d.vloc]}, {"test_variable_in", LOCS[d.tloc]},
            {"order", d.order ? "set" : "unset"}};
}
static json resetGridSpec(const RDims &d)
{
    auto comp = [](const std::string &n) {
        return json{{"k", "comp"}, {"name", n}, {"id", n + "_id"}, {"eid", n + "_eid"}, {"math", ""},
                    {"variables", json::array({{{"k", "var"}, {"name", "v1"}, {"id", n + "_v1"}, {"iv", "1.0"}, {"iface", "public_and_private"}, {"u", {{"k", "units"}, {"name", "u1"}, {"link", true}}}},
                                               {{"k", "var"}, {"name", "v2"}, {"id", n + "_v2"}, {"iv", ""}, {"iface", "public"}, {"u", {{"k", "units"}, {"name", "second"}}}}})},
                    {"resets", json::array()}, {"components", json::array()}};
    };
    json A = comp("A"), K = comp("K"), S = comp("S");
    json pA = d.shape == 0 ? json::array({0}) : json::array({0, 0}), pK = d.shape == 0 ? json::array({0, 0}) : json::array({0, 0, 0}), pS = d.shape == 0 ? json::array({1}) : json::array({0, 1});
    auto ref = [&](int loc, int index) -> json {
        auto at = [&](json path) { path.push_back(index); return path; };
        switch (loc) {
        case 0: return index;
        case 1: return at(pS);
        case 2: return at(pK);
        case 3: return json{{"k", "var"}, {"name", index == 0 ? "v1" : "v2"}, {"id", "nowhere_" + std::to_string(index)}, {"iv", "3"}, {"iface", "public"}, {"u", {{"k", "units"}, {"name", "second"}}}};
        default: return nullptr;
        }
    };
    json r = {{"k", "reset"}, {"id", "r1"}, {"oset", bool(d.order)}, {"order", 3}, {"var", ref(d.vloc, 0)}, {"tvar", ref(d.tloc, 1)}, {"tval", MATH_A}, {"tid", "r1_t"}, {"rval", MATH_C}, {"rid", "r1_r"}};
    A["resets"].push_back(r);
    A["components"].push_back(K);
    json m = {{"k", "model"}, {"name", "m"}, {"id", "m_id"}, {"eid", "m_eid"},
              {"units", json::array({{{"k", "units"}, {"name", "u1"}, {"id", "u1_id"}, {"unit", json::array({{{"ref", "second"}, {"prefix", "milli"}, {"exp", -1.0}, {"mult", 1.0}, {"id", "u1a"}}})}}})},
              {"components", json::array()}, {"eqs", json::array()}};
    if (d.shape == 0) { m["components"].push_back(A); m["components"].push_back(S); }
    else { json P = comp("P"); P["components"].push_back(A); P["components"].push_back(S); m["components"].push_back(P); }
    auto v = [](json p, int i) { p.push_back(i); return p; };
    m["eqs"].push_back({{"a", v(pA, 0)}, {"b", v(pK, 0)}, {"mid", "map1"}, {"cid", "con1"}});
    return m;
}
// ---- the import-sharing grid: imports below imports and import sources shared across levels
// entities: I = imported component (top level), J = imported component placed {child of I, child of a local child L of I, top-level
// sibling}, U = imported units (absent / present, used by a variable of a local component); sharing = every partition of the present
// entities into import-source objects (2 partitions of {I,J}, 5 of {I,J,U}): 3 x (2 + 5) = 21 models
static const char *PARTS2[] = {"I|J", "IJ"};
static const char *PARTS3[] = {"I|J|U", "IJ|U", "IU|J", "I|JU", "IJU"};
static uint64_t importGridCount() { return 3 * 7; }
struct IDims { int place, part; bool units; };
static IDims idimsAt(uint64_t i)
{
    IDims d;
    d.place = int(i / 7);
    int p = int(i % 7);
    d.units = p >= 2;
    d.part = d.units ? p - 2 : p;
    return d;
}
static json idimsJson(const IDims &d)
{
    static const char *place[] = {"J is a child of the imported component I", "J is a child of a local child L of the imported component I", "J is a top-level sibling of I"};
    return {{"grid", "import-sharing"}, {"placement", place[d.place]}, {"imported_units", d.units}, {"import_source_partition", d.units ? PARTS3[d.part] : PARTS2[d.part]}};
}
static json importGridSpec(const IDims &d)
{
    std::string part = d.units ? PARTS3[d.part] : PARTS2[d.part];
    auto source = [&](char who) { // the block of the partition `who` belongs to names the shared object
        size_t pos = part.find(who), b = part.rfind('|', pos), e = part.find('|', pos);
        std::string block = part.substr(b == std::string::npos ? 0 : b + 1, (e == std::string::npos ? part.size() : e) - (b == std::string::npos ? 0 : b + 1));
        return json{{"id", "is_" + block}, {"url", "library.cellml"}, {"share", block}};
    };
    auto imported = [&](const std::string &n, char who) {
        return json{{"k", "comp"}, {"name", n}, {"id", n + "_id"}, {"eid", n + "_eid"}, {"iref", "remote_" + n}, {"isrc", source(who)}, {"components", json::array()}};
    };
    json I = imported("I", 'I'), J = imported("J", 'J');
    json L = {{"k", "comp"}, {"name", "L"}, {"id", "L_id"}, {"eid", "L_eid"}, {"math", ""},
              {"variables", json::array({{{"k", "var"}, {"name", "v1"}, {"id", "L_v1"}, {"iv", "1.0"}, {"iface", "public"}, {"u", d.units ? json{{"k", "units"}, {"name", "U"}, {"link", true}} : json{{"k", "units"}, {"name", "second"}}}}})},
              {"resets", json::array()}, {"components", json::array()}};
    json m = {{"k", "model"}, {"name", "m"}, {"id", "m_id"}, {"eid", "m_eid"}, {"units", json::array()}, {"components", json::array()}, {"eqs", json::array()}};
    if (d.units) m["units"].push_back({{"k", "units"}, {"name", "U"}, {"id", "U_id"}, {"iref", "remote_U"}, {"isrc", source('U')}});
    if (d.place == 0) { I["components"].push_back(J); I["components"].push_back(L); }
    else if (d.place == 1) { L["components"].push_back(J); I["components"].push_back(L); }
    else I["components"].push_back(L);
    m["components"].push_back(I);
    if (d.place == 2) m["components"].push_back(J);
    return m;
}
// ---- the twins grid: content-equal siblings (components, variables, units, resets) with equivalences, resets and shared import
// sources attached to the first / the LATER / both twins (equivalences and object identity are not content, so twins stay equal)
//  A  component twins T,T   : placement {top level, encapsulated} x equivalence on {none, first, later, both} x twins have a reset {no, yes}
//                             x import {local, each imported with its own source, later shares the source of another import Y, both share one}  = 64
//  B  variable twins tw,tw  : equivalence on {none, first, later, both} x reset refers to {none, first, later, later+first}
//                             x units {standard by name, equal own objects, ONE shared object}                                               = 48
//  C  units twins U,U       : variable refers to {first, later} x import {no, own sources, later shares with Y, both share}                   = 8
//  D  reset twins r,r       : order {set, unset}                                                                                             = 2
static uint64_t twinGridCount() { return 64 + 48 + 8 + 2; }
static json twinDims(uint64_t i)
{
    static const char *on[] = {"none", "first twin", "later twin", "both twins"};
    static const char *imp[] = {"local", "imported, own equal sources", "imported, later twin shares the source object of another import", "imported, both share one source object"};
    if (i < 64) { Radix r(i); int place = int(r.take(2)), eq = int(r.take(4)), res = int(r.take(2)), im = int(r.take(4));
        return {{"grid", "twins"}, {"twins", "components"}, {"placement", place ? "encapsulated under P" : "top level"}, {"equivalence_on", on[eq]}, {"twins_have_reset", bool(res)}, {"import", imp[im]}}; }
    i -= 64;
    if (i < 48) { Radix r(i); int eq = int(r.take(4)), rr = int(r.take(4)), un = int(r.take(3));
        static const char *refs[] = {"none", "variable=first twin", "variable=later twin", "variable=later twin, test_variable=first twin"};
        static const char *units[] = {"standard units by name", "equal own units objects", "one shared units object"};
        return {{"grid", "twins"}, {"twins", "variables"}, {"equivalence_on", on[eq]}, {"reset", refs[rr]}, {"units", units[un]}}; }
    i -= 48;
    if (i < 8) { Radix r(i); int ref = int(r.take(2)), im = int(r.take(4));
        return {{"grid", "twins"}, {"twins", "units"}, {"variable_refers_to", ref ? "later twin" : "first twin"}, {"import", imp[im]}}; }
    i -= 8;
    return {{"grid", "twins"}, {"twins", "resets"}, {"order", i ? "unset" : "set"}};
}
static bool g_twinAlias = false; // set by twinSpec: build this model with an alias registry (content-equal own units are one object)
static json twinSpec(uint64_t i)
{
    g_twinAlias = false;
    auto var = [](const std::string &n, const std::string &id, json u) { return json{{"k", "var"}, {"name", n}, {"id", id}, {"iv", "1.0"}, {"iface", "public_and_private"}, {"u", u}}; };
    json second = {{"k", "units"}, {"name", "second"}}, u1link = {{"k", "units"}, {"name", "u1"}, {"link", true}};
    auto comp = [&](const std::string &n) {
        return json{{"k", "comp"}, {"name", n}, {"id", n + "_id"}, {"eid", n + "_eid"}, {"math", ""}, {"variables", json::array({var("v1", n + "_v1", u1link), var("v2", n + "_v2", second)})},
                    {"resets", json::array()}, {"components", json::array()}};
    };
    json reset = {{"k", "reset"}, {"id", "r1"}, {"oset", true}, {"order", 3}, {"var", 0}, {"tvar", 1}, {"tval", MATH_A}, {"tid", "r1_t"}, {"rval", MATH_C}, {"rid", "r1_r"}};
    auto source = [](const std::string &tag) { return json{{"id", "is_id"}, {"url", "library.cellml"}, {"share", tag}}; }; // equal CONTENT whatever the tag
    json m = {{"k", "model"}, {"name", "m"}, {"id", "m_id"}, {"eid", "m_eid"},
              {"units", json::array({{{"k", "units"}, {"name", "u1"}, {"id", "u1_id"}, {"unit", json::array({{{"ref", "second"}, {"prefix", "milli"}, {"exp", -1.0}, {"mult", 1.0}, {"id", "u1a"}}})}}})},
              {"components", json::array()}, {"eqs", json::array()}};
    json Y = {{"k", "comp"}, {"name", "Y"}, {"id", "Y_id"}, {"eid", ""}, {"iref", "remote_Y"}, {"isrc", source("sy")}};
    auto at = [](json p, int v) { p.push_back(v); return p; };
    if (i < 64) {
        Radix r(i);
        int place = int(r.take(2)), eq = int(r.take(4)), res = int(r.take(2)), im = int(r.take(4));
        json T1 = comp("T"), T2 = comp("T"), X = comp("X");
        if (res) { T1["resets"].push_back(reset); T2["resets"].push_back(reset); }
        if (im) {
            T1["iref"] = "remote_T"; T2["iref"] = "remote_T";
            T1["isrc"] = source(im == 3 ? "st" : "s1");
            T2["isrc"] = source(im == 3 ? "st" : im == 2 ? "sy" : "s2");
        }
        json pX, pT1, pT2;
        if (place == 0) { m["components"] = json::array({X, T1, T2}); pX = json::array({0}); pT1 = json::array({1}); pT2 = json::array({2}); }
        else { json P = comp("P"); P["components"] = json::array({T1, T2}); m["components"] = json::array({P, X}); pX = json::array({1}); pT1 = json::array({0, 0}); pT2 = json::array({0, 1}); }
        if (im == 2) m["components"].push_back(Y);
        if (eq & 1) m["eqs"].push_back({{"a", at(pT1, 0)}, {"b", at(pX, 0)}, {"mid", "map1"}, {"cid", "con1"}});
        // same connection id on both: after print -> parse both connections name "T" and land on the FIRST twin, and two different
        // ids on one component pair make equivalenceConnectionId() depend on object addresses; the mapping ids stay distinct
        if (eq & 2) m["eqs"].push_back({{"a", at(pT2, 0)}, {"b", at(pX, 1)}, {"mid", "map2"}, {"cid", "con1"}});
        return m;
    }
    i -= 64;
    if (i < 48) {
        Radix r(i);
        int eq = int(r.take(4)), rr = int(r.take(4)), un = int(r.take(3));
        json own = {{"k", "units"}, {"name", "ow"}, {"id", "ow_id"}, {"unit", json::array({{{"ref", "kelvin"}, {"prefix", "kilo"}, {"exp", 1.0}, {"mult", 2.0}, {"id", "ow1"}}})}};
        json tu = un == 0 ? second : own;
        g_twinAlias = un == 2;
        json A = comp("A"), X = comp("X");
        A["variables"] = json::array({var("tw", "tw_id", tu), var("tw", "tw_id", tu), var("w", "w_id", second)});
        if (rr) { json rs = reset; rs["var"] = rr == 1 ? 0 : 1; rs["tvar"] = rr == 3 ? 0 : 2; A["resets"].push_back(rs); }
        m["components"] = json::array({A, X});
        if (eq & 1) m["eqs"].push_back({{"a", {0, 0}}, {"b", {1, 0}}, {"mid", "map1"}, {"cid", "con1"}});
        // one connection id per component pair (two different ids on one pair cannot be written in a document, and which of them
        // equivalenceConnectionId() then reports depends on object addresses)
        if (eq & 2) m["eqs"].push_back({{"a", {0, 1}}, {"b", {1, 1}}, {"mid", "map2"}, {"cid", "con1"}});
        return m;
    }
    i -= 48;
    if (i < 8) {
        Radix r(i);
        int ref = int(r.take(2)), im = int(r.take(4));
        json U = {{"k", "units"}, {"name", "U"}, {"id", "U_id"}};
        json U1 = U, U2 = U;
        if (im == 0) { U1["unit"] = json::array({{{"ref", "metre"}, {"prefix", ""}, {"exp", 2.0}, {"mult", 1.0}, {"id", ""}}}); U2["unit"] = U1["unit"]; }
        else { U1["iref"] = "remote_U"; U2["iref"] = "remote_U"; U1["isrc"] = source(im == 3 ? "st" : "s1"); U2["isrc"] = source(im == 3 ? "st" : im == 2 ? "sy" : "s2"); }
        m["units"].push_back(U1);
        m["units"].push_back(U2);
        json A = comp("A");
        A["variables"][0]["u"] = {{"k", "units"}, {"name", "U"}, {"ulink", 1 + ref}};
        m["components"] = json::array({A});
        if (im == 2) m["components"].push_back(Y);
        return m;
    }
    i -= 8;
    json A = comp("A");
    json rs = reset;
    rs["oset"] = i == 0;
    A["resets"] = json::array({rs, rs});
    m["components"] = json::array({A, comp("X")});
    m["eqs"].push_back({{"a", {0, 0}}, {"b", {1, 0}}, {"mid", "map1"}, {"cid", "con1"}});
    return m;
}
// ---- the equivalence-position grid: every ordered forest on <= 5 components of depth <= 3, every subset of the components
// bearing a variable (the others are pure containers or empty leaves), every PAIR of variable-bearing positions connected by one
// equivalence with mapping + connection id (sibling, parent-child, cousins below a variable-less container, different depths, ...)
// and, per (forest, subset), all pairs connected at once. Judged with the oracle before mutation on every entity (model, every
// component = every ancestor level, variables).
struct EqPos { std::string dyck; unsigned mask; int a, b; }; // a, b: preorder numbers of the two ends; a == -1: all pairs
static std::vector<EqPos> &eqPosList()
{
    static std::vector<EqPos> list;
    if (!list.empty()) return list;
    for (int n = 2; n <= 5; ++n) {
        std::vector<std::string> words;
        std::function<void(std::string, int, int, int)> gen = [&](std::string w, int open, int close, int depth) {
            if (int(w.size()) == 2 * n) { words.push_back(w); return; }
            if (open < n && depth < 3) gen(w + "(", open + 1, close, depth + 1);
            if (close < open) gen(w + ")", open, close + 1, depth - 1);
        };
        gen("", 0, 0, 0);
        for (auto &w : words)
            for (unsigned mask = 0; mask < (1u << n); ++mask) {
                std::vector<int> bearing;
                for (int k = 0; k < n; ++k) if (mask & (1u << k)) bearing.push_back(k);
                if (bearing.size() < 2) continue;
                for (size_t x = 0; x < bearing.size(); ++x)
                    for (size_t y = x + 1; y < bearing.size(); ++y) list.push_back({w, mask, bearing[x], bearing[y]});
                if (bearing.size() > 2) list.push_back({w, mask, -1, -1});
            }
    }
    return list;
}
static uint64_t eqPosCount() { return eqPosList().size(); }
static json eqPosSpec(uint64_t i, json *dims = nullptr)
{
    const EqPos &e = eqPosList().at(i);
    // build the forest from the Dyck word; remember the index path of every component (preorder number -> path)
    json m = {{"k", "model"}, {"name", "m"}, {"id", "m_id"}, {"eid", "m_eid"}, {"units", json::array()}, {"components", json::array()}, {"eqs", json::array()}};
    std::vector<json::json_pointer> stack = {json::json_pointer("/components")};
    std::vector<std::vector<int>> pathStack = {{}};
    std::vector<std::vector<int>> paths;
    std::string shape;
    int number = 0;
    for (char ch : e.dyck) {
        if (ch == '(') {
            std::string name = "c" + std::to_string(number);
            bool bearing = e.mask & (1u << number);
            json c = {{"k", "comp"}, {"name", name}, {"id", name + "_id"}, {"eid", name + "_eid"}, {"math", ""}, {"variables", json::array()}, {"resets", json::array()}, {"components", json::array()}};
            if (bearing) c["variables"].push_back({{"k", "var"}, {"name", "v"}, {"id", name + "_v"}, {"iv", ""}, {"iface", "public_and_private"}, {"u", {{"k", "units"}, {"name", "second"}}}});
            json &siblings = m[stack.back()];
            int idx = int(siblings.size());
            siblings.push_back(c);
            std::vector<int> p = pathStack.back();
            p.push_back(idx);
            paths.push_back(p);
            stack.push_back(stack.back() / size_t(idx) / "components");
            pathStack.push_back(p);
            shape += bearing ? "V(" : "_(";
            ++number;
        } else {
            stack.pop_back();
            pathStack.pop_back();
            shape += ")";
        }
    }
    auto varPath = [&](int k) { json p = json::array(); for (int x : paths[size_t(k)]) p.push_back(x); p.push_back(0); return p; };
    auto link = [&](int a, int b) {
        std::string t = std::to_string(a) + "_" + std::to_string(b);
        m["eqs"].push_back({{"a", varPath(a)}, {"b", varPath(b)}, {"mid", "map_" + t}, {"cid", "con_" + t}});
    };
    if (e.a >= 0) link(e.a, e.b);
    else for (int a = 0; a < number; ++a) for (int b = a + 1; b < number; ++b) if ((e.mask & (1u << a)) && (e.mask & (1u << b))) link(a, b);
    if (dims) *dims = {{"grid", "equivalence-positions"}, {"forest", shape}, {"legend", "V( = component with a variable, _( = component without variables, preorder numbering from 0"},
                       {"connected", e.a >= 0 ? json::array({e.a, e.b}) : json("all pairs of variable-bearing components")}};
    return m;
}
static int g_grid = 0; // 0: the 8-dimension model grid, 1: the reset-link grid, 2: the import-sharing grid, 3: the twins grid, 4: the equivalence-position grid
static json specOf(uint64_t i) { return g_grid == 4 ? eqPosSpec(i) : g_grid == 3 ? twinSpec(i) : g_grid == 2 ? importGridSpec(idimsAt(i)) : g_grid ? resetGridSpec(rdimsAt(i)) : modelSpec(dimsAt(i)); }
static json whereOf(uint64_t i) { if (g_grid == 4) { json d; eqPosSpec(i, &d); return d; } return g_grid == 3 ? twinDims(i) : g_grid == 2 ? idimsJson(idimsAt(i)) : g_grid ? rdimsJson(rdimsAt(i)) : dimsJson(dimsAt(i)); }

// ------------------------------------------------------------------------------------------------ worlds
static PrinterPtr g_printer;
static ParserPtr g_parser;
struct World
{
    AliasMap aliases;
    Builder b;
    ModelPtr model;
    std::vector<EntityPtr> ents;
    std::vector<std::string> kinds, where;
};
static void listComponent(const ModelPtr &m, const ComponentPtr &c, World &w, const std::string &path)
{
    w.ents.push_back(c); w.kinds.push_back("component"); w.where.push_back(path);
    for (size_t i = 0; i < c->variableCount(); ++i) {
        auto v = c->variable(i);
        w.ents.push_back(v); w.kinds.push_back("variable"); w.where.push_back(path + "/variable");
        auto u = v->units();
        if (u && u->parent() != m && u->unitCount() > 0) { w.ents.push_back(u); w.kinds.push_back("units"); w.where.push_back(path + "/variable/own-units"); }
    }
    for (size_t i = 0; i < c->resetCount(); ++i) { w.ents.push_back(c->reset(i)); w.kinds.push_back("reset"); w.where.push_back(path + "/reset"); }
    for (size_t i = 0; i < c->componentCount(); ++i) listComponent(m, c->component(i), w, path + "/component");
}
static void listEntities(World &w)
{
    w.ents.clear(); w.kinds.clear(); w.where.clear();
    w.ents.push_back(w.model); w.kinds.push_back("model"); w.where.push_back("model");
    for (size_t i = 0; i < w.model->unitsCount(); ++i) { w.ents.push_back(w.model->units(i)); w.kinds.push_back("units"); w.where.push_back("model/units"); }
    for (size_t i = 0; i < w.model->componentCount(); ++i) listComponent(w.model, w.model->component(i), w, "model/component");
}
struct Source
{
    json spec;
    bool alias = false; // build with an alias registry: content-equal own units objects are ONE object inside this model
    bool parsed = false;
    std::string text; // printed form of the API-built model (origin "parsed")
};
static std::unique_ptr<World> fresh(const Source &s, Ctx &c)
{
    auto w = std::make_unique<World>();
    if (s.parsed) {
        w->model = g_parser->parseModel(s.text);
        c.logger(g_parser, "parser");
    } else {
        if (s.alias) w->b.alias = &w->aliases;
        w->model = w->b.buildModel(s.spec);
    }
    listEntities(*w);
    return w;
}

// ------------------------------------------------------------------------------------------------ canonical forms
static const CanonOpt CONTENT{true, true, false, true}; // ids, equivalences, ORDER-SENSITIVE (a copy keeps the order), math
static std::string contentOf(const EntityPtr &e)
{ // what the serialisation carries (variables name their units, resets name their variables)
    if (auto m = std::dynamic_pointer_cast<Model>(e)) return canonModel(m, CONTENT);
    if (auto c = std::dynamic_pointer_cast<Component>(e)) return canonComponent(c, CONTENT);
    if (auto v = std::dynamic_pointer_cast<Variable>(e)) return canonVariable(v, CONTENT);
    if (auto u = std::dynamic_pointer_cast<Units>(e)) return canonUnits(u, CONTENT);
    if (auto r = std::dynamic_pointer_cast<Reset>(e)) return canonReset(r, CONTENT);
    return "<?>";
}
// Everything reachable, in order, in one pass (units of variables and variables of resets in full, math as raw text, equivalences
// with their ids per variable): used for "the other side is unchanged", computed several times per mutation, hence append-only.
static void deepImport(const ImportedEntityPtr &e, std::string &o)
{
    o += e->isImport() ? " imp=1 ref=" : " imp=0 ref=";
    o += q(e->importReference());
    if (e->isImport()) { o += " src=" + q(e->importSource()->url()) + "#" + q(e->importSource()->id()); }
}
static void deepUnits(const UnitsPtr &u, std::string &o)
{
    if (!u) { o += "(units <none>)"; return; }
    o += "(units " + q(u->name()) + " id=" + q(u->id());
    deepImport(u, o);
    for (size_t i = 0; i < u->unitCount(); ++i)
        o += "(unit " + q(u->unitAttributeReference(i)) + " " + q(u->unitAttributePrefix(i)) + " " + dbl17(u->unitAttributeExponent(i)) + " " + dbl17(u->unitAttributeMultiplier(i)) + " " + q(u->unitId(i)) + ")";
    o += ")";
}
static void deepVariable(const VariablePtr &v, std::string &o, bool withEquivalences)
{
    if (!v) { o += "(var <null>)"; return; }
    o += "(var " + q(v->name()) + " id=" + q(v->id()) + " iv=" + q(v->initialValue()) + " if=" + q(v->interfaceType());
    deepUnits(v->units(), o);
    if (withEquivalences)
        for (size_t i = 0; i < v->equivalentVariableCount(); ++i) {
            auto w = v->equivalentVariable(i);
            o += "(eq " + q(varRef(w)) + " mid=" + q(Variable::equivalenceMappingId(v, w)) + " cid=" + q(Variable::equivalenceConnectionId(v, w)) + ")";
        }
    o += ")";
}
static void deepReset(const ResetPtr &r, std::string &o)
{
    o += "(reset id=" + q(r->id()) + (r->isOrderSet() ? " order=" + std::to_string(r->order()) : std::string(" order=<unset>"));
    o += " v=";
    deepVariable(r->variable(), o, false);
    o += " tv=";
    deepVariable(r->testVariable(), o, false);
    o += " test=" + q(r->testValue()) + " tid=" + q(r->testValueId()) + " value=" + q(r->resetValue()) + " rid=" + q(r->resetValueId()) + ")";
}
static void deepComponent(const ComponentPtr &c, std::string &o, int depth = 0)
{
    o += "(component " + q(c->name()) + " id=" + q(c->id()) + " eid=" + q(c->encapsulationId()) + " math=" + q(c->math());
    deepImport(c, o);
    for (size_t i = 0; i < c->variableCount(); ++i) deepVariable(c->variable(i), o, true);
    for (size_t i = 0; i < c->resetCount(); ++i) deepReset(c->reset(i), o);
    if (depth < 32) for (size_t i = 0; i < c->componentCount(); ++i) deepComponent(c->component(i), o, depth + 1);
    o += ")";
}
static std::string deepOf(const EntityPtr &e)
{
    std::string o;
    o.reserve(4096);
    if (auto m = std::dynamic_pointer_cast<Model>(e)) {
        o += "(model " + q(m->name()) + " id=" + q(m->id()) + " eid=" + q(m->encapsulationId());
        for (size_t i = 0; i < m->unitsCount(); ++i) deepUnits(m->units(i), o);
        for (size_t i = 0; i < m->componentCount(); ++i) deepComponent(m->component(i), o);
        o += ")";
    } else if (auto c = std::dynamic_pointer_cast<Component>(e)) deepComponent(c, o);
    else if (auto v = std::dynamic_pointer_cast<Variable>(e)) deepVariable(v, o, true);
    else if (auto u = std::dynamic_pointer_cast<Units>(e)) deepUnits(u, o);
    else if (auto r = std::dynamic_pointer_cast<Reset>(e)) deepReset(r, o);
    return o;
}

// ------------------------------------------------------------------------------------------------ field-by-field comparison
struct Diff
{
    std::set<std::string> fields;
    void f(bool same, const char *name) { if (!same) fields.insert(name); }
};
static void diffImport(const ImportedEntityPtr &a, const ImportedEntityPtr &b, Diff &d, const std::string &k)
{
    d.f(a->isImport() == b->isImport(), (k + ".isImport").c_str());
    d.f(a->importReference() == b->importReference(), (k + ".importReference").c_str());
    if (a->isImport() && b->isImport()) {
        d.f(a->importSource()->url() == b->importSource()->url(), (k + ".importSource.url").c_str());
        d.f(a->importSource()->id() == b->importSource()->id(), (k + ".importSource.id").c_str());
    }
}
static void diffUnits(const UnitsPtr &a, const UnitsPtr &b, Diff &d)
{
    d.f(a->name() == b->name(), "units.name");
    d.f(a->id() == b->id(), "units.id");
    diffImport(a, b, d, "units");
    d.f(a->unitCount() == b->unitCount(), "units.unitCount");
    for (size_t i = 0; i < a->unitCount() && i < b->unitCount(); ++i) {
        d.f(a->unitAttributeReference(i) == b->unitAttributeReference(i), "unit.reference");
        d.f(a->unitAttributePrefix(i) == b->unitAttributePrefix(i), "unit.prefix");
        d.f(dbl17(a->unitAttributeExponent(i)) == dbl17(b->unitAttributeExponent(i)), "unit.exponent");
        d.f(dbl17(a->unitAttributeMultiplier(i)) == dbl17(b->unitAttributeMultiplier(i)), "unit.multiplier");
        d.f(a->unitId(i) == b->unitId(i), "unit.id");
    }
}
static void diffVariable(const VariablePtr &a, const VariablePtr &b, Diff &d)
{
    d.f(a->name() == b->name(), "variable.name");
    d.f(a->id() == b->id(), "variable.id");
    d.f(a->initialValue() == b->initialValue(), "variable.initialValue");
    d.f(a->interfaceType() == b->interfaceType(), "variable.interfaceType");
    d.f((a->units() != nullptr) == (b->units() != nullptr), "variable.units-presence");
    if (a->units() && b->units()) d.f(a->units()->name() == b->units()->name(), "variable.units.name");
}
static void diffReset(const ResetPtr &a, const ResetPtr &b, Diff &d)
{
    d.f(a->id() == b->id(), "reset.id");
    d.f(a->isOrderSet() == b->isOrderSet(), "reset.isOrderSet");
    if (a->isOrderSet() && b->isOrderSet()) d.f(a->order() == b->order(), "reset.order");
    d.f((a->variable() != nullptr) == (b->variable() != nullptr), "reset.variable-presence");
    if (a->variable() && b->variable()) d.f(a->variable()->name() == b->variable()->name(), "reset.variable.name");
    d.f((a->testVariable() != nullptr) == (b->testVariable() != nullptr), "reset.testVariable-presence");
    if (a->testVariable() && b->testVariable()) d.f(a->testVariable()->name() == b->testVariable()->name(), "reset.testVariable.name");
    d.f(a->testValue() == b->testValue(), "reset.testValue");
    d.f(a->resetValue() == b->resetValue(), "reset.resetValue");
    d.f(a->testValueId() == b->testValueId(), "reset.testValueId");
    d.f(a->resetValueId() == b->resetValueId(), "reset.resetValueId");
}
static void diffComponent(const ComponentPtr &a, const ComponentPtr &b, Diff &d, bool root)
{
    d.f(a->name() == b->name(), "component.name");
    d.f(a->id() == b->id(), "component.id");
    d.f(a->encapsulationId() == b->encapsulationId(), root ? "component.encapsulationId(cloned-component-itself)" : "component.encapsulationId");
    d.f(a->math() == b->math(), "component.math");
    diffImport(a, b, d, "component");
    d.f(a->variableCount() == b->variableCount(), "component.variableCount");
    d.f(a->resetCount() == b->resetCount(), "component.resetCount");
    d.f(a->componentCount() == b->componentCount(), "component.componentCount");
    for (size_t i = 0; i < a->variableCount() && i < b->variableCount(); ++i) diffVariable(a->variable(i), b->variable(i), d);
    for (size_t i = 0; i < a->resetCount() && i < b->resetCount(); ++i) diffReset(a->reset(i), b->reset(i), d);
    for (size_t i = 0; i < a->componentCount() && i < b->componentCount(); ++i) diffComponent(a->component(i), b->component(i), d, false);
}
// equivalences as (path, path) -> ids; paths are index paths, so original and clone are comparable
static void eqMapOf(const ComponentPtr &c, const std::string &path, std::map<const Variable *, std::string> &names, std::vector<VariablePtr> &vars)
{
    for (size_t i = 0; i < c->variableCount(); ++i) { names[c->variable(i).get()] = path + "." + std::to_string(i); vars.push_back(c->variable(i)); }
    for (size_t i = 0; i < c->componentCount(); ++i) eqMapOf(c->component(i), path + "/" + std::to_string(i), names, vars);
}
struct EqInfo
{
    std::map<std::string, std::pair<std::string, std::string>> internal; // "p1~p2" -> (mapping id, connection id)
    size_t external = 0;                                                  // half-links to variables that are not in this model
};
static EqInfo eqInfoOf(const ModelPtr &m)
{
    std::map<const Variable *, std::string> names;
    std::vector<VariablePtr> vars;
    for (size_t i = 0; i < m->componentCount(); ++i) eqMapOf(m->component(i), std::to_string(i), names, vars);
    EqInfo e;
    for (auto &v : vars)
        for (size_t i = 0; i < v->equivalentVariableCount(); ++i) {
            auto w = v->equivalentVariable(i);
            if (!w || !names.count(w.get())) { ++e.external; continue; }
            e.internal[names[v.get()] + "~" + names[w.get()]] = {Variable::equivalenceMappingId(v, w), Variable::equivalenceConnectionId(v, w)};
        }
    return e;
}
static void diffModel(const ModelPtr &a, const ModelPtr &b, Diff &d)
{
    d.f(a->name() == b->name(), "model.name");
    d.f(a->id() == b->id(), "model.id");
    d.f(a->encapsulationId() == b->encapsulationId(), "model.encapsulationId");
    d.f(a->unitsCount() == b->unitsCount(), "model.unitsCount");
    d.f(a->componentCount() == b->componentCount(), "model.componentCount");
    for (size_t i = 0; i < a->unitsCount() && i < b->unitsCount(); ++i) diffUnits(a->units(i), b->units(i), d);
    for (size_t i = 0; i < a->componentCount() && i < b->componentCount(); ++i) diffComponent(a->component(i), b->component(i), d, false);
    auto ea = eqInfoOf(a), eb = eqInfoOf(b);
    for (auto &kv : ea.internal) {
        auto f = eb.internal.find(kv.first);
        if (f == eb.internal.end()) { d.fields.insert("equivalence.missing-in-clone"); continue; }
        d.f(kv.second.first == f->second.first, "equivalence.mappingId");
        d.f(kv.second.second == f->second.second, "equivalence.connectionId");
    }
    for (auto &kv : eb.internal) if (!ea.internal.count(kv.first)) d.fields.insert("equivalence.extra-in-clone");
}
static Diff diffEntity(const EntityPtr &a, const EntityPtr &b)
{
    Diff d;
    if (auto m = std::dynamic_pointer_cast<Model>(a)) diffModel(m, std::dynamic_pointer_cast<Model>(b), d);
    else if (auto c = std::dynamic_pointer_cast<Component>(a)) diffComponent(c, std::dynamic_pointer_cast<Component>(b), d, true);
    else if (auto v = std::dynamic_pointer_cast<Variable>(a)) diffVariable(v, std::dynamic_pointer_cast<Variable>(b), d);
    else if (auto u = std::dynamic_pointer_cast<Units>(a)) diffUnits(u, std::dynamic_pointer_cast<Units>(b), d);
    else if (auto r = std::dynamic_pointer_cast<Reset>(a)) diffReset(r, std::dynamic_pointer_cast<Reset>(b), d);
    return d;
}
// Causal attribution (DESIGN 2.7): the clone is repaired FROM OUTSIDE for the field classes already reported one by one; whatever
// still differs afterwards (content, printed form, equals) is reported as a separate, unexplained violation.
static void repairComponent(const ComponentPtr &a, const ComponentPtr &b)
{
    b->setEncapsulationId(a->encapsulationId());
    for (size_t i = 0; i < a->resetCount() && i < b->resetCount(); ++i)
        if (!a->reset(i)->isOrderSet()) b->reset(i)->removeOrder();
    for (size_t i = 0; i < a->componentCount() && i < b->componentCount(); ++i) repairComponent(a->component(i), b->component(i));
}
static void collectVars(const ComponentPtr &c, std::vector<VariablePtr> &out)
{
    for (size_t i = 0; i < c->variableCount(); ++i) out.push_back(c->variable(i));
    for (size_t i = 0; i < c->componentCount(); ++i) collectVars(c->component(i), out);
}
static void repair(const EntityPtr &a, const EntityPtr &b)
{
    if (auto m = std::dynamic_pointer_cast<Model>(a)) {
        auto n = std::dynamic_pointer_cast<Model>(b);
        for (size_t i = 0; i < m->componentCount() && i < n->componentCount(); ++i) repairComponent(m->component(i), n->component(i));
        std::vector<VariablePtr> va, vb;
        for (size_t i = 0; i < m->componentCount(); ++i) collectVars(m->component(i), va);
        for (size_t i = 0; i < n->componentCount(); ++i) collectVars(n->component(i), vb);
        if (va.size() == vb.size())
            for (size_t i = 0; i < va.size(); ++i)
                for (size_t j = 0; j < va.size(); ++j)
                    if (i != j && va[i]->hasEquivalentVariable(va[j]) && vb[i]->hasEquivalentVariable(vb[j])) {
                        Variable::setEquivalenceMappingId(vb[i], vb[j], Variable::equivalenceMappingId(va[i], va[j]));
                        Variable::setEquivalenceConnectionId(vb[i], vb[j], Variable::equivalenceConnectionId(va[i], va[j]));
                    }
    } else if (auto c = std::dynamic_pointer_cast<Component>(a)) {
        repairComponent(c, std::dynamic_pointer_cast<Component>(b));
    } else if (auto r = std::dynamic_pointer_cast<Reset>(a)) {
        if (!r->isOrderSet()) std::dynamic_pointer_cast<Reset>(b)->removeOrder();
    }
}
static const std::set<std::string> REPAIRABLE = {"reset.isOrderSet", "component.encapsulationId", "component.encapsulationId(cloned-component-itself)", "equivalence.mappingId", "equivalence.connectionId"};

// ------------------------------------------------------------------------------------------------ object identity
static void reachUnits(const UnitsPtr &u, std::map<const void *, std::string> &s)
{
    if (!u) return;
    s[u.get()] = "units";
    if (u->isImport()) s[u->importSource().get()] = "importsource";
}
static void reachVariable(const VariablePtr &v, std::map<const void *, std::string> &s)
{
    if (!v) return;
    s[v.get()] = "variable";
    reachUnits(v->units(), s);
}
static void reachReset(const ResetPtr &r, std::map<const void *, std::string> &s)
{
    s[r.get()] = "reset";
    reachVariable(r->variable(), s);
    reachVariable(r->testVariable(), s);
}
static void reachComponent(const ComponentPtr &c, std::map<const void *, std::string> &s)
{
    s[c.get()] = "component";
    if (c->isImport()) s[c->importSource().get()] = "importsource";
    for (size_t i = 0; i < c->variableCount(); ++i) reachVariable(c->variable(i), s);
    for (size_t i = 0; i < c->resetCount(); ++i) reachReset(c->reset(i), s);
    for (size_t i = 0; i < c->componentCount(); ++i) reachComponent(c->component(i), s);
}
static std::map<const void *, std::string> reach(const EntityPtr &e)
{
    std::map<const void *, std::string> s;
    if (auto m = std::dynamic_pointer_cast<Model>(e)) {
        s[m.get()] = "model";
        for (size_t i = 0; i < m->unitsCount(); ++i) reachUnits(m->units(i), s);
        for (size_t i = 0; i < m->componentCount(); ++i) reachComponent(m->component(i), s);
    } else if (auto c = std::dynamic_pointer_cast<Component>(e)) reachComponent(c, s);
    else if (auto v = std::dynamic_pointer_cast<Variable>(e)) reachVariable(v, s);
    else if (auto u = std::dynamic_pointer_cast<Units>(e)) reachUnits(u, s);
    else if (auto r = std::dynamic_pointer_cast<Reset>(e)) reachReset(std::dynamic_pointer_cast<Reset>(e), s);
    return s;
}

// ------------------------------------------------------------------------------------------------ mutation alphabet (on live objects)
struct Mut
{
    std::string cls;
    std::function<void()> apply;
};
// Enumerates the alphabet without materialising it: only the wanted member is turned into a closure (the list is re-collected
// on a fresh world for every single mutation).
struct Muts
{
    size_t want = SIZE_MAX, n = 0;
    Mut picked;
    template<class F> void add(const std::string &k, const char *suffix, F &&f)
    {
        if (n == want) picked = Mut{k + suffix, std::function<void()>(std::forward<F>(f))};
        ++n;
    }
    size_t size() const { return n; }
};
static std::vector<std::shared_ptr<void>> g_keep; // outside objects created by mutations
static void mutsImport(const ImportedEntityPtr &e, const std::string &k, Muts &out)
{
    out.add(k, ".setImportReference", [e] { e->setImportReference("mutated_reference"); });
    if (e->isImport()) {
        out.add(k, ".importSource().setUrl", [e] { e->importSource()->setUrl("mutated_url.cellml"); });
        out.add(k, ".importSource().setId", [e] { e->importSource()->setId("mutated_is_id"); });
    }
    out.add(k, ".setImportSource(new)", [e] { auto is = ImportSource::create(); is->setUrl("new_source.cellml"); e->setImportSource(is); });
}
static void mutsUnits(const UnitsPtr &u, const std::string &k, Muts &out)
{
    out.add(k, ".setName", [u] { u->setName("mutated_units_name"); });
    out.add(k, ".setId", [u] { u->setId("mutated_units_id"); });
    out.add(k, ".addUnit", [u] { u->addUnit("candela", "mega", 4.0, 5.0, "mutated_unit"); });
    if (u->unitCount() > 0) {
        out.add(k, ".removeUnit", [u] { u->removeUnit(size_t(0)); });
        out.add(k, ".setUnitAttributeReference", [u] { u->setUnitAttributeReference(0, "mole"); });
        out.add(k, ".setUnitId", [u] { u->setUnitId(0, "mutated_unit_id"); });
        out.add(k, ".removeAllUnits", [u] { u->removeAllUnits(); });
    }
    mutsImport(u, k, out);
}
static void mutsVariable(const VariablePtr &v, const std::string &k, Muts &out)
{
    out.add(k, ".setName", [v] { v->setName("mutated_variable_name"); });
    out.add(k, ".setId", [v] { v->setId("mutated_variable_id"); });
    out.add(k, ".setInitialValue", [v] { v->setInitialValue("42"); });
    out.add(k, ".setInterfaceType", [v] { v->setInterfaceType(v->interfaceType() == "private" ? "public" : "private"); });
    out.add(k, ".setUnits(name)", [v] { v->setUnits("candela"); });
    if (v->units()) {
        out.add(k, ".removeUnits", [v] { v->removeUnits(); });
        mutsUnits(v->units(), k + ".units()", out);
    }
    for (size_t i = 0; i < v->equivalentVariableCount(); ++i) {
        out.add(k, ".setEquivalenceMappingId", [v, i] { Variable::setEquivalenceMappingId(v, v->equivalentVariable(i), "mutated_mapping_id"); });
        out.add(k, ".setEquivalenceConnectionId", [v, i] { Variable::setEquivalenceConnectionId(v, v->equivalentVariable(i), "mutated_connection_id"); });
        out.add(k, ".removeEquivalence", [v, i] { Variable::removeEquivalence(v, v->equivalentVariable(i)); });
    }
    if (v->equivalentVariableCount() > 0) out.add(k, ".removeAllEquivalences", [v] { v->removeAllEquivalences(); });
    if (v->parent()) out.add(k, ".addEquivalence(outside)", [v] {
        auto c = Component::create("outside_component");
        auto w = Variable::create("outside_variable");
        c->addVariable(w);
        g_keep.push_back(c);
        Variable::addEquivalence(v, w, "outside_mapping", "outside_connection");
    });
}
static void mutsReset(const ResetPtr &r, const std::string &k, Muts &out)
{
    out.add(k, ".setId", [r] { r->setId("mutated_reset_id"); });
    out.add(k, ".setOrder", [r] { r->setOrder(r->order() + 5); });
    if (r->isOrderSet()) out.add(k, ".removeOrder", [r] { r->removeOrder(); });
    if (r->variable()) {
        out.add(k, ".setVariable(null)", [r] { r->setVariable(nullptr); });
        out.add(k, ".variable().setName", [r] { r->variable()->setName("renamed_through_reset"); });
        out.add(k, ".variable().setUnits", [r] { r->variable()->setUnits("lumen"); });
    } else {
        out.add(k, ".setVariable(new)", [r] { r->setVariable(Variable::create("new_reset_variable")); });
    }
    if (r->testVariable()) {
        out.add(k, ".setTestVariable(null)", [r] { r->setTestVariable(nullptr); });
        out.add(k, ".testVariable().setInitialValue", [r] { r->testVariable()->setInitialValue("77"); });
    } else {
        out.add(k, ".setTestVariable(new)", [r] { r->setTestVariable(Variable::create("new_test_variable")); });
    }
    out.add(k, ".setTestValue", [r] { r->setTestValue(MATH_B); });
    out.add(k, ".appendResetValue", [r] { r->appendResetValue(MATH_B); });
    out.add(k, ".setTestValueId", [r] { r->setTestValueId("mutated_tid"); });
    out.add(k, ".setResetValueId", [r] { r->setResetValueId("mutated_rid"); });
}
static void mutsComponent(const ComponentPtr &c, const std::string &k, Muts &out, int depth = 0)
{
    out.add(k, ".setName", [c] { c->setName("mutated_component_name"); });
    out.add(k, ".setId", [c] { c->setId("mutated_component_id"); });
    out.add(k, ".setEncapsulationId", [c] { c->setEncapsulationId("mutated_eid"); });
    out.add(k, ".setMath", [c] { c->setMath(MATH_C); });
    out.add(k, ".appendMath", [c] { c->appendMath(MATH_B); });
    mutsImport(c, k, out);
    out.add(k, ".addVariable", [c] { c->addVariable(Variable::create("added_variable")); });
    out.add(k, ".addReset", [c] { auto r = Reset::create(); r->setId("added_reset"); c->addReset(r); });
    out.add(k, ".addComponent", [c] { c->addComponent(Component::create("added_component")); });
    if (c->variableCount()) out.add(k, ".removeVariable", [c] { c->removeVariable(size_t(0)); });
    if (c->resetCount()) out.add(k, ".removeReset", [c] { c->removeReset(size_t(0)); });
    if (c->componentCount()) out.add(k, ".removeComponent", [c] { c->removeComponent(size_t(0)); });
    for (size_t i = 0; i < c->variableCount(); ++i) mutsVariable(c->variable(i), "variable", out);
    for (size_t i = 0; i < c->resetCount(); ++i) mutsReset(c->reset(i), "reset", out);
    if (depth < 16) for (size_t i = 0; i < c->componentCount(); ++i) mutsComponent(c->component(i), "component", out, depth + 1);
}
static void mutsModel(const ModelPtr &m, Muts &out)
{
    out.add("model", ".setName", [m] { m->setName("mutated_model_name"); });
    out.add("model", ".setId", [m] { m->setId("mutated_model_id"); });
    out.add("model", ".setEncapsulationId", [m] { m->setEncapsulationId("mutated_model_eid"); });
    out.add("model", ".addUnits", [m] { auto u = Units::create("added_units"); u->addUnit("volt"); m->addUnits(u); });
    out.add("model", ".addComponent", [m] { m->addComponent(Component::create("added_component")); });
    if (m->unitsCount()) out.add("model", ".removeUnits", [m] { m->removeUnits(size_t(0)); });
    if (m->componentCount()) out.add("model", ".removeComponent", [m] { m->removeComponent(size_t(0)); });
    for (size_t i = 0; i < m->unitsCount(); ++i) mutsUnits(m->units(i), "units", out);
    for (size_t i = 0; i < m->componentCount(); ++i) mutsComponent(m->component(i), "component", out);
}
static Muts mutsOf(const EntityPtr &e, size_t want = SIZE_MAX)
{
    Muts out;
    out.want = want;
    if (auto m = std::dynamic_pointer_cast<Model>(e)) mutsModel(m, out);
    else if (auto c = std::dynamic_pointer_cast<Component>(e)) mutsComponent(c, "component", out);
    else if (auto v = std::dynamic_pointer_cast<Variable>(e)) mutsVariable(v, "variable", out);
    else if (auto u = std::dynamic_pointer_cast<Units>(e)) mutsUnits(u, "units", out);
    else if (auto r = std::dynamic_pointer_cast<Reset>(e)) mutsReset(r, "reset", out);
    return out;
}

static EntityPtr cloneOf(const EntityPtr &e)
{
    if (auto m = std::dynamic_pointer_cast<Model>(e)) return m->clone();
    if (auto c = std::dynamic_pointer_cast<Component>(e)) return c->clone();
    if (auto v = std::dynamic_pointer_cast<Variable>(e)) return v->clone();
    if (auto u = std::dynamic_pointer_cast<Units>(e)) return u->clone();
    if (auto r = std::dynamic_pointer_cast<Reset>(e)) return r->clone();
    return nullptr;
}
static void stripEquivalences(const ComponentPtr &c)
{
    for (size_t i = 0; i < c->variableCount(); ++i) c->variable(i)->removeAllEquivalences();
    for (size_t i = 0; i < c->componentCount(); ++i) stripEquivalences(c->component(i));
}
static std::string printWrapped(const EntityPtr &e, Ctx &c)
{
    ModelPtr m = std::dynamic_pointer_cast<Model>(e);
    if (!m) {
        m = Model::create("wrapper");
        if (auto comp = std::dynamic_pointer_cast<Component>(e)) m->addComponent(comp);
        else if (auto u = std::dynamic_pointer_cast<Units>(e)) m->addUnits(u);
        else {
            auto w = Component::create("wrapper_component");
            m->addComponent(w);
            if (auto v = std::dynamic_pointer_cast<Variable>(e)) w->addVariable(v);
            else if (auto r = std::dynamic_pointer_cast<Reset>(e)) w->addReset(r);
        }
    }
    std::string s = g_printer->printModel(m);
    c.logger(g_printer, "printer");
    return s;
}

// ------------------------------------------------------------------------------------------------ the oracle for one entity
static bool g_mutate = true; // false: family clone-parsed-pre (oracle before mutation only)
static void judgeEntity(const Source &src, size_t ei, Ctx &c, const json &where)
{
    // ---- before any mutation
    auto w = fresh(src, c);
    if (ei >= w->ents.size()) { c.violation("harness:entity-list-not-stable", where); return; }
    EntityPtr e = w->ents[ei];
    const std::string kind = w->kinds[ei];
    std::string modelBefore = deepOf(w->model);
    EntityPtr k = cloneOf(e);
    ++c.judged;
    c.count("clones");
    auto det = [&](json extra) { json j = where; j["entity"] = w->where[ei]; if (extra.is_object()) j.update(extra); return j; };
    if (!k) { c.violation("clone:" + kind + ":returns-null", det({})); return; }
    if (deepOf(w->model) != modelBefore) c.violation("clone:" + kind + ":cloning-changes-the-original", det({{"before", safe(modelBefore, 1500)}, {"after", safe(deepOf(w->model), 1500)}}));
    if (auto pe = std::dynamic_pointer_cast<ParentedEntity>(k))
        if (pe->parent()) c.violation("clone:" + kind + ":clone-has-a-parent", det({}));
    // content, field by field (one violation per field class so that each recorded defect has its own narrow signature)
    Diff d = diffEntity(e, k);
    bool repairable = true;
    for (auto &f : d.fields) {
        c.violation("clone:" + kind + ":content-not-preserved:" + f, det({{"original", safe(contentOf(e), 1500)}, {"clone", safe(contentOf(k), 1500)}}));
        if (!REPAIRABLE.count(f)) repairable = false;
    }
    c.outcome(d.fields.empty() ? "content:all-fields-preserved" : "content:some-field-lost");
    // object identity: nothing reachable from the clone may be reachable from the original's model
    {
        auto ro = reach(w->model), rk = reach(k);
        std::set<std::string> sharedKinds;
        for (auto &kv : rk) if (ro.count(kv.first)) sharedKinds.insert(kv.second);
        for (auto &s : sharedKinds) c.violation("clone:" + kind + ":shares-object-with-original:" + s, det({}));
        c.outcome(sharedKinds.empty() ? "identity:disjoint" : "identity:shared-object");
    }
    // sharing PARTITION of the import sources: entities that share one import source object in the original share one in the clone
    // and vice versa (the printer groups by object identity). Sequence of "first position with the same object" in traversal order.
    if (kind == "component" || kind == "model") {
        auto partition = [](const EntityPtr &root) {
            std::vector<const void *> seq;
            ModelPtr rootModel = std::dynamic_pointer_cast<Model>(root);
            std::function<void(const ComponentPtr &)> walk = [&](const ComponentPtr &comp) {
                if (comp->isImport()) seq.push_back(comp->importSource().get());
                // a variable's units counts as an imported entity of its own unless the cloned MODEL owns it (those are listed once,
                // through the model; WHICH of two content-equal model units a cloned variable is linked to is not serialised)
                for (size_t i = 0; i < comp->variableCount(); ++i) {
                    auto u = comp->variable(i)->units();
                    if (u && u->isImport() && !(rootModel && u->parent() == rootModel)) seq.push_back(u->importSource().get());
                }
                for (size_t i = 0; i < comp->componentCount(); ++i) walk(comp->component(i));
            };
            if (auto m = std::dynamic_pointer_cast<Model>(root)) {
                for (size_t i = 0; i < m->unitsCount(); ++i) if (m->units(i)->isImport()) seq.push_back(m->units(i)->importSource().get());
                for (size_t i = 0; i < m->componentCount(); ++i) walk(m->component(i));
            } else walk(std::dynamic_pointer_cast<Component>(root));
            std::string sig;
            for (size_t i = 0; i < seq.size(); ++i) {
                size_t f = 0;
                while (seq[f] != seq[i]) ++f;
                sig += std::to_string(f) + " ";
            }
            return sig;
        };
        std::string po = partition(e), pk = partition(k);
        if (po != pk) c.violation("clone:" + kind + ":import-source-sharing-partition-differs", det({{"original", po}, {"clone", pk}}));
        if (!po.empty()) c.outcome("import-sharing:" + std::string(po == pk ? "same" : "DIFFERENT") + ":" + std::to_string(std::count(po.begin(), po.end(), ' ')) + "-imported-entities");
    }
    // links of resets (component and model clones). Decided from the statement + the documentation of Component::clone()
    // ("full separate copy ... recreating the full component hierarchy"):
    //  * STRICT: a link to a variable of the reset's OWN component must, in the clone, be the variable at the same position of the
    //    clone's corresponding component (the one re-targeting the code and its documentation establish);
    //  * STRICT (elsewhere in this oracle): presence and name of variable / test_variable (field diff), equals both ways, printed
    //    form, and the linked object never being an object of the original's graph (identity);
    //  * a link to a variable of ANOTHER component (inside or outside the cloned subtree) or of no component: the statement asks
    //    for the same serialisation, equality and independence, not for re-targeting; what the clone does is recorded, not judged.
    if (kind == "component" || kind == "model") {
        std::vector<std::pair<ComponentPtr, ComponentPtr>> stack;
        if (auto m = std::dynamic_pointer_cast<Model>(e)) {
            auto km = std::dynamic_pointer_cast<Model>(k);
            for (size_t i = 0; i < m->componentCount() && i < km->componentCount(); ++i) stack.push_back({m->component(i), km->component(i)});
        } else stack.push_back({std::dynamic_pointer_cast<Component>(e), std::dynamic_pointer_cast<Component>(k)});
        std::map<const Variable *, std::string> insideOriginal, insideClone;
        {
            std::vector<VariablePtr> tmp;
            for (auto &pr : stack) { eqMapOf(pr.first, "r", insideOriginal, tmp); eqMapOf(pr.second, "r", insideClone, tmp); }
        }
        while (!stack.empty()) {
            auto pr = stack.back();
            stack.pop_back();
            for (size_t i = 0; i < pr.first->componentCount() && i < pr.second->componentCount(); ++i) stack.push_back({pr.first->component(i), pr.second->component(i)});
            for (size_t i = 0; i < pr.first->resetCount() && i < pr.second->resetCount(); ++i)
                for (int t = 0; t < 2; ++t) {
                    auto ov = t ? pr.first->reset(i)->testVariable() : pr.first->reset(i)->variable();
                    auto kv = t ? pr.second->reset(i)->testVariable() : pr.second->reset(i)->variable();
                    const char *which = t ? "test_variable" : "variable";
                    if (!ov) { c.outcome(std::string("reset-link:") + which + ":null"); continue; }
                    size_t idx = 0;
                    while (idx < pr.first->variableCount() && pr.first->variable(idx) != ov) ++idx;
                    if (idx < pr.first->variableCount()) {
                        c.outcome(std::string("reset-link:") + which + ":own-component");
                        if (kv != pr.second->variable(idx))
                            c.violation("clone:" + kind + ":reset-link-to-own-component-not-retargeted:" + which,
                                        det({{"clone_link", kv ? (kv->parent() ? "variable of some component" : "parentless variable") : "null"}}));
                        continue;
                    }
                    std::string where = insideOriginal.count(ov.get()) ? "other-component-inside-cloned-subtree" : ov->parent() ? "component-outside-cloned-subtree" : "no-component";
                    std::string got = !kv ? "null" : insideClone.count(kv.get()) ? "clone's-own-variable" : kv->parent() ? "variable-of-a-foreign-component" : "private-parentless-copy";
                    c.outcome(std::string("reset-link:") + which + ":" + where + "->" + got);
                }
        }
    }
    // equivalences of a cloned model connect only its own variables; a lone component/variable has none
    if (auto km = std::dynamic_pointer_cast<Model>(k)) {
        auto ek = eqInfoOf(km), eo = eqInfoOf(w->model);
        if (ek.external) c.violation("clone:model:equivalence-leaves-the-clone", det({{"half_links_to_outside", ek.external}}));
        if (eo.external) c.violation("clone:model:cloning-links-the-original-to-outside-variables", det({{"half_links_to_outside", eo.external}}));
        c.outcome("equivalences:" + std::to_string(eo.internal.size() / 2) + "-in-original");
    } else if (kind == "component" || kind == "variable") {
        std::vector<VariablePtr> vs;
        if (auto kc = std::dynamic_pointer_cast<Component>(k)) collectVars(kc, vs); else vs.push_back(std::dynamic_pointer_cast<Variable>(k));
        size_t n = 0;
        for (auto &v : vs) n += v->equivalentVariableCount();
        if (n) c.violation("clone:" + kind + ":lone-clone-carries-equivalences", det({{"half_links", n}}));
    }
    // the complete oracle on the (causally repaired) clone
    if (!d.fields.empty() && repairable) repair(e, k);
    if (d.fields.empty() || repairable) {
        std::string co = contentOf(e), ck = contentOf(k);
        // (equivalences are documented not to be copied with a lone component/variable; they are in neither dump of such an entity)
        if (co != ck) c.violation("clone:" + kind + ":content-differs" + (d.fields.empty() ? "" : ":after-repair-of-reported-fields"), det({{"original", safe(co, 2000)}, {"clone", safe(ck, 2000)}}));
        bool e1 = e->equals(k), e2 = k->equals(e);
        if (!e1 || !e2) c.violation("clone:" + kind + ":not-equals-original" + (d.fields.empty() ? "" : ":after-repair-of-reported-fields"), det({{"original.equals(clone)", e1}, {"clone.equals(original)", e2}}));
        // printed forms (destructive for non-model entities: they are moved into a wrapper, so this comes last)
        if (auto comp = std::dynamic_pointer_cast<Component>(e)) stripEquivalences(comp);
        if (auto v = std::dynamic_pointer_cast<Variable>(e)) v->removeAllEquivalences();
        std::string pk = printWrapped(k, c), po = printWrapped(e, c);
        if (po != pk) c.violation("clone:" + kind + ":printed-forms-differ" + (d.fields.empty() ? "" : ":after-repair-of-reported-fields"), det({{"original", safe(po, 2500)}, {"clone", safe(pk, 2500)}}));
        c.outcome(po.empty() ? "printed:empty" : "printed:compared");
    }
    if (!g_mutate) return;
    // ---- every single mutation of the original, then of the clone
    size_t nm[2] = {0, 0};
    {
        auto w0 = fresh(src, c);
        auto e0 = w0->ents[ei];
        auto k0 = cloneOf(e0);
        nm[0] = mutsOf(e0).size();
        nm[1] = mutsOf(k0).size();
    }
    for (int side = 0; side < 2; ++side) {
        std::string selfBefore, firstOther;
        for (size_t mi = 0; mi < nm[side]; ++mi) {
            auto w2 = fresh(src, c);
            auto e2 = w2->ents[ei];
            auto k2 = cloneOf(e2);
            if (!k2) break;
            auto ms = mutsOf(side == 0 ? e2 : k2, mi);
            if (mi >= ms.size()) { c.violation("harness:mutation-list-not-stable", det({})); break; }
            auto originalSide = [&] { return deepOf(w2->model) + " ## " + deepOf(e2); };
            // the other side's dump is taken on THIS world right before the mutation (a dump cached from another fresh world would
            // turn any address-dependent getter of the library into a false "changed"); only the vacuity reference is cached
            std::string otherBefore = side == 0 ? deepOf(k2) : originalSide();
            if (mi == 0) selfBefore = side == 0 ? originalSide() : deepOf(k2);
            if (mi == 0) firstOther = otherBefore;
            else if (otherBefore != firstOther) c.outcome("note:dump-differs-between-fresh-worlds(address-dependent-getter)");
            ms.picked.apply();
            std::string otherAfter = side == 0 ? deepOf(k2) : originalSide();
            std::string selfAfter = side == 0 ? originalSide() : deepOf(k2);
            ++c.judged;
            c.count("mutations");
            c.outcome(selfAfter != selfBefore ? "mutation:effective" : "mutation:inert:" + ms.picked.cls);
            if (otherAfter != otherBefore)
                c.violation("clone:" + kind + (side == 0 ? ":mutating-original-changes-clone:" : ":mutating-clone-changes-original:") + ms.picked.cls,
                            det({{"mutation", ms.picked.cls}, {"before", safe(otherBefore, 1500)}, {"after", safe(otherAfter, 1500)}}));
            g_keep.clear();
        }
    }
}

static Source sourceAt(uint64_t i, bool parsed, Ctx *c)
{
    Source s;
    g_twinAlias = false;
    s.spec = specOf(i);
    s.alias = g_twinAlias;
    s.parsed = parsed;
    if (s.parsed) {
        Builder b;
        AliasMap am;
        if (s.alias) b.alias = &am;
        auto m = b.buildModel(s.spec);
        s.text = g_printer->printModel(m);
        if (c) c->logger(g_printer, "printer");
    }
    return s;
}
static void runClone(uint64_t i, bool parsed, Ctx &c, bool mutate = true)
{
    g_mutate = mutate;
    // the printer changes libxml2's process-wide blank handling (C12's finding); print once so that every case starts in the same state
    g_printer->printModel(Model::create("x"));
    Source s = sourceAt(i, parsed, &c);
    if (s.parsed && s.text.empty()) { c.outcome("origin-parsed:not-printable"); return; }
    json where = {{"dims", whereOf(i)}, {"origin", s.parsed ? "printed-then-parsed" : "api"}};
    auto w = fresh(s, c);
    c.outcome(std::string("origin:") + (s.parsed ? "parsed" : "api"));
    c.count("entities", w->ents.size());
    size_t n = w->ents.size();
    w.reset();
    for (size_t ei = 0; ei < n; ++ei) judgeEntity(s, ei, c, where);
}

// ------------------------------------------------------------------------------------------------ foreign equivalences
static uint64_t foreignCount() { return 4 /*shape*/ * 3 /*kind of outside variable*/ * 2 /*internal eqs too*/; }
static void runForeign(uint64_t i, Ctx &c)
{
    Radix r(i);
    int shape = int(r.take(4)), outside = int(r.take(3)), internal = int(r.take(2));
    Dims d{shape, 1, 1, 1, 0, internal ? 3 : 0, 0, 1};
    Builder b;
    auto m = b.buildModel(modelSpec(d));
    VariablePtr mine = Builder::locate(m, json({0, 1})); // A.v2
    VariablePtr w = Variable::create("outside_variable");
    std::vector<std::shared_ptr<void>> keep;
    if (outside == 1) { auto oc = Component::create("orphan_component"); oc->addVariable(w); keep.push_back(oc); }
    if (outside == 2) {
        auto om = Model::create("other_model");
        auto o1 = Component::create("o1"), o2 = Component::create("o2"), o3 = Component::create("o3");
        om->addComponent(o1); o1->addComponent(o2); o2->addComponent(o3); o3->addVariable(Variable::create("pad0")); o3->addVariable(Variable::create("pad1")); o3->addVariable(Variable::create("pad2")); o3->addVariable(w);
        keep.push_back(om);
    }
    bool linked = Variable::addEquivalence(mine, w, "foreign_map", "foreign_con");
    c.outcome(std::string("foreign-link:") + (linked ? "made" : "refused") + ":" + (outside == 0 ? "orphan-variable" : outside == 1 ? "variable-of-orphan-component" : "variable-of-another-model"));
    auto before = eqInfoOf(m);
    ++c.judged;
    auto k = m->clone(); // must not crash (the supervisor turns a crash into a violation at this index)
    auto eo = eqInfoOf(m), ek = eqInfoOf(k);
    json det = {{"shape", shape}, {"outside", outside}, {"internal_equivalences", bool(internal)}};
    if (eo.internal != before.internal || eo.external != before.external) c.violation("clone:model:foreign-equivalence:cloning-changes-the-original's-equivalences", det);
    std::set<std::string> a, bb;
    for (auto &kv : eo.internal) a.insert(kv.first);
    for (auto &kv : ek.internal) bb.insert(kv.first);
    if (a != bb) {
        std::string extra, missing;
        for (auto &x : bb) if (!a.count(x)) extra += x + " ";
        for (auto &x : a) if (!bb.count(x)) missing += x + " ";
        det["extra_in_clone"] = extra;
        det["missing_in_clone"] = missing;
        c.violation(std::string("clone:model:foreign-equivalence:own-variables-connected-differently:") + (extra.empty() ? "" : "extra") + (missing.empty() ? "" : "missing"), det);
    }
    // the clone must not be linked to the ORIGINAL's variables in any case
    std::map<const Variable *, std::string> names;
    std::vector<VariablePtr> ov, kv;
    for (size_t x = 0; x < m->componentCount(); ++x) eqMapOf(m->component(x), std::to_string(x), names, ov);
    for (size_t x = 0; x < k->componentCount(); ++x) collectVars(k->component(x), kv);
    for (auto &v : kv)
        for (size_t x = 0; x < v->equivalentVariableCount(); ++x)
            if (names.count(v->equivalentVariable(x).get())) c.violation("clone:model:foreign-equivalence:clone-linked-to-the-original's-variables", det);
    c.outcome("foreign-link-in-clone:" + std::string(ek.external ? "kept-to-the-same-outside-variable" : "dropped"));
}

int main(int argc, char **argv)
{
    bool thorough = false;
    for (int a = 1; a < argc; ++a) if (strcmp(argv[a], "--thorough") == 0 || strcmp(argv[a], "--thorough=1") == 0) thorough = true;
    setTier(thorough);
    g_printer = Printer::create();
    g_parser = Parser::create();
    std::vector<Family> fs = {
        {"clone-api", specCount, [](uint64_t i, Ctx &c) { runClone(i, false, c); },
         [](uint64_t i) { Source s = sourceAt(i, false, nullptr); return json{{"dims", dimsJson(dimsAt(i))}, {"origin", "api"}, {"spec", s.spec}}; }},
        {"clone-parsed", specCount, [](uint64_t i, Ctx &c) { runClone(i, true, c); },
         [](uint64_t i) { Source s = sourceAt(i, true, nullptr); return json{{"dims", dimsJson(dimsAt(i))}, {"origin", "printed-then-parsed"}, {"spec", s.spec}, {"document", s.text}}; }},
        {"clone-parsed-pre", specCount, [](uint64_t i, Ctx &c) { runClone(i, true, c, false); },
         [](uint64_t i) { Source s = sourceAt(i, true, nullptr); return json{{"dims", dimsJson(dimsAt(i))}, {"origin", "printed-then-parsed"}, {"mutations", false}, {"document", s.text}}; }},
        {"resets-api", resetGridCount, [](uint64_t i, Ctx &c) { g_grid = 1; runClone(i, false, c); g_grid = 0; },
         [](uint64_t i) { g_grid = 1; json j = {{"dims", whereOf(i)}, {"origin", "api"}, {"spec", specOf(i)}}; g_grid = 0; return j; }},
        {"imports-api", importGridCount, [](uint64_t i, Ctx &c) { g_grid = 2; runClone(i, false, c); g_grid = 0; },
         [](uint64_t i) { g_grid = 2; json j = {{"dims", whereOf(i)}, {"origin", "api"}, {"spec", specOf(i)}}; g_grid = 0; return j; }},
        {"imports-parsed", importGridCount, [](uint64_t i, Ctx &c) { g_grid = 2; runClone(i, true, c); g_grid = 0; },
         [](uint64_t i) { g_grid = 2; Source s = sourceAt(i, true, nullptr); json j = {{"dims", whereOf(i)}, {"origin", "printed-then-parsed"}, {"document", s.text}}; g_grid = 0; return j; }},
        {"twins-api", twinGridCount, [](uint64_t i, Ctx &c) { g_grid = 3; runClone(i, false, c); g_grid = 0; },
         [](uint64_t i) { g_grid = 3; json j = {{"dims", whereOf(i)}, {"origin", "api"}, {"spec", specOf(i)}}; g_grid = 0; return j; }},
        {"twins-parsed", twinGridCount, [](uint64_t i, Ctx &c) { g_grid = 3; runClone(i, true, c); g_grid = 0; },
         [](uint64_t i) { g_grid = 3; Source s = sourceAt(i, true, nullptr); json j = {{"dims", whereOf(i)}, {"origin", "printed-then-parsed"}, {"document", s.text}}; g_grid = 0; return j; }},
        {"eqpos-api", eqPosCount, [](uint64_t i, Ctx &c) { g_grid = 4; runClone(i, false, c, false); g_grid = 0; },
         [](uint64_t i) { g_grid = 4; json j = {{"dims", whereOf(i)}, {"origin", "api"}, {"mutations", false}, {"spec", specOf(i)}}; g_grid = 0; return j; }},
        {"eqpos-parsed", eqPosCount, [](uint64_t i, Ctx &c) { g_grid = 4; runClone(i, true, c, false); g_grid = 0; },
         [](uint64_t i) { g_grid = 4; Source s = sourceAt(i, true, nullptr); json j = {{"dims", whereOf(i)}, {"origin", "printed-then-parsed"}, {"mutations", false}, {"document", s.text}}; g_grid = 0; return j; }},
        {"foreign-eq", foreignCount, runForeign, [](uint64_t i) { Radix r(i); int sh = int(r.take(4)), o = int(r.take(3)), in = int(r.take(2)); return json{{"shape", sh}, {"outside", o}, {"internal", in}}; }},
    };
    return harnessMain(argc, argv, fs);
}
