// Shared by c10.cpp (equals) and c11.cpp (clone): the single place where a plain-data entity SPEC (JSON) becomes
// libcellml objects through the public API, the generic single-mutation enumerator over specs, and the
// equality-canonical tree (children as sorted multisets, exactly the attributes equals() is documented to cover).
// Nothing in here calls equals(), clone() or the printer.
//
// Spec schema (all keys optional unless noted):
//   import source : {"k":"is","id","url"}
//   units         : {"k":"units","name","id","iref","isrc":null|{"id","url","share":tag},"unit":[{"ref","prefix","exp","mult","id"}],"link":bool}
//   variable      : {"k":"var","name","id","iv","iface","u":null|units-spec, "eqx":bool (equivalent to a kept-alive outside variable)}
//   reset         : {"k":"reset","id","oset":bool,"order":int,"var":null|int(index into the owning component)|[model path]|variable-spec,"tvar":same,
//                    "tval","tid","rval","rid"}
//   component     : {"k":"comp","name","id","eid","math","iref","isrc","variables":[..],"resets":[..],"components":[..]}
//   model         : {"k":"model","name","id","eid","units":[..],"components":[..],
//                    "eqs":[{"a":[ci,..,vi],"b":[ci,..,vi],"mid","cid"}]}
//   any           : "parented":bool -> the entity is put under a kept-alive parent (parents are not part of equality)
#pragma once
#include "common.hpp"

namespace vf {

// ------------------------------------------------------------------------------------------------ builder
// Alias registry: when set, every shareable sub-object (an ImportSource, the own Units object of a variable, the free-standing
// variable a reset points at - objects without a parent, so several owners may hold one instance) is created once per distinct
// CONTENT and the same instance is handed to every owner whose sub-spec is identical, across all entities built with the registry.
using AliasMap = std::map<std::string, std::shared_ptr<void>>;
inline uint64_t g_aliasReuses = 0;
struct Builder
{
    AliasMap *alias = nullptr;
    template<class T, class F> std::shared_ptr<T> aliased(const char *site, const json &j, F make)
    {
        if (!alias) return make();
        std::string key = site + j.dump();
        auto it = alias->find(key);
        if (it != alias->end()) { ++g_aliasReuses; return std::static_pointer_cast<T>(it->second); }
        auto o = make();
        (*alias)[key] = o;
        return o;
    }
    std::vector<std::shared_ptr<void>> keep; // parents, outside variables, ... kept alive as long as the built entity
    std::map<std::string, ImportSourcePtr> shared;
    ModelPtr model; // context for "link": variables use the model's units object of that name (as the parser does)
    struct Pending { ResetPtr reset; bool test; json path; };
    std::vector<Pending> pending; // reset variables given as a model path [ci,..,vi] (a variable of ANOTHER component: invalid but representable)

    static std::string S(const json &j, const char *k) { return j.contains(k) && j[k].is_string() ? j[k].get<std::string>() : std::string(); }
    static bool B(const json &j, const char *k) { return j.contains(k) && j[k].is_boolean() && j[k].get<bool>(); }

    ImportSourcePtr importSource(const json &j)
    {
        std::string tag = S(j, "share");
        if (!tag.empty() && shared.count(tag)) return shared[tag];
        auto is = ImportSource::create();
        if (j.contains("id")) is->setId(S(j, "id"));
        if (j.contains("url")) is->setUrl(S(j, "url"));
        if (!tag.empty()) shared[tag] = is;
        return is;
    }
    void imported(const ImportedEntityPtr &e, const json &j)
    {
        if (j.contains("isrc") && j["isrc"].is_object()) e->setImportSource(aliased<ImportSource>("is:", j["isrc"], [&] { return importSource(j["isrc"]); }));
        if (j.contains("iref")) e->setImportReference(S(j, "iref"));
    }
    UnitsPtr units(const json &j)
    {
        if (j.contains("ulink") && j["ulink"].is_number_integer() && model) { // the model's units at that POSITION (content-equal units twins)
            auto u = model->units(size_t(j["ulink"].get<int>()));
            if (u) return u;
        }
        if (B(j, "link") && model) {
            auto u = model->units(S(j, "name"));
            if (u) return u;
        }
        auto u = Units::create();
        if (j.contains("name")) u->setName(S(j, "name"));
        if (j.contains("id")) u->setId(S(j, "id"));
        imported(u, j);
        if (j.contains("unit"))
            for (auto &c : j["unit"])
                u->addUnit(S(c, "ref"), S(c, "prefix"), c.value("exp", 1.0), c.value("mult", 1.0), S(c, "id"));
        if (B(j, "parented")) {
            auto m = Model::create("parent_of_units");
            m->addUnits(u);
            keep.push_back(m);
        }
        return u;
    }
    VariablePtr variable(const json &j)
    {
        auto v = Variable::create();
        if (j.contains("name")) v->setName(S(j, "name"));
        if (j.contains("id")) v->setId(S(j, "id"));
        if (j.contains("iv")) v->setInitialValue(S(j, "iv"));
        if (j.contains("iface")) v->setInterfaceType(S(j, "iface"));
        if (j.contains("u") && j["u"].is_object()) {
            const json &u = j["u"];
            bool own = !(B(u, "link") && model && model->units(S(u, "name"))) && !B(u, "parented") && !u.contains("ulink");
            v->setUnits(own ? aliased<Units>("u:", u, [&] { return units(u); }) : units(u));
        }
        if (B(j, "parented")) {
            auto c = Component::create("parent_of_variable");
            c->addVariable(v);
            keep.push_back(c);
        }
        if (B(j, "eqx")) {
            auto c = Component::create("outside");
            auto w = Variable::create("outside_variable");
            c->addVariable(w);
            if (!v->hasParent()) { auto p = Component::create("p"); p->addVariable(v); keep.push_back(p); }
            Variable::addEquivalence(v, w, "outside_map", "outside_con");
            keep.push_back(c);
        }
        return v;
    }
    VariablePtr resetVar(const json &j, const char *k, const ComponentPtr &owner)
    {
        if (!j.contains(k)) return nullptr;
        const json &r = j[k];
        if (r.is_number_integer()) return owner ? owner->variable(size_t(r.get<int>())) : nullptr;
        if (r.is_object()) return (B(r, "parented") || B(r, "eqx")) ? variable(r) : aliased<Variable>("v:", r, [&] { return variable(r); });
        return nullptr;
    }
    ResetPtr reset(const json &j, const ComponentPtr &owner = nullptr)
    {
        auto r = Reset::create();
        if (j.contains("id")) r->setId(S(j, "id"));
        if (B(j, "oset")) r->setOrder(j.value("order", 0));
        if (auto v = resetVar(j, "var", owner)) r->setVariable(v);
        if (auto v = resetVar(j, "tvar", owner)) r->setTestVariable(v);
        if (j.contains("var") && j["var"].is_array()) pending.push_back({r, false, j["var"]});
        if (j.contains("tvar") && j["tvar"].is_array()) pending.push_back({r, true, j["tvar"]});
        if (j.contains("tval")) r->setTestValue(S(j, "tval"));
        if (j.contains("tid")) r->setTestValueId(S(j, "tid"));
        if (j.contains("rval")) r->setResetValue(S(j, "rval"));
        if (j.contains("rid")) r->setResetValueId(S(j, "rid"));
        if (B(j, "parented")) {
            auto c = Component::create("parent_of_reset");
            c->addReset(r);
            keep.push_back(c);
        }
        return r;
    }
    ComponentPtr component(const json &j)
    {
        auto c = Component::create();
        if (j.contains("name")) c->setName(S(j, "name"));
        if (j.contains("id")) c->setId(S(j, "id"));
        if (j.contains("eid")) c->setEncapsulationId(S(j, "eid"));
        if (j.contains("math")) c->setMath(S(j, "math"));
        imported(c, j);
        if (j.contains("variables")) for (auto &v : j["variables"]) c->addVariable(variable(v));
        if (j.contains("resets")) for (auto &r : j["resets"]) c->addReset(reset(r, c));
        if (j.contains("components")) for (auto &k : j["components"]) c->addComponent(component(k));
        if (B(j, "parented")) {
            auto p = Component::create("parent_of_component");
            p->addComponent(c);
            keep.push_back(p);
        }
        return c;
    }
    static VariablePtr locate(const ModelPtr &m, const json &path)
    {
        if (!path.is_array() || path.size() < 2) return nullptr;
        ComponentPtr c = m->component(size_t(path[0].get<int>()));
        for (size_t i = 1; c && i + 1 < path.size(); ++i) c = c->component(size_t(path[i].get<int>()));
        return c ? c->variable(size_t(path[path.size() - 1].get<int>())) : nullptr;
    }
    ModelPtr buildModel(const json &j)
    {
        auto m = Model::create();
        model = m;
        if (j.contains("name")) m->setName(S(j, "name"));
        if (j.contains("id")) m->setId(S(j, "id"));
        if (j.contains("eid")) m->setEncapsulationId(S(j, "eid"));
        if (j.contains("units")) for (auto &u : j["units"]) m->addUnits(units(u));
        if (j.contains("components")) for (auto &c : j["components"]) m->addComponent(component(c));
        for (auto &pd : pending)
            if (auto v = locate(m, pd.path)) { if (pd.test) pd.reset->setTestVariable(v); else pd.reset->setVariable(v); }
        pending.clear();
        if (j.contains("eqs"))
            for (auto &e : j["eqs"]) {
                auto a = locate(m, e["a"]), b = locate(m, e["b"]);
                if (a && b) Variable::addEquivalence(a, b, S(e, "mid"), S(e, "cid"));
            }
        return m;
    }
    EntityPtr build(const json &j)
    {
        if (j.is_null()) return nullptr;
        std::string k = S(j, "k");
        if (k == "model") return buildModel(j);
        if (k == "comp") return component(j);
        if (k == "var") return variable(j);
        if (k == "units") return units(j);
        if (k == "reset") return reset(j);
        if (k == "is") return importSource(j);
        return nullptr;
    }
};

// ------------------------------------------------------------------------------------------------ spec mutation
static const char *MATH_A = "<math xmlns=\"http://www.w3.org/1998/Math/MathML\"><apply><eq/><ci>v1</ci><ci>v2</ci></apply></math>";
static const char *MATH_B = "<math xmlns=\"http://www.w3.org/1998/Math/MathML\"><apply><eq/><ci>v2</ci><apply><plus/><ci>v1</ci><ci>v1</ci></apply></apply></math>";
static const char *MATH_C = "<math xmlns=\"http://www.w3.org/1998/Math/MathML\"><cn xmlns:cellml=\"http://www.cellml.org/cellml/2.0#\" cellml:units=\"second\">1</cn></math>";

inline json freshChild(const std::string &key)
{
    if (key == "unit") return {{"ref", "kelvin"}, {"prefix", "micro"}, {"exp", 3.0}, {"mult", 7.0}, {"id", "fresh_unit"}};
    if (key == "units") return {{"k", "units"}, {"name", "fresh_units"}, {"id", "fresh_units_id"}, {"unit", json::array({{{"ref", "ampere"}, {"prefix", ""}, {"exp", 1.0}, {"mult", 1.0}, {"id", ""}}})}};
    if (key == "variables") return {{"k", "var"}, {"name", "fresh_v"}, {"id", "fresh_v_id"}, {"iv", "9"}, {"iface", "public"}, {"u", {{"k", "units"}, {"name", "second"}}}};
    if (key == "resets") return {{"k", "reset"}, {"id", "fresh_r"}, {"oset", true}, {"order", 77}, {"var", nullptr}, {"tvar", nullptr}, {"tval", MATH_C}, {"tid", "fresh_t"}, {"rval", MATH_C}, {"rid", "fresh_rv"}};
    if (key == "components") return {{"k", "comp"}, {"name", "fresh_c"}, {"id", "fresh_c_id"}};
    return nullptr;
}
inline json freshOptional(const std::string &key)
{
    if (key == "isrc") return {{"id", "fresh_is"}, {"url", "fresh.cellml"}};
    if (key == "u") return {{"k", "units"}, {"name", "fresh_u"}};
    if (key == "var" || key == "tvar") return {{"k", "var"}, {"name", "fresh_rv"}};
    return nullptr;
}
inline std::string altString(const std::string &key, const std::string &v)
{
    if (key == "prefix") return v == "milli" ? "kilo" : "milli";
    if (key == "iface") return v == "public" ? "private" : "public";
    if (key == "iv") return v == "1.0" ? "2.5" : "1.0";
    if (key == "math" || key == "tval" || key == "rval") return v == MATH_A ? MATH_B : MATH_A;
    if (key == "ref" && !v.empty()) return v == "second" ? "metre" : "second";
    return v + "_x";
}
inline bool isChildArrayKey(const std::string &k) { return k == "unit" || k == "units" || k == "variables" || k == "resets" || k == "components"; }

struct SpecMutation
{
    std::string what; // class of the mutation (no indices)
    json spec;
};

// fix the integer references of resets to their component's variables after a change of the variables array
inline void remapResetRefs(json &comp, const std::function<json(int)> &f)
{
    if (!comp.contains("resets")) return;
    for (auto &r : comp["resets"])
        for (const char *k : {"var", "tvar"})
            if (r.contains(k) && r[k].is_number_integer()) r[k] = f(r[k].get<int>());
}

// All single mutations of `root` at every depth. `ptr` walks with a JSON pointer so that every mutation is a copy of root.
inline void enumerateMutations(const json &root, const json::json_pointer &at, const std::string &path, std::vector<SpecMutation> &out, bool permutations)
{
    const json &node = root[at];
    if (!node.is_object()) return;
    for (auto it = node.begin(); it != node.end(); ++it) {
        const std::string key = it.key();
        if (key == "k" || key == "eqs" || key == "parented" || key == "eqx" || key == "link" || key == "share") continue;
        const json &v = it.value();
        auto here = at / key;
        std::string p = path + "/" + key;
        if (isChildArrayKey(key) && v.is_array()) {
            size_t n = v.size();
            for (size_t i = 0; i < n; ++i) { // remove child i
                json m = root;
                m[here].erase(i);
                if (key == "variables") remapResetRefs(m[at], [&](int r) -> json { if (r == int(i)) return nullptr; return r > int(i) ? r - 1 : r; });
                out.push_back({"remove" + p, m});
            }
            for (size_t i = 0; i < n; ++i) { // add a copy of sibling i (multiset case)
                json m = root;
                m[here].push_back(v[i]);
                out.push_back({"add-copy-of-sibling" + p, m});
            }
            {
                json m = root;
                m[here].push_back(freshChild(key));
                out.push_back({"add-fresh" + p, m});
            }
            if (permutations && n >= 2 && n <= 4) {
                std::vector<int> perm(n);
                for (size_t i = 0; i < n; ++i) perm[i] = int(i);
                while (std::next_permutation(perm.begin(), perm.end())) {
                    json m = root;
                    json arr = json::array();
                    for (size_t i = 0; i < n; ++i) arr.push_back(v[size_t(perm[i])]);
                    m[here] = arr;
                    if (key == "variables") remapResetRefs(m[at], [&](int r) -> json { for (size_t i = 0; i < n; ++i) if (perm[i] == r) return int(i); return nullptr; });
                    out.push_back({"permute" + p, m});
                }
            }
            for (size_t i = 0; i < n; ++i) enumerateMutations(root, here / i, p, out, permutations);
        } else if (key == "isrc" || key == "u" || ((key == "var" || key == "tvar") && !v.is_number_integer())) {
            if (v.is_object()) {
                json m = root;
                m[here] = nullptr;
                out.push_back({"remove" + p, m});
                enumerateMutations(root, here, p, out, permutations);
            } else {
                json m = root;
                m[here] = freshOptional(key);
                out.push_back({"add" + p, m});
            }
        } else if (key == "var" || key == "tvar") { // integer reference to a sibling variable
            json m = root;
            m[here] = nullptr;
            out.push_back({"remove" + p, m});
            json m2 = root;
            m2[here] = v.get<int>() == 0 ? 1 : 0; // the other of the two variables of the owning component
            out.push_back({"alter" + p, m2});
        } else if (v.is_string()) {
            json m = root;
            m[here] = altString(key, v.get<std::string>());
            out.push_back({"alter" + p, m});
            if (!v.get<std::string>().empty()) {
                json e = root;
                e[here] = "";
                out.push_back({"empty" + p, e});
            }
        } else if (v.is_number_float()) {
            json m = root;
            m[here] = key == "mult" ? (v.get<double>() == 0 ? 1.0 : v.get<double>() * 1000.0) : v.get<double>() + 1.0;
            out.push_back({"alter" + p, m});
        } else if (v.is_number_integer()) {
            json m = root;
            m[here] = v.get<int>() + 1;
            out.push_back({"alter" + p, m});
        } else if (v.is_boolean()) {
            json m = root;
            m[here] = !v.get<bool>();
            out.push_back({"flip" + p, m});
        }
    }
}

// ------------------------------------------------------------------------------------------------ equality canon
// Exactly what the statement of C10 says equality covers; children as multisets; parents/equivalences excluded.
struct CNode
{
    std::string kind, head;
    std::map<std::string, std::vector<CNode>> kids;
    std::string cached;
    const std::string &str()
    {
        if (!cached.empty()) return cached;
        std::string s = "(" + kind + " " + head;
        for (auto &kv : kids) {
            std::vector<std::string> v;
            for (auto &c : kv.second) v.push_back(c.str());
            std::sort(v.begin(), v.end());
            s += " [" + kv.first;
            for (auto &x : v) s += x;
            s += "]";
        }
        cached = s + ")";
        return cached;
    }
};
inline std::string dbl17(double d)
{
    char b[64];
    snprintf(b, sizeof b, "%.17g", d + 0.0);
    return b;
}
inline std::string eqImport(const ImportedEntityPtr &e)
{
    std::string s = " imp=" + std::string(e->isImport() ? "1" : "0") + " iref=" + q(e->importReference());
    if (e->isImport()) s += " src=(" + q(e->importSource()->id()) + " " + q(e->importSource()->url()) + ")";
    return s;
}
inline CNode eqImportSource(const ImportSourcePtr &i)
{
    CNode n;
    n.kind = "importsource";
    n.head = "id=" + q(i->id()) + " url=" + q(i->url());
    return n;
}
inline CNode eqUnits(const UnitsPtr &u)
{
    CNode n;
    n.kind = "units";
    n.head = "name=" + q(u->name()) + " id=" + q(u->id()) + eqImport(u);
    auto &k = n.kids["unit"];
    for (size_t i = 0; i < u->unitCount(); ++i) {
        CNode c;
        c.kind = "unit";
        c.head = "ref=" + q(u->unitAttributeReference(i)) + " p=" + q(u->unitAttributePrefix(i)) + " e=" + dbl17(u->unitAttributeExponent(i)) + " m=" + dbl17(u->unitAttributeMultiplier(i)) + " id=" + q(u->unitId(i));
        k.push_back(c);
    }
    return n;
}
inline CNode eqVariable(const VariablePtr &v)
{
    CNode n;
    n.kind = "variable";
    auto u = v->units();
    n.head = "name=" + q(v->name()) + " id=" + q(v->id()) + " iv=" + q(v->initialValue()) + " if=" + q(v->interfaceType()) + " u=" + (u ? eqUnits(u).str() : std::string("<none>"));
    return n;
}
inline CNode eqReset(const ResetPtr &r)
{
    CNode n;
    n.kind = "reset";
    // the statement covers the order VALUE (order()), not the presence flag
    n.head = "id=" + q(r->id()) + " order=" + std::to_string(r->order()) + " v=" + (r->variable() ? eqVariable(r->variable()).str() : std::string("<null>"))
             + " tv=" + (r->testVariable() ? eqVariable(r->testVariable()).str() : std::string("<null>")) + " test=" + q(r->testValue()) + " tid=" + q(r->testValueId())
             + " value=" + q(r->resetValue()) + " rid=" + q(r->resetValueId());
    return n;
}
inline CNode eqComponent(const ComponentPtr &c, int depth = 0)
{
    CNode n;
    n.kind = "component";
    n.head = "name=" + q(c->name()) + " id=" + q(c->id()) + " eid=" + q(c->encapsulationId()) + " math=" + q(c->math()) + eqImport(c);
    auto &vs = n.kids["variable"];
    auto &rs = n.kids["reset"];
    auto &cs = n.kids["component"];
    for (size_t i = 0; i < c->variableCount(); ++i) vs.push_back(eqVariable(c->variable(i)));
    for (size_t i = 0; i < c->resetCount(); ++i) rs.push_back(eqReset(c->reset(i)));
    if (depth < 32) for (size_t i = 0; i < c->componentCount(); ++i) cs.push_back(eqComponent(c->component(i), depth + 1));
    return n;
}
inline CNode eqModel(const ModelPtr &m)
{
    CNode n;
    n.kind = "model";
    n.head = "name=" + q(m->name()) + " id=" + q(m->id()) + " eid=" + q(m->encapsulationId());
    auto &us = n.kids["units"];
    auto &cs = n.kids["component"];
    for (size_t i = 0; i < m->unitsCount(); ++i) us.push_back(eqUnits(m->units(i)));
    for (size_t i = 0; i < m->componentCount(); ++i) cs.push_back(eqComponent(m->component(i)));
    return n;
}
inline CNode eqEntity(const EntityPtr &e)
{
    if (auto m = std::dynamic_pointer_cast<Model>(e)) return eqModel(m);
    if (auto c = std::dynamic_pointer_cast<Component>(e)) return eqComponent(c);
    if (auto v = std::dynamic_pointer_cast<Variable>(e)) return eqVariable(v);
    if (auto u = std::dynamic_pointer_cast<Units>(e)) return eqUnits(u);
    if (auto r = std::dynamic_pointer_cast<Reset>(e)) return eqReset(r);
    if (auto i = std::dynamic_pointer_cast<ImportSource>(e)) return eqImportSource(i);
    CNode n;
    n.kind = "unknown";
    return n;
}

} // namespace vf
