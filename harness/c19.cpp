// FLAVOURS: asan plain
// C19 — model repair helpers establish what they promise.
// fix1/fix2/fix3: Model::fixVariableInterfaces over ALL rooted forests (parent vectors p[i] in {-1,0..i-1}) x hub component x
//   every ordered sequence of 1..3 distinct target places (forest components, a component of another model, a component outside any
//   model, no component at all) x EVERY initial interface string from {unset, public, private, public_and_private, none, foo} on
//   every connected variable; bystanders that must stay untouched.
// link: Model::linkUnits over all 6^4 units assignments x 2 layouts.  cleanc / cleanu: Model::clean() over forests seeded with one or
//   two (possibly nested) component seeds in every slot, and over every sequence of units kinds.
// The reference (required interface from the forest, emptiness by the documented definition) is computed from the specification of
// the case, never from the objects.
#include "common.hpp"

using namespace vf;

namespace {

bool g_thorough = false;

// ================================================================== fixVariableInterfaces
// "" = never set; 1..3 legal and meaningful; "none" legal but never sufficient; the rest invalid: "foo" and, for every legal value,
// strings that contain it as prefix, suffix and infix (an invalid string is never a sufficient interface, whatever it contains)
const char *IFACE[] = {"", "public", "private", "public_and_private", "none", "foo",
                       "publicx", "xpublic", "xpublicx", "privatex", "xprivate", "xprivatex", "public_and_privatex", "xpublic_and_private", "xpublic_and_privatex",
                       "nonex", "xnone", "xnonex", "private_and_public", "public_private", "none_public", "public private", "Public", "PRIVATE"};
const int NBASE = 6, NIFACE = int(sizeof IFACE / sizeof IFACE[0]);
// families: 1,2,3 = that many links; 4 = two links with the hub string over the whole menu (fix2x)
int famK(int f) { return f <= 3 ? f : 2; }
int hubMenu(int f) { return (f == 1 || f == 4) ? NIFACE : NBASE; }
int tgtMenu(int f) { return f == 1 ? NIFACE : NBASE; }
uint64_t perStruct(int f) { uint64_t r = uint64_t(hubMenu(f)); for (int i = 0; i < famK(f); ++i) r *= uint64_t(tgtMenu(f)); return r; }
struct FixStruct { int n; std::vector<int> par; int hub; std::vector<int> targets; };
std::vector<FixStruct> g_fix[5]; // by family

void forests(int n, std::vector<std::vector<int>> &out)
{
    std::vector<int> p(n, -1);
    std::function<void(int)> rec = [&](int i) {
        if (i == n) { out.push_back(p); return; }
        for (int v = -1; v < i; ++v) { p[i] = v; rec(i + 1); }
    };
    rec(1 <= n ? 1 : 0);
    if (n == 0) out.clear();
}
void buildFixStructs()
{
    for (int f = 1; f <= 4; ++f) {
        int k = famK(f);
        int nmax = f <= 2 ? (g_thorough ? 5 : 4) : (g_thorough ? 4 : 3);
        for (int n = 1; n <= nmax; ++n) {
            std::vector<std::vector<int>> fs;
            forests(n, fs);
            int places = n + 3;
            for (auto &par : fs) for (int hub = 0; hub < n; ++hub) {
                std::vector<int> seq;
                std::function<void()> rec = [&]() {
                    if (int(seq.size()) == k) { g_fix[f].push_back({n, par, hub, seq}); return; }
                    for (int t = 0; t < places; ++t) {
                        if (t == hub || std::find(seq.begin(), seq.end(), t) != seq.end()) continue;
                        seq.push_back(t); rec(); seq.pop_back();
                    }
                };
                rec();
            }
        }
    }
}

// relation of the component at place a to the component at place b, from the parent vector only
enum Rel { SIBLING, PARENT_OF_ME, CHILD_OF_ME, UNREACHABLE_IN_MODEL, OTHER_MODEL, OUTSIDE_ANY_MODEL, NO_COMPONENT };
const char *REL[] = {"sibling", "parent", "child", "unreachable-in-model", "other-model", "component-outside-any-model", "parentless-variable"};
Rel relation(const FixStruct &s, int a, int b)
{ // a is always a forest component
    if (b == s.n + 2) return NO_COMPONENT;
    if (b == s.n + 1) return OUTSIDE_ANY_MODEL;
    if (b == s.n) return OTHER_MODEL;
    if (s.par[a] == s.par[b]) return SIBLING;
    if (s.par[a] == b) return PARENT_OF_ME;
    if (s.par[b] == a) return CHILD_OF_ME;
    return UNREACHABLE_IN_MODEL;
}
bool suffices(const std::string &iface, bool pub, bool priv)
{
    if (iface == "public_and_private") return true;
    if (pub && priv) return false;
    if (pub) return iface == "public";
    if (priv) return iface == "private";
    return true;
}
std::string needStr(bool pub, bool priv) { return pub && priv ? "public_and_private" : pub ? "public" : priv ? "private" : "nothing"; }

struct FixWorld
{
    ModelPtr m, other;
    std::vector<ComponentPtr> comp;
    ComponentPtr x, y, e1, e2;
    VariablePtr h, b, w1, w2;
    std::vector<VariablePtr> t;
};
void setIface(const VariablePtr &v, int opt) { if (opt) v->setInterfaceType(std::string(IFACE[opt])); }
FixWorld buildFix(const FixStruct &s, const std::vector<int> &assign)
{
    FixWorld w;
    w.m = Model::create("m");
    w.other = Model::create("other");
    for (int i = 0; i < s.n; ++i) w.comp.push_back(Component::create("c" + std::to_string(i)));
    for (int i = 0; i < s.n; ++i) { if (s.par[i] < 0) w.m->addComponent(w.comp[i]); else w.comp[s.par[i]]->addComponent(w.comp[i]); }
    w.e1 = Component::create("e1"); w.e2 = Component::create("e2");
    w.m->addComponent(w.e1); w.m->addComponent(w.e2);
    w.x = Component::create("x"); w.other->addComponent(w.x);
    w.y = Component::create("y");
    auto mk = [](const std::string &n) { auto v = Variable::create(n); v->setUnits("second"); return v; };
    w.b = mk("b"); w.b->setInterfaceType(std::string("foo")); w.comp[s.hub]->addVariable(w.b);
    w.h = mk("h"); w.comp[s.hub]->addVariable(w.h);
    setIface(w.h, assign[0]);
    for (size_t j = 0; j < s.targets.size(); ++j) {
        auto v = mk("t" + std::to_string(j));
        int p = s.targets[j];
        if (p < s.n) w.comp[p]->addVariable(v); else if (p == s.n) w.x->addVariable(v); else if (p == s.n + 1) w.y->addVariable(v);
        setIface(v, assign[j + 1]);
        w.t.push_back(v);
    }
    w.w1 = mk("w1"); w.w1->setInterfaceType(std::string("public_and_private")); w.e1->addVariable(w.w1);
    w.w2 = mk("w2"); w.w2->setInterfaceType(std::string("public")); w.e2->addVariable(w.w2);
    Variable::addEquivalence(w.w1, w.w2);
    for (auto &v : w.t) Variable::addEquivalence(w.h, v);
    return w;
}
json fixShow(const FixStruct &s, const std::vector<int> &assign)
{
    json j = {{"components", s.n}, {"parent_of", s.par}, {"hub_component", s.hub}};
    json t = json::array();
    for (size_t k = 0; k < s.targets.size(); ++k) {
        int p = s.targets[k];
        t.push_back({{"place", p < s.n ? "c" + std::to_string(p) : p == s.n ? "component of another model" : p == s.n + 1 ? "component outside any model" : "no component"},
                     {"relation_to_hub", REL[relation(s, s.hub, p)]}, {"interface", assign[k + 1] ? IFACE[assign[k + 1]] : "<unset>"}});
    }
    j["hub_interface"] = assign[0] ? IFACE[assign[0]] : "<unset>";
    j["targets_in_order_of_addEquivalence"] = t;
    return j;
}
void decodeFix(int f, uint64_t idx, const FixStruct *&s, std::vector<int> &assign)
{
    uint64_t per = perStruct(f);
    s = &g_fix[f].at(idx / per);
    Radix r(idx % per);
    assign.clear();
    assign.push_back(int(r.take(uint64_t(hubMenu(f)))));
    for (int i = 0; i < famK(f); ++i) assign.push_back(int(r.take(uint64_t(tgtMenu(f)))));
}
std::map<std::string, int> g_emitted;
void report(Ctx &c, const std::string &sig, const json &detail)
{
    c.count("violations_by_class:" + sig);
    if (g_emitted[sig]++ < 2) c.violation(sig, detail);
}
void runFix(int f, uint64_t idx, Ctx &c)
{
    const FixStruct *sp;
    std::vector<int> assign;
    decodeFix(f, idx, sp, assign);
    const FixStruct &s = *sp;
    FixWorld w = buildFix(s, assign);
    CanonOpt o; o.sort = false;
    std::string before = canonModel(w.m, o) + canonModel(w.other, o) + canonComponent(w.y, o);
    // ---- reference
    std::vector<Rel> rels;
    for (int p : s.targets) rels.push_back(relation(s, s.hub, p));
    bool hubBad = false, hubPub = false, hubPriv = false;
    for (Rel r : rels) {
        if (r == SIBLING || r == PARENT_OF_ME) hubPub = true; else if (r == CHILD_OF_ME) hubPriv = true; else hubBad = true;
    }
    bool wantRet = !hubBad; // a target inside the model has the hub as its only equivalence: bad exactly when the hub's link to it is
    std::string relStr;
    for (Rel r : rels) relStr += std::string(relStr.empty() ? "" : ",") + REL[r];
    // ---- call
    bool ret = w.m->fixVariableInterfaces();
    ++c.judged;
    json d = fixShow(s, assign);
    d["returned"] = ret;
    d["want_return"] = wantRet;
    c.outcome(std::string(ret ? "true" : "false") + ":hub-links=" + relStr);
    if (ret != wantRet) report(c, std::string("fix:returned-") + (ret ? "true-with-unreachable-or-parentless-equivalence" : "false-with-all-equivalences-reachable") + ":hub-links=" + relStr, d);
    auto judgeVar = [&](const VariablePtr &v, int opt, bool inModel, bool bad, bool pub, bool priv, const std::string &who) {
        std::string init = IFACE[opt], fin = v->interfaceType();
        std::string ctx = who + ":" + (ret ? "ret-true" : "ret-false");
        json dd = d; dd["variable"] = v->name(); dd["initial"] = opt ? init : "<unset>"; dd["final"] = fin; dd["needs"] = needStr(pub, priv);
        if (!inModel) { if (fin != init) report(c, "fix:variable-outside-the-model-changed:" + who, dd); return; }
        if (bad) { if (fin != init) report(c, "fix:variable-with-unreachable-equivalence-changed:" + ctx + ":" + (opt ? init : "unset") + "->" + fin, dd); return; }
        if (suffices(init, pub, priv)) { if (fin != init) report(c, "fix:sufficient-interface-rewritten:" + ctx + ":" + init + "->" + fin + ":needs-" + needStr(pub, priv), dd); return; }
        if (!suffices(fin, pub, priv)) report(c, "fix:insufficient-interface-left:" + ctx + ":" + (opt ? init : "unset") + "->" + (fin.empty() ? "unset" : fin) + ":needs-" + needStr(pub, priv), dd);
        else c.count(fin == needStr(pub, priv) ? "fixed_to_exactly_required" : "fixed_to_more_than_required");
    };
    judgeVar(w.h, assign[0], true, hubBad, hubPub, hubPriv, "hub");
    for (size_t j = 0; j < w.t.size(); ++j) {
        Rel r = rels[j];
        bool inModel = s.targets[j] < s.n;
        // seen from the target, the hub is: sibling -> public, my child (hub is a child of the target's component) -> private, my parent -> public
        bool bad = !(r == SIBLING || r == PARENT_OF_ME || r == CHILD_OF_ME);
        bool pub = r == SIBLING || r == CHILD_OF_ME, priv = r == PARENT_OF_ME;
        judgeVar(w.t[j], assign[j + 1], inModel, bad, pub, priv, std::string("target:") + REL[r]);
    }
    if (w.b->interfaceType() != "foo") report(c, "fix:bystander-without-equivalence-changed", d);
    if (w.w1->interfaceType() != "public_and_private" || w.w2->interfaceType() != "public") report(c, "fix:sufficient-unrelated-pair-changed", d);
    // ---- validator agrees when true is returned
    if (ret) {
        auto validator = Validator::create();
        validator->validateModel(w.m);
        c.logger(validator, "validator");
        for (size_t i = 0; i < validator->issueCount(); ++i) {
            auto r = validator->issue(i)->referenceRule();
            if (r >= Issue::ReferenceRule::MAP_VARIABLES_ELEMENT && r <= Issue::ReferenceRule::MAP_VARIABLES_UNIQUE) {
                json dd = d; dd["issues"] = issuesJson(validator, 6);
                report(c, "fix:returned-true-but-validator-raises-map_variables-issue:hub-links=" + relStr, dd);
                break;
            }
        }
    }
    // ---- frame: with the interfaces put back nothing else may differ
    auto restore = [](const VariablePtr &v, int opt) { if (opt) v->setInterfaceType(std::string(IFACE[opt])); else v->removeInterfaceType(); };
    restore(w.h, assign[0]);
    for (size_t j = 0; j < w.t.size(); ++j) restore(w.t[j], assign[j + 1]);
    w.b->setInterfaceType(std::string("foo")); w.w1->setInterfaceType(std::string("public_and_private")); w.w2->setInterfaceType(std::string("public"));
    std::string after = canonModel(w.m, o) + canonModel(w.other, o) + canonComponent(w.y, o);
    if (after != before) { json dd = d; dd["before"] = before; dd["after"] = after; report(c, "fix:something-other-than-interfaces-changed", dd); }
}

// ================================================================== linkUnits
const char *UOPT[] = {"standard-name", "model-units-by-string", "model-units-object", "equal-named-object-of-another-model", "parentless-object-missing-from-model", "none"};
json linkShow(uint64_t idx)
{
    Radix r(idx);
    json j;
    j["layout"] = r.take(2) ? "c2 is a child of c1" : "c1 and c2 are siblings";
    json a = json::array();
    for (int i = 0; i < 4; ++i) a.push_back(UOPT[r.take(6)]);
    j["units_of_c1.v0_c1.v1_c2.v0_c2.v1"] = a;
    return j;
}
void runLink(uint64_t idx, Ctx &c)
{
    Radix r(idx);
    bool nested = r.take(2);
    int opt[4];
    for (int &o : opt) o = int(r.take(6));
    auto m = Model::create("m"), other = Model::create("other");
    auto mku = [](const std::string &n, const char *ref) { auto u = Units::create(n); u->addUnit(ref); return u; };
    m->addUnits(mku("u", "metre")); m->addUnits(mku("w", "second"));
    other->addUnits(mku("u", "metre"));
    auto c1 = Component::create("c1"), c2 = Component::create("c2");
    m->addComponent(c1);
    if (nested) c1->addComponent(c2); else m->addComponent(c2);
    std::vector<VariablePtr> v;
    std::vector<UnitsPtr> held;
    for (int i = 0; i < 4; ++i) {
        auto x = Variable::create("v" + std::to_string(i % 2));
        (i < 2 ? c1 : c2)->addVariable(x);
        switch (opt[i]) {
        case 0: x->setUnits("second"); break;
        case 1: x->setUnits("u"); break;
        case 2: x->setUnits(m->units("u")); break;
        case 3: x->setUnits(other->units("u")); break;
        case 4: { auto g = Units::create("ghost"); g->addUnit("metre"); x->setUnits(g); break; }
        default: break;
        }
        v.push_back(x);
        held.push_back(x->units());
    }
    bool want = true;
    for (int o : opt) if (o == 3 || o == 4) want = false;
    CanonOpt co; co.sort = false;
    std::string otherBefore = canonModel(other, co);
    for (int round = 0; round < 2; ++round) { // the second call checks idempotence
        bool ret = m->linkUnits();
        bool unl = m->hasUnlinkedUnits();
        std::string rd = round ? ":second-call" : "";
        json d = linkShow(idx);
        d["returned"] = ret; d["hasUnlinkedUnits"] = unl;
        if (!round) { ++c.judged; c.outcome(std::string(ret ? "true" : "false") + (unl ? ":unlinked" : ":linked")); }
        if (ret != want) report(c, std::string("link:returned-") + (ret ? "true-with-missing-or-foreign-units" : "false-with-everything-linkable") + rd, d);
        if (unl != !want) report(c, std::string("link:hasUnlinkedUnits-") + (unl ? "true-after-complete-link" : "false-with-missing-or-foreign-units") + rd, d);
        for (int i = 0; i < 4; ++i) {
            auto u = v[i]->units();
            std::string who = std::string(UOPT[opt[i]]) + (want ? ":ret-true" : ":ret-false") + rd;
            switch (opt[i]) {
            case 0: if (u != held[i]) report(c, "link:standard-units-replaced:" + who, d); break;
            case 1:
            case 2: if (u != m->units("u")) report(c, "link:variable-does-not-hold-the-models-units-object:" + who, d); break;
            case 3:
            case 4: if (u != held[i]) report(c, "link:unlinkable-units-replaced:" + who, d); break;
            default: if (u) report(c, "link:units-appeared-on-variable-without-units", d); break;
            }
        }
        if (m->unitsCount() != 2 || m->units(0)->name() != "u" || m->units(1)->name() != "w" || m->units(0)->unitCount() != 1) report(c, "link:models-units-list-changed" + rd, d);
        if (canonModel(other, co) != otherBefore) report(c, "link:other-model-changed" + rd, d);
    }
}

// ================================================================== clean()
struct CSpec
{
    std::string name, id, math, encId;
    bool var = false, reset = false, import = false;
    bool model = false; // the pseudo node holding the top-level components
    std::vector<CSpec> kids;
};
const int NSEED = 14;
const char *SEEDNAME[NSEED] = {"empty", "id-only", "name-only", "math-only", "variable-only", "reset-only", "import-only", "encapsulation-id-only", "empty>empty",
                               "empty>name-only", "empty>(empty,id-only)", "empty>empty>empty", "name-only>empty", "empty>(empty,empty)"};
CSpec seed(int v, const std::string &tag)
{
    CSpec e, s;
    switch (v) {
    case 0: break;
    case 1: s.id = "id_" + tag; break;
    case 2: s.name = "n_" + tag; break;
    case 3: s.math = "<math xmlns=\"http://www.w3.org/1998/Math/MathML\"/>"; break;
    case 4: s.var = true; break;
    case 5: s.reset = true; break;
    case 6: s.import = true; break;
    case 7: s.encId = "enc_" + tag; break;
    case 8: s.kids = {e}; break;
    case 9: { CSpec k; k.name = "n_" + tag; s.kids = {k}; break; }
    case 10: { CSpec k; k.id = "id_" + tag; s.kids = {e, k}; break; }
    case 11: { CSpec k; k.kids = {e}; s.kids = {k}; break; }
    case 12: s.name = "n_" + tag; s.kids = {e}; break;
    case 13: s.kids = {e, e}; break;
    }
    return s;
}
ComponentPtr buildComp(const CSpec &s)
{
    auto c = Component::create();
    if (!s.name.empty()) c->setName(s.name);
    if (!s.id.empty()) c->setId(s.id);
    if (!s.encId.empty()) c->setEncapsulationId(s.encId);
    if (!s.math.empty()) c->setMath(s.math);
    if (s.var) { auto v = Variable::create("v"); v->setUnits("second"); c->addVariable(v); }
    if (s.reset) c->addReset(Reset::create());
    if (s.import) { auto is = ImportSource::create(); is->setUrl("elsewhere.cellml"); c->setImportSource(is); c->setImportReference("thing"); }
    for (auto &k : s.kids) c->addComponent(buildComp(k));
    return c;
}
// units kinds
const int NUKIND = 7;
const char *UKIND[NUKIND] = {"named+child", "name-only", "empty", "id-only", "child-only", "import-only", "name+id"};
UnitsPtr buildUnits(int kind, int pos)
{
    auto u = Units::create();
    std::string tag = std::to_string(pos);
    if (kind == 0 || kind == 1 || kind == 6) u->setName("u" + tag);
    if (kind == 3 || kind == 6) u->setId("uid" + tag);
    if (kind == 0 || kind == 4) u->addUnit("metre");
    if (kind == 5) { auto is = ImportSource::create(); is->setUrl("elsewhere.cellml"); u->setImportSource(is); u->setImportReference("thing"); }
    return u;
}
ModelPtr buildModel(const CSpec &root, const std::vector<int> &units)
{
    auto m = Model::create("m");
    for (size_t i = 0; i < units.size(); ++i) m->addUnits(buildUnits(units[i], int(i)));
    for (auto &k : root.kids) m->addComponent(buildComp(k));
    return m;
}
// the documented definition: no name, identifier, resets, variables, maths, or non-empty child components (recursively from the leaves).
// A component that is nothing but an import, or carries nothing but an encapsulation id, is not covered by the wording: both outcomes
// are allowed (decided by the bits of 'choice', consumed in depth-first order).
bool pruneComp(CSpec &s, unsigned &choice, int &ambiguous)
{ // returns true when s is to be removed
    std::vector<CSpec> keep;
    for (auto &k : s.kids) if (!pruneComp(k, choice, ambiguous)) keep.push_back(k);
    s.kids = keep;
    bool intrinsic = s.name.empty() && s.id.empty() && s.math.empty() && !s.var && !s.reset && s.kids.empty();
    if (!intrinsic) return false;
    if (s.import || !s.encId.empty()) { ++ambiguous; bool rm = choice & 1u; choice >>= 1; return rm; }
    return true;
}
json specJson(const CSpec &s)
{
    json j = json::object();
    if (!s.name.empty()) j["name"] = s.name;
    if (!s.id.empty()) j["id"] = s.id;
    if (!s.math.empty()) j["math"] = true;
    if (!s.encId.empty()) j["encapsulation_id"] = s.encId;
    if (s.var) j["variable"] = true;
    if (s.reset) j["reset"] = true;
    if (s.import) j["import"] = true;
    if (!s.kids.empty()) { json a = json::array(); for (auto &k : s.kids) a.push_back(specJson(k)); j["components"] = a; }
    return j;
}
// slots of a spec tree: (path, index)
struct Slot { std::vector<int> path; int idx; };
void slots(const CSpec &s, std::vector<int> &path, std::vector<Slot> &out)
{
    for (int i = 0; i <= int(s.kids.size()); ++i) out.push_back({path, i});
    for (size_t i = 0; i < s.kids.size(); ++i) { path.push_back(int(i)); slots(s.kids[i], path, out); path.pop_back(); }
}
void insertAt(CSpec &root, const Slot &sl, const CSpec &what)
{
    CSpec *p = &root;
    for (int i : sl.path) p = &p->kids[i];
    p->kids.insert(p->kids.begin() + sl.idx, what);
}
CSpec forestSpec(const std::vector<int> &par)
{
    int n = int(par.size());
    std::function<CSpec(int)> node = [&](int i) {
        CSpec s; s.name = "c" + std::to_string(i); s.var = true;
        for (int j = 0; j < n; ++j) if (par[j] == i) s.kids.push_back(node(j));
        return s;
    };
    CSpec root; root.model = true;
    for (int j = 0; j < n; ++j) if (par[j] < 0) root.kids.push_back(node(j));
    return root;
}
struct CleanCase { CSpec root; std::string what; };
std::vector<std::pair<std::vector<int>, int>> g_cleanForest; // forest, number of seeds
// index space: forest f, nseeds; enumerated lazily by counting
struct CleanIndex { std::vector<uint64_t> start; std::vector<std::vector<int>> forest; std::vector<int> nseeds; uint64_t total = 0; };
CleanIndex g_ci;
uint64_t countCases(const std::vector<int> &par, int nseeds)
{
    CSpec base = forestSpec(par);
    std::vector<Slot> s1; std::vector<int> p;
    slots(base, p, s1);
    if (nseeds == 1) return uint64_t(s1.size()) * NSEED;
    uint64_t tot = 0;
    for (auto &sl : s1) for (int v = 0; v < NSEED; ++v) {
        CSpec t = base; insertAt(t, sl, seed(v, "a"));
        std::vector<Slot> s2; p.clear(); slots(t, p, s2);
        tot += uint64_t(s2.size()) * NSEED;
    }
    return tot;
}
void buildCleanIndex()
{
    int nmax1 = g_thorough ? 5 : 4, nmax2 = g_thorough ? 4 : 3;
    for (int n = 0; n <= nmax1; ++n) {
        std::vector<std::vector<int>> fs;
        if (n == 0) fs.push_back({}); else forests(n, fs);
        for (auto &f : fs) for (int ns = 1; ns <= 2; ++ns) {
            if (ns == 2 && n > nmax2) continue;
            g_ci.start.push_back(g_ci.total); g_ci.forest.push_back(f); g_ci.nseeds.push_back(ns);
            g_ci.total += countCases(f, ns);
        }
    }
}
CleanCase decodeClean(uint64_t idx)
{
    size_t g = std::upper_bound(g_ci.start.begin(), g_ci.start.end(), idx) - g_ci.start.begin() - 1;
    uint64_t r = idx - g_ci.start[g];
    CSpec base = forestSpec(g_ci.forest[g]);
    std::vector<Slot> s1; std::vector<int> p;
    slots(base, p, s1);
    CleanCase cc;
    if (g_ci.nseeds[g] == 1) {
        int v = int(r % NSEED); const Slot &sl = s1[r / NSEED];
        insertAt(base, sl, seed(v, "a"));
        cc.root = base; cc.what = std::string("one seed: ") + SEEDNAME[v];
        return cc;
    }
    for (auto &sl : s1) for (int v = 0; v < NSEED; ++v) {
        CSpec t = base; insertAt(t, sl, seed(v, "a"));
        std::vector<Slot> s2; p.clear(); slots(t, p, s2);
        uint64_t here = uint64_t(s2.size()) * NSEED;
        if (r < here) {
            int v2 = int(r % NSEED);
            insertAt(t, s2[r / NSEED], seed(v2, "b"));
            cc.root = t; cc.what = std::string("two seeds: ") + SEEDNAME[v] + " then " + SEEDNAME[v2];
            return cc;
        }
        r -= here;
    }
    return cc;
}
std::string seedClass(const CleanCase &cc) { return cc.what; }
void judgeClean(Ctx &c, const CSpec &root, const std::vector<int> &units, const std::string &fam, const std::string &cls, const json &show)
{
    auto m = buildModel(root, units);
    CanonOpt o; o.sort = false;
    std::string before = canonModel(m, o);
    m->clean();
    std::string after = canonModel(m, o);
    ++c.judged;
    // expected: every allowed choice for the entities the documented definition does not cover
    std::set<std::string> allowed;
    std::string firstWant;
    int maxA = 0;
    for (unsigned choice = 0; choice < (1u << maxA); ++choice) {
        CSpec t = root;
        unsigned ch = choice; int a = 0;
        std::vector<CSpec> keep;
        for (auto &k : t.kids) if (!pruneComp(k, ch, a)) keep.push_back(k);
        t.kids = keep;
        std::vector<int> uk; // units: removed when no name, no id, no child units; import-only is not covered by the wording
        std::vector<int> upos;
        for (size_t i = 0; i < units.size(); ++i) {
            bool empty = units[i] == 2, ambiguous = units[i] == 5;
            if (empty) continue;
            if (ambiguous) { ++a; bool rm = ch & 1u; ch >>= 1; if (rm) continue; }
            uk.push_back(units[i]); upos.push_back(int(i));
        }
        maxA = std::max(maxA, std::min(a, 6));
        auto em = Model::create("m");
        for (size_t i = 0; i < uk.size(); ++i) em->addUnits(buildUnits(uk[i], upos[i]));
        for (auto &k : t.kids) em->addComponent(buildComp(k));
        std::string want = canonModel(em, o);
        if (choice == 0) firstWant = want;
        allowed.insert(want);
    }
    {
        auto countSub = [](const std::string &t, const std::string &k) { size_t n = 0, p = 0; while ((p = t.find(k, p)) != std::string::npos) { ++n; p += k.size(); } return n; };
        c.outcome(cls + ":components-removed=" + std::to_string(countSub(before, "(component ") - countSub(after, "(component ")) + ":units-removed=" + std::to_string(countSub(before, "(units ") - countSub(after, "(units ")));
    }
    if (!allowed.count(after)) {
        json d = show; d["before"] = before; d["after"] = after; d["want(one of " + std::to_string(allowed.size()) + ")"] = firstWant;
        report(c, fam + ":content-after-clean-differs:" + cls, d);
    }
    // idempotent
    m->clean();
    if (canonModel(m, o) != after) report(c, fam + ":second-clean-changes-the-model:" + cls, show);
}
void runCleanC(uint64_t idx, Ctx &c)
{
    CleanCase cc = decodeClean(idx);
    json show = {{"what", cc.what}, {"top_level_components", specJson(cc.root)["components"]}, {"units", "named+child, empty, name-only"}};
    judgeClean(c, cc.root, {0, 2, 1}, "cleanc", seedClass(cc), show);
}
int g_ulen = 4;
uint64_t cleanUCount() { uint64_t t = 0, p = 1; for (int l = 0; l <= g_ulen; ++l) { t += p; p *= NUKIND; } return t; }
std::vector<int> decodeU(uint64_t idx)
{
    uint64_t p = 1; int l = 0;
    while (idx >= p) { idx -= p; p *= NUKIND; ++l; }
    std::vector<int> u;
    for (int i = 0; i < l; ++i) { u.push_back(int(idx % NUKIND)); idx /= NUKIND; }
    return u;
}
void runCleanU(uint64_t idx, Ctx &c)
{
    std::vector<int> u = decodeU(idx);
    CSpec root; root.model = true;
    CSpec a; a.name = "c0"; a.var = true; root.kids = {seed(0, "x"), a};
    json names = json::array();
    std::string cls;
    int ne = 0, ni = 0;
    for (int k : u) { names.push_back(UKIND[k]); ne += k == 2; ni += k == 5; }
    cls = "units:" + std::to_string(u.size()) + ":empty=" + std::to_string(ne) + ":import-only=" + std::to_string(ni);
    judgeClean(c, root, u, "cleanu", cls, {{"units_in_order", names}, {"components", "empty, c0{variable}"}});
}

} // namespace

int main(int argc, char **argv)
{
    const char *t = getenv("C19_TIER");
    g_thorough = t && std::string(t) == "thorough";
    g_ulen = g_thorough ? 5 : 4;
    buildFixStructs();
    buildCleanIndex();
    auto fixFam = [](int k) {
        return Family{k == 4 ? std::string("fix2x") : "fix" + std::to_string(k), [k] { return uint64_t(g_fix[k].size()) * perStruct(k); }, [k](uint64_t i, Ctx &c) { runFix(k, i, c); },
                      [k](uint64_t i) { const FixStruct *s; std::vector<int> a; decodeFix(k, i, s, a); return fixShow(*s, a); }};
    };
    std::vector<Family> fs = {
        fixFam(1), fixFam(2), fixFam(3), fixFam(4),
        {"link", [] { return uint64_t(2 * 6 * 6 * 6 * 6); }, runLink, linkShow},
        {"cleanc", [] { return g_ci.total; }, runCleanC, [](uint64_t i) { CleanCase cc = decodeClean(i); return json{{"what", cc.what}, {"top_level_components", specJson(cc.root)["components"]}}; }},
        {"cleanu", cleanUCount, runCleanU, [](uint64_t i) { json a = json::array(); for (int k : decodeU(i)) a.push_back(UKIND[k]); return json{{"units_in_order", a}}; }},
    };
    return harnessMain(argc, argv, fs);
}
