// FLAVOURS: asan plain
// C08 — unit compatibility and scaling obey the algebra of units.
// Bounded-exhaustive: the pool U of all units definitions over the menus below (see buildPool), ALL ordered pairs of U,
// ALL triples of a sub-pool holding every distinct reduction class, null/undefined/parentless arguments, order/indirection
// twins, and a cross-implementation family (validator verdict + hint) on all ordered pairs of the sub-pool.
// The reference (Rat, Scale, reduce) is exact and shares nothing with units.cpp / validator.cpp / utilities.h.
#include "common.hpp"

#include <numeric>

using namespace vf;

namespace {

// ------------------------------------------------------------------ exact arithmetic of the reference
struct Rat
{
    long long n = 0, d = 1;
    Rat() = default;
    Rat(long long a, long long b = 1) : n(a), d(b)
    {
        if (d < 0) { n = -n; d = -d; }
        long long g = std::gcd(n < 0 ? -n : n, d);
        if (g > 1) { n /= g; d /= g; }
        if (n == 0) d = 1;
    }
    Rat operator+(const Rat &o) const { return Rat(n * o.d + o.n * d, d * o.d); }
    Rat operator-(const Rat &o) const { return Rat(n * o.d - o.n * d, d * o.d); }
    Rat operator*(const Rat &o) const { return Rat(n * o.n, d * o.d); }
    bool operator==(const Rat &o) const { return n == o.n && d == o.d; }
    bool operator!=(const Rat &o) const { return !(*this == o); }
    bool operator<(const Rat &o) const { return n * o.d < o.n * d; }
    bool zero() const { return n == 0; }
    long double val() const { return (long double)n / (long double)d; }
    std::string str() const { return d == 1 ? std::to_string(n) : std::to_string(n) + "/" + std::to_string(d); }
};
// log10 of a scale as a + b*log10(2) with rational a, b: exact for every number in the menus (10^k, 1000, 0.25).
struct Scale
{
    Rat a, b;
    Scale operator+(const Scale &o) const { return {a + o.a, b + o.b}; }
    Scale operator-(const Scale &o) const { return {a - o.a, b - o.b}; }
    Scale operator*(const Rat &r) const { return {a * r, b * r}; }
    bool zero() const { return a.zero() && b.zero(); } // log10(2) is irrational
    long double log10v() const { return a.val() + b.val() * 0.30102999566398119521373889472449L; }
    std::string str() const { return "10^(" + a.str() + (b.zero() ? "" : " + " + b.str() + "*log10(2)") + ")"; }
};
using ExpMap = std::map<std::string, Rat>;

// The CellML 2.0 table of built-in units (specification section 3.2 / table 3.1), typed in from the specification:
// name -> SI base-unit exponents and the power of ten relating it to the coherent SI unit.
struct Std { const char *name; int e10; std::vector<std::pair<const char *, int>> base; };
const std::vector<Std> &stdTable()
{
    static const std::vector<Std> t = {
        {"ampere", 0, {{"ampere", 1}}},
        {"becquerel", 0, {{"second", -1}}},
        {"candela", 0, {{"candela", 1}}},
        {"coulomb", 0, {{"second", 1}, {"ampere", 1}}},
        {"dimensionless", 0, {}},
        {"farad", 0, {{"metre", -2}, {"kilogram", -1}, {"second", 4}, {"ampere", 2}}},
        {"gram", -3, {{"kilogram", 1}}},
        {"gray", 0, {{"metre", 2}, {"second", -2}}},
        {"henry", 0, {{"metre", 2}, {"kilogram", 1}, {"second", -2}, {"ampere", -2}}},
        {"hertz", 0, {{"second", -1}}},
        {"joule", 0, {{"metre", 2}, {"kilogram", 1}, {"second", -2}}},
        {"katal", 0, {{"second", -1}, {"mole", 1}}},
        {"kelvin", 0, {{"kelvin", 1}}},
        {"kilogram", 0, {{"kilogram", 1}}},
        {"litre", -3, {{"metre", 3}}},
        {"lumen", 0, {{"candela", 1}}},
        {"lux", 0, {{"metre", -2}, {"candela", 1}}},
        {"metre", 0, {{"metre", 1}}},
        {"mole", 0, {{"mole", 1}}},
        {"newton", 0, {{"metre", 1}, {"kilogram", 1}, {"second", -2}}},
        {"ohm", 0, {{"metre", 2}, {"kilogram", 1}, {"second", -3}, {"ampere", -2}}},
        {"pascal", 0, {{"metre", -1}, {"kilogram", 1}, {"second", -2}}},
        {"radian", 0, {}},
        {"second", 0, {{"second", 1}}},
        {"siemens", 0, {{"metre", -2}, {"kilogram", -1}, {"second", 3}, {"ampere", 2}}},
        {"sievert", 0, {{"metre", 2}, {"second", -2}}},
        {"steradian", 0, {}},
        {"tesla", 0, {{"kilogram", 1}, {"second", -2}, {"ampere", -1}}},
        {"volt", 0, {{"metre", 2}, {"kilogram", 1}, {"second", -3}, {"ampere", -1}}},
        {"watt", 0, {{"metre", 2}, {"kilogram", 1}, {"second", -3}}},
        {"weber", 0, {{"metre", 2}, {"kilogram", 1}, {"second", -2}, {"ampere", -1}}},
    };
    return t;
}
const Std *stdFind(const std::string &n)
{
    for (auto &s : stdTable()) if (n == s.name) return &s;
    return nullptr;
}

// ------------------------------------------------------------------ menus (DESIGN C08)
const char *PREFIX[] = {"", "milli", "kilo", "3", "-2"};
const int PREFIX_E10[] = {0, -3, 3, 3, -2};
const Rat EXPO[] = {Rat(1), Rat(2), Rat(-1), Rat(1, 2), Rat(0)};
const double EXPO_D[] = {1.0, 2.0, -1.0, 0.5, 0.0};
const double MULT_D[] = {1.0, 1000.0, 0.25};
const Scale MULT_S[] = {{Rat(0), Rat(0)}, {Rat(3), Rat(0)}, {Rat(0), Rat(-2)}};
const char *LEAF[] = {"metre", "second", "gram", "litre", "volt", "dimensionless", "apple", "pear"};

struct Attr { int p, e, m; };
struct Item { std::string ref; Attr a; };
struct Def
{
    std::string name;
    std::vector<Item> items;
    bool import = false;
    std::string importRef;
    bool unresolved = false; // import source without a model
};
struct Member
{
    std::string kind;        // group + traits, used in signatures
    std::string trait;       // coarser class for signatures where kind is too fine (generated undefined arguments)
    std::vector<Def> main;   // the model holding the root (empty = the root is parentless)
    std::vector<Def> lib;    // library model for imports
    std::string root;
    bool parentless = false; // root is created outside any model
    bool stdObject = false;  // childless Units object carrying a standard name (what Variable::units() holds for built-ins)
    int twin = -1;           // a member that must be equivalent (other child order / one level of indirection less)
    std::string twinWhy;
    // reference results
    bool defined = false;
    ExpMap map;
    Scale scale;
    bool inDomain = false;   // prefixes and multipliers sit only on children of exponent 1 (all levels)
    std::string cls;         // canonical text of map
    // real objects
    UnitsPtr u;
    ModelPtr model, libModel;
    bool realised = false;
};

std::string attrStr(const Attr &a)
{
    return std::string("p=") + (PREFIX[a.p][0] ? PREFIX[a.p] : "-") + ",e=" + EXPO[a.e].str() + ",m=" + dbl(MULT_D[a.m]);
}
json defJson(const Def &d)
{
    json j = {{"name", d.name}};
    if (d.import) { j["import"] = d.importRef; if (d.unresolved) j["unresolved"] = true; }
    json it = json::array();
    for (auto &i : d.items) it.push_back(i.ref + "[" + attrStr(i.a) + "]");
    j["unit"] = it;
    return j;
}
json memberJson(const Member &m)
{
    json j = {{"kind", m.kind}, {"root", m.root}, {"ref_defined", m.defined}, {"ref_class", m.cls}, {"ref_scale", m.scale.str()}, {"ref_in_si_domain", m.inDomain}};
    if (m.parentless) j["parentless"] = true;
    if (m.stdObject) j["standard_named_object"] = true;
    json a = json::array(), b = json::array();
    for (auto &d : m.main) a.push_back(defJson(d));
    for (auto &d : m.lib) b.push_back(defJson(d));
    j["model"] = a;
    if (!m.lib.empty()) j["library"] = b;
    return j;
}

// ------------------------------------------------------------------ reference reduction (from the spec, never from objects)
const Def *findDef(const std::vector<Def> &defs, const std::string &n)
{
    for (auto &d : defs) if (d.name == n) return &d;
    return nullptr;
}
struct Red { bool defined = true; ExpMap map; Scale scale; bool inDomain = true; };
void addTo(ExpMap &m, const std::string &k, const Rat &r)
{
    auto it = m.find(k);
    if (it == m.end()) m.emplace(k, r); else it->second = it->second + r;
}
Red reduceName(const Member &mb, const std::vector<Def> &scope, const std::string &name, int depth);
Red reduceDef(const Member &mb, const std::vector<Def> &scope, const Def &d, int depth)
{
    Red r;
    if (depth > 16) { r.defined = false; return r; }
    if (d.import) {
        if (d.unresolved) { r.defined = false; return r; }
        const Def *t = findDef(mb.lib, d.importRef);
        if (!t) { r.defined = false; return r; }
        Red x = reduceDef(mb, mb.lib, *t, depth + 1);
        // a user base unit keeps the name under which it is defined; imports in this pool never rename base units
        return x;
    }
    if (d.items.empty()) {
        if (const Std *s = stdFind(d.name)) { // childless object carrying a built-in name
            for (auto &b : s->base) addTo(r.map, b.first, Rat(b.second));
            r.scale = {Rat(s->e10), Rat(0)};
            return r;
        }
        addTo(r.map, d.name, Rat(1)); // user base unit
        return r;
    }
    for (auto &it : d.items) {
        const Rat &e = EXPO[it.a.e];
        if (e != Rat(1) && (it.a.p != 0 || it.a.m != 0)) r.inDomain = false;
        Red c;
        if (const Std *s = stdFind(it.ref)) {
            for (auto &b : s->base) addTo(c.map, b.first, Rat(b.second));
            c.scale = {Rat(s->e10), Rat(0)};
        } else {
            c = reduceName(mb, scope, it.ref, depth + 1);
        }
        if (!c.defined) r.defined = false;
        if (!c.inDomain) r.inDomain = false;
        for (auto &kv : c.map) addTo(r.map, kv.first, kv.second * e);
        // unit = multiplier * (prefix * referenced units)^exponent
        r.scale = r.scale + MULT_S[it.a.m] + (Scale{Rat(PREFIX_E10[it.a.p]), Rat(0)} + c.scale) * e;
    }
    return r;
}
Red reduceName(const Member &mb, const std::vector<Def> &scope, const std::string &name, int depth)
{
    const Def *d = findDef(scope, name);
    if (!d) { Red r; r.defined = false; return r; }
    return reduceDef(mb, scope, *d, depth);
}
std::string classOf(const ExpMap &m)
{
    std::string s;
    for (auto &kv : m) if (!kv.second.zero()) s += kv.first + "^" + kv.second.str() + " ";
    return s.empty() ? "1" : s;
}
void reference(Member &m)
{
    Red r;
    if (m.parentless && !m.stdObject) {
        // outside a model only built-in references can be resolved
        Def d = m.main.at(0);
        std::vector<Def> none;
        r = reduceDef(m, none, d, 0);
    } else {
        r = reduceName(m, m.main, m.root, 0);
    }
    m.defined = r.defined;
    for (auto it = r.map.begin(); it != r.map.end();) it = it->second.zero() ? r.map.erase(it) : std::next(it);
    m.map = r.map;
    m.scale = r.scale;
    m.inDomain = r.inDomain;
    m.cls = m.defined ? classOf(m.map) : "<undefined>";
}

// ------------------------------------------------------------------ real objects
ImporterPtr g_importer;
int g_libCounter = 0;
UnitsPtr makeUnits(const Def &d, ImportSourcePtr is)
{
    auto u = Units::create(d.name);
    if (d.import) {
        u->setImportSource(is);
        u->setImportReference(d.importRef);
    }
    for (auto &it : d.items) u->addUnit(it.ref, PREFIX[it.a.p], EXPO_D[it.a.e], MULT_D[it.a.m]);
    return u;
}
bool importsBaseByName(const Def &d, const Member &m)
{ // an import of a library base unit must keep its name (the pool never renames user base units)
    if (!d.import) return false;
    const Def *t = findDef(m.lib, d.importRef);
    return t && t->items.empty() && !t->import;
}
void realise(Member &m, Ctx *ctx = nullptr)
{
    if (m.realised) return;
    m.realised = true;
    if (!g_importer) g_importer = Importer::create();
    if (m.stdObject) { m.u = Units::create(m.root); return; }
    if (m.parentless) { m.u = makeUnits(m.main.at(0), nullptr); return; }
    m.model = Model::create("m");
    ImportSourcePtr is;
    std::string url = "lib" + std::to_string(g_libCounter++) + ".cellml";
    for (auto &d : m.main) {
        if (d.import && d.unresolved) { // never resolvable: its own source, naming a document that does not exist
            auto none = ImportSource::create();
            none->setUrl("verif_no_such_document_" + std::to_string(g_libCounter) + ".cellml");
            m.model->addUnits(makeUnits(d, none));
            continue;
        }
        if (d.import && !is) { is = ImportSource::create(); is->setUrl(url); }
        m.model->addUnits(makeUnits(d, d.import ? is : nullptr));
    }
    if (!m.lib.empty()) {
        m.libModel = Model::create("lib");
        for (auto &d : m.lib) m.libModel->addUnits(makeUnits(d, nullptr));
        bool hasResolved = false;
        for (auto &d : m.main) if (d.import && !d.unresolved) hasResolved = true;
        if (hasResolved) {
            g_importer->addModel(m.libModel, url);
            g_importer->resolveImports(m.model, "");
        }
    }
    m.u = m.model->units(m.root);
}

// ------------------------------------------------------------------ the pool
std::vector<Member> g_pool, g_special;
size_t g_nbasic = 0; // the hand-listed undefined arguments come first in g_special; the generated partially defined ones follow
std::vector<int> g_sub; // sub-pool: indices into g_pool
bool g_thorough = false;

std::vector<Attr> allAttrs()
{
    std::vector<Attr> v;
    for (int p = 0; p < 5; ++p) for (int e = 0; e < 5; ++e) for (int m = 0; m < 3; ++m) v.push_back({p, e, m});
    return v;
}
// identity; each single deviation; the combinations the statement carves out (prefix/multiplier under exponent != 1)
const std::vector<Attr> ATTR_SMALL = {{0, 0, 0}, {1, 0, 0}, {2, 0, 0}, {3, 0, 0}, {4, 0, 0}, {0, 1, 0}, {0, 2, 0}, {0, 3, 0}, {0, 4, 0}, {0, 0, 1}, {0, 0, 2},
                                      {1, 0, 1}, {1, 1, 0}, {2, 2, 2}, {0, 1, 1}, {4, 3, 0}};
const std::vector<Attr> ATTR_TINY = {{0, 0, 0}, {1, 0, 0}, {0, 1, 0}, {0, 2, 0}, {0, 0, 1}, {2, 1, 0}};

Def baseDef(const std::string &n) { Def d; d.name = n; return d; }
bool isUserBase(const std::string &r) { return r == "apple" || r == "pear"; }
void needBases(std::vector<Def> &defs)
{ // add the childless definitions of the user base units referenced
    std::set<std::string> need;
    for (auto &d : defs) for (auto &it : d.items) if (isUserBase(it.ref) && !findDef(defs, it.ref)) need.insert(it.ref);
    for (auto &n : need) defs.push_back(baseDef(n));
}
// inner definitions used below the root (named "in"; may need a helper "in2")
std::vector<std::vector<Def>> innerDefs()
{
    std::vector<std::vector<Def>> v;
    auto one = [&](std::vector<Item> items) { Def d; d.name = "in"; d.items = items; v.push_back({d}); };
    one({{"metre", {0, 0, 0}}});
    one({{"metre", {1, 0, 0}}});                              // milli metre
    one({{"second", {0, 0, 1}}});                             // 1000 second
    one({{"metre", {0, 1, 0}}});                              // metre^2
    one({{"metre", {0, 0, 0}}, {"second", {0, 2, 0}}});       // metre / second
    one({{"gram", {1, 0, 0}}, {"litre", {0, 2, 0}}});         // milligram / litre
    one({{"apple", {0, 0, 0}}});
    one({{"metre", {2, 1, 2}}});                              // 0.25 (kilo metre)^2: outside the SI-ratio domain
    if (g_thorough) {
        one({{"volt", {0, 0, 0}}});
        one({{"pear", {0, 3, 0}}, {"apple", {0, 2, 0}}});     // pear^0.5 / apple
        one({{"dimensionless", {1, 0, 0}}});                  // milli dimensionless
        one({{"litre", {0, 2, 1}}});                          // 1000 / litre
        one({{"second", {4, 0, 2}}});                         // 0.25 * 10^-2 second
        one({{"metre", {0, 4, 0}}, {"gram", {2, 0, 0}}});     // metre^0 * kilogram
    }
    return v;
}
void add(std::vector<Member> &pool, Member m) { pool.push_back(std::move(m)); }

void buildPool()
{
    auto &P = g_pool;
    auto A = allAttrs();
    // G1: one unit child, every reference x every attribute combination
    std::vector<int> g1;
    for (auto *leaf : LEAF) for (auto &a : A) {
        Member m;
        m.kind = "flat1";
        Def d; d.name = "r"; d.items = {{leaf, a}};
        m.main = {d}; needBases(m.main); m.root = "r";
        g1.push_back(int(P.size()));
        add(P, m);
    }
    // G2: two unit children, all ordered pairs of a child menu (so both child orders are members)
    {
        std::vector<const char *> refs = g_thorough ? std::vector<const char *>{"metre", "second", "gram", "litre", "apple"}
                                                    : std::vector<const char *>{"metre", "second", "gram", "apple"};
        const std::vector<Attr> &am = g_thorough ? ATTR_SMALL : ATTR_TINY;
        std::vector<Item> menu;
        for (auto *r : refs) for (auto &a : am) menu.push_back({r, a});
        size_t base = P.size(), n = menu.size();
        for (size_t i = 0; i < n; ++i) for (size_t j = 0; j < n; ++j) {
            Member m;
            m.kind = "flat2";
            Def d; d.name = "r"; d.items = {menu[i], menu[j]};
            m.main = {d}; needBases(m.main); m.root = "r";
            if (i != j) { m.twin = int(base + j * n + i); m.twinWhy = "child-order"; }
            add(P, m);
        }
    }
    auto inners = innerDefs();
    const std::vector<Attr> &rootAttrs = ATTR_SMALL;
    // G3: depth 1: root -> inner (one child), and root -> inner x second^-1 in both orders
    std::vector<int> g3one;
    for (size_t k = 0; k < inners.size(); ++k) for (auto &a : rootAttrs) {
        Member m;
        m.kind = std::string("nest1") + (a.e == 0 ? "" : ":exp!=1");
        Def d; d.name = "r"; d.items = {{"in", a}};
        m.main = {d}; for (auto &x : inners[k]) m.main.push_back(x); needBases(m.main); m.root = "r";
        g3one.push_back(int(P.size()));
        add(P, m);
        for (int order = 0; order < 2; ++order) {
            Member m2;
            m2.kind = std::string("nest1+leaf") + (a.e == 0 ? "" : ":exp!=1");
            Def d2; d2.name = "r";
            Item i1{"in", a}, i2{"second", {0, 2, 0}};
            d2.items = order ? std::vector<Item>{i2, i1} : std::vector<Item>{i1, i2};
            m2.main = {d2}; for (auto &x : inners[k]) m2.main.push_back(x); needBases(m2.main); m2.root = "r";
            m2.twin = int(P.size()) + (order ? -1 : 1); m2.twinWhy = "child-order";
            add(P, m2);
        }
    }
    // G4: depth 2: root -> mid -> inner
    {
        const std::vector<Attr> &am = g_thorough ? ATTR_SMALL : ATTR_TINY;
        for (size_t k = 0; k < inners.size(); ++k) for (auto &a : am) for (auto &b : ATTR_TINY) {
            Member m;
            m.kind = "nest2";
            Def d; d.name = "r"; d.items = {{"mid", a}};
            Def md; md.name = "mid"; md.items = {{"in", b}};
            m.main = {d, md}; for (auto &x : inners[k]) m.main.push_back(x); needBases(m.main); m.root = "r";
            add(P, m);
        }
    }
    // G5: each as an imported units (thorough: every member so far; quick: G1 with the small attribute menu, all of G3's one-child members)
    {
        std::vector<int> src;
        if (g_thorough) {
            // every member so far, except that two-children members are imported only when both children come from the quick child menu
            auto inQuickMenu = [](const Item &it) {
                bool r = false, a = false;
                for (auto *x : {"metre", "second", "gram", "apple"}) if (it.ref == x) r = true;
                for (auto &t : ATTR_TINY) if (t.p == it.a.p && t.e == it.a.e && t.m == it.a.m) a = true;
                return r && a;
            };
            for (size_t i = 0; i < P.size(); ++i) {
                if (P[i].kind == "flat2" && !(inQuickMenu(P[i].main[0].items[0]) && inQuickMenu(P[i].main[0].items[1]))) continue;
                src.push_back(int(i));
            }
        } else {
            for (int i : g1) { const Attr &a = P[i].main[0].items[0].a; for (auto &s : ATTR_SMALL) if (s.p == a.p && s.e == a.e && s.m == a.m) src.push_back(i); }
            for (int i : g3one) src.push_back(i);
        }
        for (int i : src) {
            Member m;
            m.kind = "imported(" + P[i].kind + ")";
            m.lib = P[i].main;
            Def d; d.name = "r"; d.import = true; d.importRef = P[i].root;
            m.main = {d}; m.root = "r";
            m.twin = i; m.twinWhy = "import-of";
            add(P, m);
        }
        // an imported user base unit keeps its name
        for (auto *b : {"apple", "pear"}) {
            Member m;
            m.kind = "imported-base";
            m.lib = {baseDef(b)};
            Def d; d.name = b; d.import = true; d.importRef = b;
            m.main = {d}; m.root = b;
            add(P, m);
        }
    }
    // G6: reached through an imported intermediate: root -> imp (import of a library definition), alone and x second^-1 in both orders
    for (size_t k = 0; k < inners.size(); ++k) for (auto &a : rootAttrs) {
        Member m;
        m.kind = std::string("via-import") + (a.e == 0 ? ":exp=1" : ":exp!=1");
        Def d; d.name = "r"; d.items = {{"imp", a}};
        Def im; im.name = "imp"; im.import = true; im.importRef = "in";
        m.main = {d, im}; m.lib = inners[k]; needBases(m.lib); m.root = "r";
        add(P, m);
        for (int order = 0; order < 2; ++order) {
            Member m2 = m;
            m2.kind = std::string("via-import+leaf") + (a.e == 0 ? ":exp=1" : ":exp!=1");
            Item i1{"imp", a}, i2{"second", {0, 2, 0}};
            m2.main[0].items = order ? std::vector<Item>{i2, i1} : std::vector<Item>{i1, i2};
            m2.twin = int(P.size()) + (order ? -1 : 1); m2.twinWhy = "child-order";
            add(P, m2);
        }
    }
    // G9: ONE definition reaching the SAME resolved imported units more than once:
    //   twice      r = imp[a] * imp[b]                                  (imp imports the library's "in")
    //   two-names  r = imp[a] * imp2[b]                                 (two imported units naming the same library units)
    //   +local     r = imp[a] * loc[b],  loc = imp[c]   (both orders)   (directly and through a local intermediate that uses the import)
    //   +imported  r = imp[a] * impm[b], impm imports the library's mid = in[c]  (both orders; directly and through an imported intermediate)
    {
        const std::vector<Attr> AP = {{0, 0, 0}, {1, 0, 0}, {0, 1, 0}, {0, 2, 0}};  // identity, milli, ^2, ^-1
        const std::vector<Attr> AC = {{0, 0, 0}, {0, 2, 0}, {0, 1, 0}};             // inner link: identity, ^-1, ^2
        size_t nin = g_thorough ? inners.size() : std::min<size_t>(5, inners.size());
        auto impDef = [](const std::string &n, const std::string &ref) { Def d; d.name = n; d.import = true; d.importRef = ref; return d; };
        for (size_t k = 0; k < nin; ++k) for (auto &a : AP) for (auto &b : AP) {
            std::string ex = (a.e == 0 && b.e == 0) ? ":exp=1" : ":exp!=1";
            {
                Member m; m.kind = "via-same-import-twice" + ex;
                Def d; d.name = "r"; d.items = {{"imp", a}, {"imp", b}};
                m.main = {d, impDef("imp", "in")}; m.lib = inners[k]; needBases(m.lib); m.root = "r";
                add(P, m);
            }
            {
                Member m; m.kind = "via-two-imports-of-same-units" + ex;
                Def d; d.name = "r"; d.items = {{"imp", a}, {"imp2", b}};
                m.main = {d, impDef("imp", "in"), impDef("imp2", "in")}; m.lib = inners[k]; needBases(m.lib); m.root = "r";
                add(P, m);
            }
            for (auto &cc : AC) for (int order = 0; order < 2; ++order) {
                {
                    Member m; m.kind = "via-import+local-intermediate-using-it" + ex;
                    Def d; d.name = "r"; Item i1{"imp", a}, i2{"loc", b};
                    d.items = order ? std::vector<Item>{i2, i1} : std::vector<Item>{i1, i2};
                    Def loc; loc.name = "loc"; loc.items = {{"imp", cc}};
                    m.main = {d, loc, impDef("imp", "in")}; m.lib = inners[k]; needBases(m.lib); m.root = "r";
                    m.twin = int(P.size()) + (order ? -2 : 2); m.twinWhy = "child-order";
                    add(P, m);
                }
                {
                    Member m; m.kind = "via-import+imported-intermediate-using-it" + ex;
                    Def d; d.name = "r"; Item i1{"imp", a}, i2{"impm", b};
                    d.items = order ? std::vector<Item>{i2, i1} : std::vector<Item>{i1, i2};
                    Def mid; mid.name = "mid"; mid.items = {{"in", cc}};
                    m.main = {d, impDef("imp", "in"), impDef("impm", "mid")}; m.lib = inners[k]; m.lib.push_back(mid); needBases(m.lib); m.root = "r";
                    m.twin = int(P.size()) + (order ? -2 : 2); m.twinWhy = "child-order";
                    add(P, m);
                }
            }
        }
    }
    // through an imported user base unit (import keeps the name), every attribute combination
    for (auto &a : A) {
        Member m;
        m.kind = std::string("via-imported-base") + (a.e == 0 ? ":exp=1" : ":exp!=1");
        Def d; d.name = "r"; d.items = {{"apple", a}};
        Def im; im.name = "apple"; im.import = true; im.importRef = "apple";
        m.main = {d, im}; m.lib = {baseDef("apple")}; m.root = "r";
        add(P, m);
    }
    // G7: childless objects carrying each built-in name (what Variable::units() holds after setUnits("litre"))
    for (auto &s : stdTable()) {
        Member m;
        m.kind = "standard-named-object";
        m.stdObject = true; m.parentless = true; m.root = s.name;
        m.main = {baseDef(s.name)};
        add(P, m);
    }
    // G8: parentless definitions over built-in references only (fully defined without a model)
    for (auto *leaf : {"metre", "gram", "volt"}) for (auto &a : ATTR_SMALL) {
        Member m;
        m.kind = "parentless-standard-refs";
        m.parentless = true;
        Def d; d.name = "r"; d.items = {{leaf, a}};
        m.main = {d}; m.root = "r";
        add(P, m);
    }
    for (auto &m : P) reference(m);

    // special arguments: undefined in every way the object model allows (null is handled separately)
    auto &S = g_special;
    { Member m; m.kind = "dangling-reference"; Def d; d.name = "r"; d.items = {{"ghost", {0, 0, 0}}}; m.main = {d}; m.root = "r"; add(S, m); }
    { Member m; m.kind = "dangling-reference+defined-child"; Def d; d.name = "r"; d.items = {{"metre", {0, 0, 0}}, {"ghost", {0, 2, 0}}}; m.main = {d}; m.root = "r"; add(S, m); }
    { Member m; m.kind = "nested-dangling-reference"; Def d; d.name = "r"; d.items = {{"in", {0, 0, 0}}}; Def i; i.name = "in"; i.items = {{"ghost", {0, 0, 0}}}; m.main = {d, i}; m.root = "r"; add(S, m); }
    { Member m; m.kind = "parentless-user-reference"; m.parentless = true; Def d; d.name = "r"; d.items = {{"apple", {0, 0, 0}}}; m.main = {d}; m.root = "r"; add(S, m); }
    { Member m; m.kind = "unresolved-import"; Def d; d.name = "r"; d.import = true; d.importRef = "in"; d.unresolved = true; m.main = {d}; m.lib = innerDefs()[0]; m.root = "r"; add(S, m); }
    { Member m; m.kind = "import-of-missing-units"; Def d; d.name = "r"; d.import = true; d.importRef = "nothere"; m.main = {d}; m.lib = innerDefs()[0]; m.root = "r"; add(S, m); }
    { Member m; m.kind = "via-unresolved-import"; Def d; d.name = "r"; d.items = {{"imp", {0, 0, 0}}}; Def im; im.name = "imp"; im.import = true; im.importRef = "in"; im.unresolved = true; m.main = {d, im}; m.lib = innerDefs()[0]; m.root = "r"; add(S, m); }
    { Member m; m.kind = "via-import-of-missing-units"; Def d; d.name = "r"; d.items = {{"imp", {0, 1, 0}}}; Def im; im.name = "imp"; im.import = true; im.importRef = "nothere"; m.main = {d, im}; m.lib = innerDefs()[0]; m.root = "r"; add(S, m); }
    g_nbasic = S.size();
    // Partially defined definitions: every sequence of 1..3 unit children over a menu of six undefined and four defined references
    // that holds at least one undefined child (so every position of the undefined child among defined ones, and every mix of kinds),
    // directly, behind one local intermediate, and as an imported library definition. None of them is fully defined.
    {
        struct Ref { const char *name; bool undefined; bool needsImport; };
        const std::vector<Ref> menu = {{"ghost", true, false}, {"ca", true, false}, {"selfref", true, false}, {"nd", true, false}, {"impu", true, true}, {"impm", true, true},
                                       {"metre", false, false}, {"apple", false, false}, {"in", false, false}, {"imp", false, true}};
        auto helpers = [&](const std::vector<int> &seq, std::vector<Def> &defs, std::vector<Def> &lib, bool inLibrary) {
            std::set<std::string> used;
            for (int i : seq) used.insert(menu[i].name);
            auto one = [](const std::string &n, const std::string &ref) { Def d; d.name = n; d.items = {{ref, {0, 0, 0}}}; return d; };
            if (used.count("ca")) { defs.push_back(one("ca", "cb")); defs.push_back(one("cb", "ca")); }
            if (used.count("selfref")) defs.push_back(one("selfref", "selfref"));
            if (used.count("nd")) defs.push_back(one("nd", "ghost"));
            if (used.count("apple")) defs.push_back(baseDef("apple"));
            if (used.count("in")) defs.push_back(one("in", "metre"));
            if (inLibrary) return;
            if (used.count("impu")) { Def d; d.name = "impu"; d.import = true; d.importRef = "in"; d.unresolved = true; defs.push_back(d); }
            if (used.count("impm")) { Def d; d.name = "impm"; d.import = true; d.importRef = "nothere"; defs.push_back(d); }
            if (used.count("imp")) { Def d; d.name = "imp"; d.import = true; d.importRef = "in"; defs.push_back(d); }
            if (used.count("impu") || used.count("impm") || used.count("imp")) lib = {one("in", "metre")};
        };
        std::vector<int> seq;
        std::function<void()> emit = [&]() {
            bool anyUndef = false, anyImport = false;
            std::string shape;
            for (int i : seq) { anyUndef |= menu[i].undefined; anyImport |= menu[i].needsImport; shape += std::string(shape.empty() ? "" : "*") + (menu[i].undefined ? "U" : (i == 6 ? "std" : "D")); }
            if (!anyUndef) return;
            std::vector<Item> items;
            for (int i : seq) items.push_back({menu[i].name, {0, 0, 0}});
            // signature trait: what follows the first undefined child
            std::string after = "undefined-child-last";
            {
                bool seenU = false, d = false, st = false;
                for (int i : seq) { if (menu[i].undefined) seenU = true; else if (seenU) { if (i == 6) st = true; else d = true; } }
                if (d) after = "user-defined-child-after-undefined-one"; else if (st) after = "standard-child-after-undefined-one";
            }
            for (int variant = 0; variant < 3; ++variant) {
                if (variant == 2 && anyImport) continue; // the library definition holds no imports of its own
                Member m;
                m.trait = std::string("partially-defined:") + (variant == 0 ? "direct:" : variant == 1 ? "behind-intermediate:" : "imported:") + after;
                m.kind = std::string("partially-defined:") + (variant == 0 ? "direct:" : variant == 1 ? "behind-intermediate:" : "imported:") + shape;
                Def d; d.name = variant == 1 ? "w" : "r"; d.items = items;
                if (variant == 0) { m.main = {d}; helpers(seq, m.main, m.lib, false); }
                else if (variant == 1) { Def r; r.name = "r"; r.items = {{"w", {0, 0, 0}}}; m.main = {r, d}; helpers(seq, m.main, m.lib, false); }
                else { Def r; r.name = "r"; r.import = true; r.importRef = "r"; m.main = {r}; m.lib = {d}; std::vector<Def> none; helpers(seq, m.lib, none, true); }
                m.root = "r";
                add(S, m);
            }
        };
        std::function<void(size_t)> rec = [&](size_t len) {
            if (seq.size() == len) { emit(); return; }
            for (int i = 0; i < int(menu.size()); ++i) { seq.push_back(i); rec(len); seq.pop_back(); }
        };
        for (size_t len = 1; len <= 3; ++len) rec(len);
    }
    for (auto &m : S) reference(m);

    // sub-pool: for every distinct reduction class the first K members of each kind-group (deterministic), so that every class
    // and, inside a class, different scales and different constructions are present
    {
        size_t K = g_thorough ? 3 : 4;
        std::map<std::string, std::vector<int>> byClass;
        std::map<std::string, std::set<std::string>> seen;
        for (size_t i = 0; i < P.size(); ++i) {
            if (!P[i].defined) continue;
            auto &v = byClass[P[i].cls];
            std::string trait = P[i].kind.substr(0, P[i].kind.find_first_of("(:+")) + "|" + P[i].scale.str();
            if (seen[P[i].cls].count(trait)) continue;
            if (v.size() >= K) continue;
            seen[P[i].cls].insert(trait);
            v.push_back(int(i));
        }
        for (auto &kv : byClass) for (int i : kv.second) g_sub.push_back(i);
        // plus every via-import / imported / standard-object kind at least twice (the code paths that differ)
        std::map<std::string, int> perKind;
        std::set<int> in(g_sub.begin(), g_sub.end());
        for (size_t i = 0; i < P.size(); ++i) {
            if (!P[i].defined || in.count(int(i))) continue;
            bool special = P[i].kind.rfind("via-", 0) == 0 || P[i].kind.rfind("imported", 0) == 0 || P[i].stdObject || P[i].parentless;
            if (!special) continue;
            std::string key = P[i].kind + "|" + P[i].cls;
            if (perKind[key]++ < 1 && perKind["#" + P[i].kind]++ < (g_thorough ? 12 : 6)) { g_sub.push_back(int(i)); in.insert(int(i)); }
        }
        std::sort(g_sub.begin(), g_sub.end());
    }
}

bool g_realised = false;
void realiseAll()
{
    if (g_realised) return;
    g_realised = true;
    for (auto &m : g_pool) realise(m);
    for (auto &m : g_special) realise(m);
}

// ------------------------------------------------------------------ violation output with a per-class cap (the classes are few, the pairs many)
std::map<std::string, int> g_emitted;
void report(Ctx &c, const std::string &sig, const json &detail)
{
    c.count("violations_by_class:" + sig);
    if (g_emitted[sig]++ < 2) c.violation(sig, detail);
}
json pairDetail(const Member &a, const Member &b, size_t ia, size_t ib)
{
    return {{"a_index", ia}, {"b_index", ib}, {"a", memberJson(a)}, {"b", memberJson(b)}};
}
bool relClose(long double x, long double y, long double tol = 1e-12L)
{
    if (x == y) return true;
    long double m = std::max(fabsl(x), fabsl(y));
    return fabsl(x - y) <= tol * m;
}
// Signature trait of a pair / triple: the most special construction among the participants (the full kinds are in the detail).
// Keeping one trait instead of the product of kinds keeps the number of violation classes (each is replayed twice) small.
int kindRank(const std::string &k)
{
    static const char *order[] = {"via-", "imported", "standard-named-object", "parentless", "nest2", "nest1", "flat2", "flat1"};
    for (int i = 0; i < 8; ++i) if (k.rfind(order[i], 0) == 0) return i;
    return 8;
}
std::string special(const std::string &x, const std::string &y) { int a = kindRank(x), b = kindRank(y); return (a < b || (a == b && x >= y)) ? x : y; }
std::string kinds(const Member &a, const Member &b) { return "involving:" + special(a.kind, b.kind); }

// judges one ordered pair of fully defined members against the reference; returns the implementation's factor
struct PairRes { bool compat; double f; };
PairRes judgePair(Ctx &c, size_t ia, size_t ib, const std::string &fam)
{
    const Member &a = g_pool[ia], &b = g_pool[ib];
    bool refCompat = a.map == b.map;
    bool ic = Units::compatible(a.u, b.u);
    double f = Units::scalingFactor(a.u, b.u);
    bool ie = Units::equivalent(a.u, b.u);
    ++c.judged;
    bool dom = a.inDomain && b.inDomain;
    if (ic != refCompat) {
        report(c, fam + ":compatible:" + (ic ? "accepts-different-reduction" : "rejects-same-reduction") + ":" + kinds(a, b), pairDetail(a, b, ia, ib));
        return {ic, f};
    }
    if (!refCompat) {
        if (f != 0.0) report(c, fam + ":factor:nonzero-for-incompatible:" + kinds(a, b), pairDetail(a, b, ia, ib));
        if (ie) report(c, fam + ":equivalent:true-for-incompatible:" + kinds(a, b), pairDetail(a, b, ia, ib));
        return {ic, f};
    }
    if (!(f > 0.0) || !std::isfinite(f)) {
        json d = pairDetail(a, b, ia, ib); d["factor"] = dbl(f);
        report(c, fam + ":factor:not-positive-for-compatible:" + kinds(a, b), d);
        return {ic, f};
    }
    Scale want = b.scale - a.scale; // factor = SI(b)/SI(a): "units2 = factor * units1"
    if (dom) {
        c.count("pairs_with_si_oracle");
        long double got = log10l((long double)f), w = want.log10v();
        if (fabsl(got - w) > 1e-12L * std::max(1.0L, fabsl(w))) {
            json d = pairDetail(a, b, ia, ib); d["factor"] = dbl(f); d["want"] = want.str();
            report(c, fam + ":factor:not-ratio-of-si-scales:" + kinds(a, b), d);
        }
    } else c.count("compatible_pairs_outside_si_domain(laws only)");
    // equivalent <=> compatible and factor 1. "Factor 1" is judged like every other factor: bit-exactly 1 must give true, a factor
    // further than 1e-12 from 1 must give false; in between (rounding of the log10 sums; the menus have no scale ratio that close
    // to 1 other than exactly 1) the units are mathematically identical in scale and equivalent must be true.
    {
        json d = pairDetail(a, b, ia, ib);
        char buf[64]; snprintf(buf, sizeof buf, "%.17g", f);
        d["factor"] = buf; d["equivalent"] = ie; d["want"] = want.str();
        if (!relClose(f, 1.0)) { if (ie) report(c, fam + ":equivalent:true-with-factor-not-1:" + kinds(a, b), d); }
        else if (f == 1.0) { if (!ie) report(c, fam + ":equivalent:false-with-factor-exactly-1:" + kinds(a, b), d); }
        else if (!ie) { c.count("equivalent_false_by_rounding"); report(c, fam + ":equivalent:rounding-near-1:" + kinds(a, b), d); }
    }
    return {ic, f};
}

// ------------------------------------------------------------------ family pairs: row a, all b
void runPairsRow(uint64_t ia, Ctx &c)
{
    realiseAll();
    const Member &a = g_pool[ia];
    size_t N = g_pool.size();
    if (!a.defined) { c.violation("harness:pool-member-undefined", memberJson(a)); return; }
    for (size_t ib = 0; ib < N; ++ib) {
        const Member &b = g_pool[ib];
        PairRes r = judgePair(c, ia, ib, "pairs");
        bool refCompat = a.map == b.map;
        if (r.compat != refCompat) { c.outcome("verdict-differs-from-reference"); continue; }
        if (!refCompat) { c.outcome("incompatible"); continue; }
        // laws that need the reverse direction: symmetry and f(a,b)*f(b,a) = 1 (judged once per unordered pair, and on the diagonal)
        if (ib >= ia) {
            bool back = Units::compatible(b.u, a.u);
            double g = Units::scalingFactor(b.u, a.u);
            if (!back) report(c, "pairs:compatible:not-symmetric:" + kinds(a, b), pairDetail(a, b, ia, ib));
            else if (!relClose((long double)r.f * (long double)g, 1.0L)) {
                json d = pairDetail(a, b, ia, ib); d["f_ab"] = dbl(r.f); d["f_ba"] = dbl(g);
                report(c, "pairs:factor:inverse-law:" + kinds(a, b), d);
            }
            if (ia == ib && r.f != 1.0) report(c, "pairs:factor:self-not-1:" + a.kind, memberJson(a));
        }
        bool dom = a.inDomain && b.inDomain;
        bool same = (b.scale - a.scale).zero();
        c.outcome(std::string("compatible:") + (dom ? (same ? "si-domain:same-scale" : "si-domain:scaled") : "outside-si-domain"));
    }
}

// ------------------------------------------------------------------ family triples over the sub-pool: row a, all (b, c)
std::vector<std::vector<PairRes>> g_matrix;
void subMatrix()
{
    if (!g_matrix.empty()) return;
    size_t n = g_sub.size();
    g_matrix.assign(n, std::vector<PairRes>(n));
    for (size_t i = 0; i < n; ++i) for (size_t j = 0; j < n; ++j) {
        const Member &a = g_pool[g_sub[i]], &b = g_pool[g_sub[j]];
        g_matrix[i][j] = {Units::compatible(a.u, b.u), Units::scalingFactor(a.u, b.u)};
    }
}
void runTriplesRow(uint64_t i, Ctx &c)
{
    realiseAll();
    subMatrix();
    size_t n = g_sub.size();
    const Member &a = g_pool[g_sub[i]];
    // the row is recomputed here (not taken from the cache) so that each case calls the code under test itself
    std::vector<PairRes> row(n);
    for (size_t j = 0; j < n; ++j) { const Member &b = g_pool[g_sub[j]]; row[j] = {Units::compatible(a.u, b.u), Units::scalingFactor(a.u, b.u)}; }
    uint64_t nNo = 0, nOne = 0, nDom = 0, nOut = 0, nBad = 0;
    for (size_t j = 0; j < n; ++j) {
        const Member &b = g_pool[g_sub[j]];
        bool ab = row[j].compat;
        for (size_t k = 0; k < n; ++k) {
            bool bc = g_matrix[j][k].compat, ac = row[k].compat;
            if (!(ab && bc)) { (ab || bc) ? ++nOne : ++nNo; continue; }
            const Member &cc = g_pool[g_sub[k]];
            if (!ac) {
                report(c, std::string("triples:compatible:not-transitive:involving:") + special(special(a.kind, b.kind), cc.kind),
                       {{"a", memberJson(a)}, {"b", memberJson(b)}, {"c", memberJson(cc)}});
                ++nBad;
                continue;
            }
            long double prod = (long double)row[j].f * (long double)g_matrix[j][k].f;
            if (!relClose(prod, (long double)row[k].f)) {
                report(c, std::string("triples:factor:not-multiplicative:involving:") + special(special(a.kind, b.kind), cc.kind),
                       {{"a", memberJson(a)}, {"b", memberJson(b)}, {"c", memberJson(cc)}, {"f_ab", dbl(row[j].f)}, {"f_bc", dbl(g_matrix[j][k].f)}, {"f_ac", dbl(row[k].f)}});
            }
            (a.inDomain && b.inDomain && cc.inDomain) ? ++nDom : ++nOut;
        }
    }
    c.judged += uint64_t(n) * n;
    c.outcomes["no-link"] += nNo; c.outcomes["one-link"] += nOne; c.outcomes["chain:si-domain"] += nDom; c.outcomes["chain:outside-si-domain"] += nOut;
    if (nBad) c.outcomes["not-transitive"] += nBad;
}

// ------------------------------------------------------------------ family special: null / undefined / parentless arguments
// Index layout of the special family. Block A: the hand-listed undefined arguments and null, each against every sub-pool member.
// Block B: the generated partially defined definitions, each against one representative of every reduction class (an undefined
// argument can at most be confused with a partner by its reduction, not by the partner's construction). Both blocks add the
// hand-listed arguments, null and the special itself as partners.
std::vector<int> g_classRep;
void classReps()
{
    if (!g_classRep.empty()) return;
    std::set<std::string> seen;
    for (int i : g_sub) if (seen.insert(g_pool[i].cls).second) g_classRep.push_back(i);
}
uint64_t specialCount()
{
    classReps();
    return uint64_t(g_nbasic + 1) * (g_sub.size() + g_nbasic + 2) + uint64_t(g_special.size() - g_nbasic) * (g_classRep.size() + g_nbasic + 2);
}
// returns: s (index into g_special, g_special.size() = null), partner list, x
void specialDecode(uint64_t idx, size_t &s, const std::vector<int> *&list, size_t &x)
{
    classReps();
    uint64_t nxA = g_sub.size() + g_nbasic + 2, blockA = uint64_t(g_nbasic + 1) * nxA;
    if (idx < blockA) { size_t a = idx / nxA; x = idx % nxA; s = a < g_nbasic ? a : g_special.size(); list = &g_sub; return; }
    idx -= blockA;
    uint64_t nxB = g_classRep.size() + g_nbasic + 2;
    s = g_nbasic + idx / nxB; x = idx % nxB; list = &g_classRep;
}
void runSpecial(uint64_t idx, Ctx &c)
{
    // only the objects this case touches are built (a crash restarts the process: keep the restart cheap)
    size_t s, x;
    const std::vector<int> *listp;
    specialDecode(idx, s, listp, x);
    const std::vector<int> &list = *listp;
    if (s < g_special.size()) realise(g_special[s]);
    if (x < list.size()) realise(g_pool[list[x]]);
    for (size_t t = 0; t < g_nbasic; ++t) realise(g_special[t]);
    UnitsPtr su = s < g_special.size() ? g_special[s].u : nullptr;
    std::string sk = s < g_special.size() ? g_special[s].kind : "null";
    std::string sg = s < g_special.size() && !g_special[s].trait.empty() ? g_special[s].trait : sk; // signature class
    if (s < g_special.size() && g_special[s].defined) { c.violation("harness:special-is-defined", memberJson(g_special[s])); return; }
    UnitsPtr xu;
    std::string xk;
    if (x < list.size()) { xu = g_pool[list[x]].u; xk = "defined"; }
    else {
        size_t t = x - list.size();
        if (t < g_nbasic) { xu = g_special[t].u; xk = g_special[t].kind; }
        else if (t == g_nbasic) { xu = nullptr; xk = "null"; }
        else { xu = su; xk = "itself"; }
    }
    ++c.judged;
    c.outcome(sg + " x " + (xk == "defined" ? xk : "special"));
    // "fully defined" is Units::isDefined(): it must say no for every one of these
    if (su && x == 0 && su->isDefined()) report(c, "special:isDefined-true:" + sg, {{"special", sk}, {"special_spec", memberJson(g_special[s])}});
    for (int dir = 0; dir < 2; ++dir) {
        const UnitsPtr &p = dir ? xu : su, &q = dir ? su : xu;
        std::string where = sg + (g_special.size() > s && !g_special[s].trait.empty() ? "" : std::string(dir ? ":as-second" : ":as-first") + (xk == "defined" ? "" : ":with-" + xk));
        json d = {{"special", sk}, {"argument_position", dir ? "second" : "first"}, {"partner", x < list.size() ? memberJson(g_pool[list[x]]) : json(xk)}};
        if (s < g_special.size()) d["special_spec"] = memberJson(g_special[s]);
        if (Units::compatible(p, q)) report(c, "special:compatible-true:" + where, d);
        double f = Units::scalingFactor(p, q);
        if (f != 0.0) { d["factor"] = dbl(f); report(c, "special:factor-nonzero:" + where, d); }
        if (Units::equivalent(p, q)) report(c, "special:equivalent-true:" + where, d);
    }
    // the member functions that walk the same structures must answer without crashing
    if (su) { (void)su->isDefined(); (void)su->isBaseUnit(); (void)su->requiresImports(); (void)su->isResolved(); }
}

// ------------------------------------------------------------------ family unchecked: scalingFactor(a, b, false) with null / undefined arguments
// "Both units1 and units2 must be fully defined, otherwise a scale factor of 0.0 will be returned" (units.h) also without the
// compatibility check. The partner's identity cannot matter, so partners are: three defined members, every special, null.
void runUnchecked(uint64_t idx, Ctx &c)
{
    for (size_t t = 0; t < g_nbasic; ++t) realise(g_special[t]);
    for (size_t pk : {size_t(0), g_sub.size() / 2, g_sub.size() - 1}) realise(g_pool[g_sub[pk]]);
    if (idx / (3 + g_nbasic + 1) < g_special.size()) realise(g_special[idx / (3 + g_nbasic + 1)]);
    size_t nx = 3 + g_nbasic + 1; // partners: three defined members, the hand-listed undefined arguments, null
    size_t s = idx / nx, x = idx % nx;
    UnitsPtr su = s < g_special.size() ? g_special[s].u : nullptr;
    std::string sk = s < g_special.size() ? g_special[s].kind : "null";
    UnitsPtr xu;
    std::string xk;
    if (x < 3) { size_t pick[3] = {0, g_sub.size() / 2, g_sub.size() - 1}; xu = g_pool[g_sub[pick[x]]].u; xk = "defined"; }
    else { size_t t = x - 3; xu = t < g_nbasic ? g_special[t].u : nullptr; xk = t < g_nbasic ? g_special[t].kind : "null"; }
    ++c.judged;
    c.outcome((s < g_special.size() && !g_special[s].trait.empty() ? g_special[s].trait : sk) + " x " + (xk == "defined" ? xk : "special"));
    for (int dir = 0; dir < 2; ++dir) {
        const UnitsPtr &p = dir ? xu : su, &q = dir ? su : xu;
        double g = Units::scalingFactor(p, q, false);
        std::string sg = s < g_special.size() && !g_special[s].trait.empty() ? g_special[s].trait : sk;
        json d = {{"special", sk}, {"partner", xk}, {"factor", dbl(g)}};
        if (s < g_special.size()) d["special_spec"] = memberJson(g_special[s]);
        if (g != 0.0) report(c, "unchecked:factor-nonzero:" + sg + (dir ? ":as-second" : ":as-first"), d);
    }
}

// ------------------------------------------------------------------ family twins: child order / indirection, judged on the whole domain
void runTwins(uint64_t i, Ctx &c)
{
    realiseAll();
    const Member &a = g_pool[i];
    if (a.twin < 0) { c.outcome("no-twin"); return; }
    const Member &b = g_pool[a.twin];
    ++c.judged;
    c.outcome(a.twinWhy + (a.inDomain ? "" : ":outside-si-domain"));
    if (!(a.map == b.map) || !(a.scale - b.scale).zero()) { c.violation("harness:twin-not-equal-in-reference", pairDetail(a, b, i, a.twin)); return; }
    json d = pairDetail(a, b, i, a.twin);
    if (!Units::compatible(a.u, b.u)) { report(c, "twins:" + a.twinWhy + ":not-compatible:" + a.kind, d); return; }
    double f = Units::scalingFactor(a.u, b.u);
    d["factor"] = dbl(f);
    if (!relClose(f, 1.0)) report(c, "twins:" + a.twinWhy + ":factor-not-1:" + a.kind, d);
    else if (!Units::equivalent(a.u, b.u)) report(c, "twins:" + a.twinWhy + ":not-equivalent:" + a.kind, d);
}

// ------------------------------------------------------------------ family validator: all ordered pairs of the sub-pool, one model each
// two sibling components, one variable each, connected; units a and b live in that one model (renamed a_*, b_*; user base units shared)
struct Built { ModelPtr model; VariablePtr v1, v2; bool flattened = false; bool ok = true; std::string why; };
Built buildModel(Ctx &c, const Member &a, const Member &b)
{
    Built r;
    auto model = Model::create("m");
    auto importer = Importer::create();
    int nlib = 0;
    bool anyImport = false;
    auto put = [&](const Member &m, const std::string &pre) -> std::string {
        if (m.stdObject) return m.root;
        std::vector<Def> defs = m.main;
        std::set<std::string> ren;
        for (auto &d : defs) if (!(d.items.empty() && !d.import) && !importsBaseByName(d, m)) ren.insert(d.name);
        ImportSourcePtr is;
        std::string url = "lib" + std::to_string(nlib++) + ".cellml";
        for (auto d : defs) {
            bool keep = !ren.count(d.name);
            if (keep && model->hasUnits(d.name)) continue;
            if (!keep) d.name = pre + d.name;
            for (auto &it : d.items) if (ren.count(it.ref)) it.ref = pre + it.ref;
            if (d.import && !is) { is = ImportSource::create(); is->setUrl(url); }
            model->addUnits(makeUnits(d, d.import ? is : nullptr));
            if (d.import) anyImport = true;
        }
        if (!m.lib.empty()) {
            auto lib = Model::create("lib");
            for (auto &d : m.lib) lib->addUnits(makeUnits(d, nullptr));
            importer->addModel(lib, url);
        }
        return ren.count(m.root) ? pre + m.root : m.root;
    };
    std::string na = put(a, "a_"), nb = put(b, "b_");
    auto c1 = Component::create("c1"), c2 = Component::create("c2");
    auto v1 = Variable::create("v1"), v2 = Variable::create("v2");
    model->addComponent(c1); model->addComponent(c2);
    c1->addVariable(v1); c2->addVariable(v2);
    if (model->hasUnits(na)) v1->setUnits(model->units(na)); else v1->setUnits(na);
    if (model->hasUnits(nb)) v2->setUnits(model->units(nb)); else v2->setUnits(nb);
    v1->setInterfaceType("public"); v2->setInterfaceType("public");
    Variable::addEquivalence(v1, v2);
    r.model = model;
    if (anyImport) {
        importer->resolveImports(model, "");
        c.logger(importer, "importer");
        if (importer->errorCount() || model->hasUnresolvedImports()) { r.ok = false; r.why = "imports-not-resolved"; return r; }
        auto flat = importer->flattenModel(model);
        c.logger(importer, "importer");
        if (!flat) { r.ok = false; r.why = "flatten-returned-null"; return r; }
        r.model = flat;
        r.flattened = true;
    }
    if (r.model->componentCount() != 2 || r.model->component(0)->variableCount() != 1 || r.model->component(1)->variableCount() != 1) { r.ok = false; r.why = "flattened-model-shape"; return r; }
    r.v1 = r.model->component("c1")->variable(0);
    r.v2 = r.model->component("c2")->variable(0);
    return r;
}
std::string validatorKind(const Member &a, const Member &b)
{ // coarse situation of the pair for signatures
    auto k = [](const Member &m) { return m.kind.substr(0, m.kind.find_first_of("(")); };
    return "involving:" + special(k(a), k(b));
}
void runValidatorRow(uint64_t i, Ctx &c)
{
    realiseAll();
    size_t n = g_sub.size();
    size_t ia = g_sub[i];
    const Member &a = g_pool[ia];
    for (size_t j = 0; j < n; ++j) {
        size_t ib = g_sub[j];
        const Member &b = g_pool[ib];
        if ((a.parentless && !a.stdObject) || (b.parentless && !b.stdObject)) { c.outcome("parentless-units-cannot-be-in-a-model"); continue; }
        Built m = buildModel(c, a, b);
        if (!m.ok) { c.outcome("model-not-built:" + m.why); report(c, "validator:harness-could-not-build:" + m.why + ":" + validatorKind(a, b), pairDetail(a, b, ia, ib)); continue; }
        auto validator = Validator::create();
        validator->validateModel(m.model);
        c.logger(validator, "validator");
        ++c.judged;
        bool refCompat = a.map == b.map;
        // unit-mismatch issues carry a variable pair and the text "non-matching units"
        int mism = 0, other = 0;
        std::string hint;
        for (size_t k = 0; k < validator->issueCount(); ++k) {
            auto is = validator->issue(k);
            if (is->referenceRule() == Issue::ReferenceRule::MAP_VARIABLES_ELEMENT && is->description().find("non-matching units") != std::string::npos) { ++mism; hint = is->description(); }
            else ++other;
        }
        json d = pairDetail(a, b, ia, ib);
        d["issues"] = issuesJson(validator, 6);
        d["flattened"] = m.flattened;
        std::string sit = std::string(m.flattened ? "flattened:" : "") + validatorKind(a, b);
        // The statement ties the validator to the Units functions on the model it is given. A flattened model whose units no longer
        // reduce as the imports described (flattenModel's business: C06) is not a basis for judging the validator.
        bool implCompat = Units::compatible(m.v1->units(), m.v2->units());
        // flattening must have kept both units' meaning: the flattened units still equal the units the import described
        bool kept = !m.flattened || (Units::scalingFactor(m.v1->units(), a.u) == 1.0 && Units::scalingFactor(m.v2->units(), b.u) == 1.0);
        if (m.flattened && (other || implCompat != refCompat || !kept)) { c.count("flattened_model_units_altered_by_flattening(not judged here; C06)"); c.outcome("not-judged:flattening-altered-the-units"); --c.judged; continue; }
        if (implCompat != refCompat) { c.outcome("not-judged:Units::compatible-wrong(judged in pairs)"); --c.judged; continue; }
        if (other) { report(c, "validator:unrelated-issue-on-generated-model:" + sit, d); c.outcome("unrelated-issue"); continue; }
        if ((mism > 0) != !refCompat) {
            report(c, std::string("validator:verdict:") + (mism ? "reports-mismatch-for-compatible" : "silent-for-incompatible") + ":" + sit, d);
            c.outcome("verdict-differs");
            continue;
        }
        if (mism > 1) report(c, "validator:mismatch-reported-twice:" + sit, d);
        if (!mism) { c.outcome("compatible:no-issue"); continue; }
        // hint: "<base>^<n>, ..., multiplication factor of 10^k." — the mismatch is expressed as units(v1)/units(v2)
        bool dom = a.inDomain && b.inDomain;
        auto nested = [](const Member &x) { for (auto &dd : x.main) for (auto &it : dd.items) if (!stdFind(it.ref) && !isUserBase(it.ref)) return true; for (auto &dd : x.lib) if (!dd.items.empty()) return true; return false; };
        std::string shape = (nested(a) || nested(b)) ? "nested" : "flat";
        long double k = 0;
        bool has = false;
        size_t p = hint.find("multiplication factor of 10^");
        std::string ktext;
        if (p != std::string::npos) {
            has = true;
            ktext = hint.substr(p + 28);
            while (!ktext.empty() && (ktext.back() == '.' || ktext.back() == ' ')) ktext.pop_back(); // sentence full stop
            k = strtold(ktext.c_str(), nullptr);
        }
        // base-unit part of the hint against the reference: every differing base appears as "<base>^<exponent>"
        {
            ExpMap diff = a.map;
            for (auto &kv : b.map) addTo(diff, kv.first, Rat(0) - kv.second);
            size_t q0 = hint.find("The mismatch is: ");
            std::string tail = q0 == std::string::npos ? "" : hint.substr(q0 + 17);
            bool okBases = true, fractional = false;
            size_t nbase = 0;
            for (auto &kv : diff) {
                if (kv.second.zero()) continue;
                ++nbase;
                if (kv.second.d != 1) fractional = true;
                size_t at = tail.find(kv.first + "^");
                if (at == std::string::npos || !(at == 0 || tail[at - 1] == ' ')) { okBases = false; continue; }
                size_t e0 = at + kv.first.size() + 1, e1 = tail.find(',', e0);
                std::string num = tail.substr(e0, e1 == std::string::npos ? std::string::npos : e1 - e0);
                if (e1 == std::string::npos) while (!num.empty() && num.back() == '.') num.pop_back(); // sentence full stop
                char *end = nullptr;
                long double got = strtold(num.c_str(), &end);
                if (fabsl(got - kv.second.val()) > 2e-6L || (end && *end)) okBases = false;
            }
            // no base may be listed that does not differ
            size_t listed = 0;
            for (char ch : tail) if (ch == '^') ++listed;
            if (has) --listed;
            if (listed != nbase) okBases = false;
            if (!okBases) { d["want_exponents"] = classOf(diff); report(c, std::string("validator:hint:base-exponents-wrong:") + (fractional ? "fractional-exponent" : "integer-exponents") + ":" + shape, d); }
        }
        Scale want = a.scale - b.scale;
        double fimpl = Units::scalingFactor(m.v2->units(), m.v1->units(), false);
        long double kimpl = fimpl > 0 ? log10l((long double)fimpl) : 0;
        d["hint_k"] = has ? ktext : "<none>";
        d["want_k_reference"] = want.str();
        d["units_scalingFactor_k"] = dbl(double(kimpl));
        std::string dk = dom ? "si-domain" : "outside-si-domain";
        long double w = dom ? want.log10v() : kimpl;
        if (!dom && !(fimpl > 0)) { report(c, "validator:unchecked-scalingFactor-not-positive:" + sit, d); continue; }
        bool integral = fabsl(w - roundl(w)) < 1e-9L;
        long double got = has ? k : 0;
        bool okText = true;
        if (has) { char *end = nullptr; strtold(ktext.c_str(), &end); okText = !(end && *end); }
        if (fabsl(got - w) > 2e-6L || !okText) {
            // inside the domain the reference is the ratio of SI scales; outside it the statement only ties the hint to Units::scalingFactor
            report(c, std::string("validator:hint:scale-differs-from-") + (dom ? "si-ratio" : "Units-scalingFactor") + ":" + dk + ":" + shape + ":" + (integral ? "integer-k" : "fractional-k"), d);
            c.outcome("mismatch:hint-wrong:" + dk + ":" + shape);
            continue;
        }
        c.outcome(std::string(has ? "mismatch:hint-agrees:" : "mismatch:no-scale-hint-needed:") + dk + ":" + shape);
    }
}

// ------------------------------------------------------------------ family generator: the scaling the analyser and generator apply
// For every ordered pair (a, b) of the sub-pool with the same reduction: c1 { v1 [a]; v1 = 1 [a] }  c2 { v2 [b]; y [b]; y = v2 },
// v1 ~ v2. The generated C is executed by a tiny evaluator (numbers, variables[i], * and /); y must equal SI(a)/SI(b).
struct MiniEval
{
    const std::string &s; size_t p = 0; std::map<int, double> &vars; bool ok = true;
    void ws() { while (p < s.size() && isspace((unsigned char)s[p])) ++p; }
    double atom()
    {
        ws();
        if (p < s.size() && s[p] == '-') { ++p; return -atom(); }
        if (p < s.size() && s[p] == '(') { ++p; double v = expr(); ws(); if (p < s.size() && s[p] == ')') ++p; else ok = false; return v; }
        if (s.compare(p, 10, "variables[") == 0) { p += 10; int i = int(strtol(s.c_str() + p, nullptr, 10)); while (p < s.size() && s[p] != ']') ++p; ++p; if (!vars.count(i)) { ok = false; return 0; } return vars[i]; }
        char *end = nullptr;
        double v = strtod(s.c_str() + p, &end);
        if (end == s.c_str() + p) { ok = false; return 0; }
        p = size_t(end - s.c_str());
        return v;
    }
    double expr()
    {
        double v = atom();
        for (;;) {
            ws();
            if (p < s.size() && s[p] == '*') { ++p; v *= atom(); }
            else if (p < s.size() && s[p] == '/') { ++p; v /= atom(); }
            else return v;
        }
    }
};
bool runGenerated(const std::string &code, std::map<int, double> &vars)
{
    for (const char *fn : {"void initialiseVariables(", "void computeComputedConstants(", "void computeVariables("}) {
        size_t b = code.find(fn);
        if (b == std::string::npos) return false;
        size_t o = code.find('{', b), e = code.find("\n}", o);
        if (o == std::string::npos || e == std::string::npos) return false;
        std::string body = code.substr(o + 1, e - o - 1);
        size_t q = 0;
        while ((q = body.find("variables[", q)) != std::string::npos) {
            size_t semi = body.find(';', q), eq = body.find(" = ", q);
            if (semi == std::string::npos || eq == std::string::npos || eq > semi) return false;
            int idx = int(strtol(body.c_str() + q + 10, nullptr, 10));
            std::string rhs = body.substr(eq + 3, semi - eq - 3);
            MiniEval ev{rhs, 0, vars};
            double v = ev.expr();
            ev.ws();
            if (!ev.ok || ev.p != rhs.size()) return false;
            vars[idx] = v;
            q = semi;
        }
    }
    return true;
}
void runGeneratorRow(uint64_t i, Ctx &c)
{
    realiseAll();
    size_t n = g_sub.size();
    size_t ia = g_sub[i];
    const Member &a = g_pool[ia];
    for (size_t j = 0; j < n; ++j) {
        size_t ib = g_sub[j];
        const Member &b = g_pool[ib];
        if (!(a.map == b.map)) continue;
        if ((a.parentless && !a.stdObject) || (b.parentless && !b.stdObject)) { c.outcome("parentless-units-cannot-be-in-a-model"); continue; }
        Built m = buildModel(c, a, b);
        if (!m.ok) { c.outcome("model-not-built:" + m.why); continue; }
        std::string sit = std::string(m.flattened ? "flattened:" : "") + validatorKind(a, b);
        bool kept = !m.flattened || (Units::scalingFactor(m.v1->units(), a.u) == 1.0 && Units::scalingFactor(m.v2->units(), b.u) == 1.0);
        if (!kept || !Units::compatible(m.v1->units(), m.v2->units())) { c.outcome("not-judged:units-altered-by-flattening-or-Units::compatible-wrong"); continue; }
        std::string na = m.v1->units()->name(), nb = m.v2->units()->name();
        auto c1 = m.model->component("c1"), c2 = m.model->component("c2");
        auto y = Variable::create("y");
        y->setUnits(m.v2->units());
        c2->addVariable(y);
        const std::string mh = "<math xmlns=\"http://www.w3.org/1998/Math/MathML\" xmlns:cellml=\"http://www.cellml.org/cellml/2.0#\">";
        c1->setMath(mh + "<apply><eq/><ci>v1</ci><cn cellml:units=\"" + na + "\">1</cn></apply></math>");
        c2->setMath(mh + "<apply><eq/><ci>y</ci><ci>v2</ci></apply></math>");
        auto analyser = Analyser::create();
        analyser->analyseModel(m.model);
        c.logger(analyser, "analyser");
        json d = pairDetail(a, b, ia, ib);
        d["flattened"] = m.flattened;
        auto am = analyser->model();
        if (analyser->errorCount() || !am || !am->isValid()) { d["issues"] = issuesJson(analyser, 6); report(c, "generator:analyser-rejects-model-with-compatible-units:" + sit, d); c.outcome("analyser-rejects"); continue; }
        auto gen = Generator::create();
        gen->setModel(am);
        std::string code = gen->implementationCode();
        int yi = -1;
        for (size_t k = 0; k < am->variableCount(); ++k) if (am->variable(k)->variable() == y) yi = int(am->variable(k)->index());
        std::map<int, double> vars;
        bool ran = runGenerated(code, vars);
        if (!ran || yi < 0 || !vars.count(yi)) { d["code"] = safe(code.substr(code.find("void initialiseVariables") == std::string::npos ? 0 : code.find("void initialiseVariables")), 1500); report(c, "generator:harness-cannot-execute-generated-code:" + sit, d); c.outcome("code-not-understood"); continue; }
        ++c.judged;
        double got = vars[yi];
        bool dom = a.inDomain && b.inDomain;
        double fimpl = Units::scalingFactor(m.v2->units(), m.v1->units()); // SI(a)/SI(b) as Units sees it
        Scale want = a.scale - b.scale;
        d["y"] = dbl(got); d["want_reference"] = want.str(); d["Units_scalingFactor(b,a)"] = dbl(fimpl);
        std::string dk = dom ? "si-domain" : "outside-si-domain";
        long double w = dom ? powl(10.0L, want.log10v()) : (long double)fimpl;
        bool scaled = !relClose(w, 1.0L, 1e-9L);
        if (!(got > 0) || !relClose((long double)got, w, 1e-9L)) {
            report(c, std::string("generator:value-of-connected-variable-not-scaled-by-") + (dom ? "si-ratio" : "Units-scalingFactor") + ":" + dk + ":" + sit, d);
            c.outcome("wrong-scaling:" + dk);
            continue;
        }
        c.outcome(std::string(scaled ? "scaled-correctly:" : "no-scaling-needed:") + dk);
    }
}

} // namespace

int main(int argc, char **argv)
{
    const char *t = getenv("C08_TIER");
    g_thorough = t && std::string(t) == "thorough";
    buildPool();
    std::vector<Family> fs = {
        {"pairs", [] { return uint64_t(g_pool.size()); }, runPairsRow, [](uint64_t i) { return json{{"row", memberJson(g_pool.at(i))}, {"against", "every member of the pool"}, {"pool", g_pool.size()}}; }},
        {"triples", [] { return uint64_t(g_sub.size()); }, runTriplesRow, [](uint64_t i) { return json{{"a", memberJson(g_pool.at(g_sub.at(i)))}, {"against", "every (b, c) of the sub-pool"}, {"subpool", g_sub.size()}}; }},
        {"special", specialCount, runSpecial,
         [](uint64_t i) { size_t s, x; const std::vector<int> *l; specialDecode(i, s, l, x);
                          return json{{"special", s < g_special.size() ? memberJson(g_special[s]) : json("null")}, {"partner", x < l->size() ? memberJson(g_pool[(*l)[x]]) : json("hand-listed undefined argument / null / itself #" + std::to_string(x - l->size()))}}; }},
        {"unchecked", [] { return uint64_t((g_special.size() + 1) * (g_nbasic + 4)); }, runUnchecked,
         [](uint64_t i) { size_t nx = g_nbasic + 4; size_t s = i / nx, x = i % nx;
                          return json{{"call", "Units::scalingFactor(a, b, false) and (b, a, false)"}, {"a", s < g_special.size() ? memberJson(g_special[s]) : json("null")}, {"b", x < 3 ? json("defined member of the sub-pool") : json("special #" + std::to_string(x - 3))}}; }},
        {"twins", [] { return uint64_t(g_pool.size()); }, runTwins, [](uint64_t i) { return json{{"a", memberJson(g_pool.at(i))}, {"twin", g_pool.at(i).twin >= 0 ? memberJson(g_pool.at(g_pool.at(i).twin)) : json()}, {"why", g_pool.at(i).twinWhy}}; }},
        {"validator", [] { return uint64_t(g_sub.size()); }, runValidatorRow, [](uint64_t i) { return json{{"a", memberJson(g_pool.at(g_sub.at(i)))}, {"against", "every member of the sub-pool"}, {"subpool", g_sub.size()}}; }},
    };
    fs.push_back({"generator", [] { return uint64_t(g_sub.size()); }, runGeneratorRow, [](uint64_t i) { return json{{"a", memberJson(g_pool.at(g_sub.at(i)))}, {"against", "every member of the sub-pool with the same reduction; model c1{v1[a]=1} ~ c2{v2[b]; y=v2}, generated C executed"}}; }});
    if (argc >= 2 && std::string(argv[1]) == "poolinfo") {
        std::map<std::string, int> kinds, classes;
        size_t dom = 0;
        for (auto &m : g_pool) { ++kinds[m.kind.substr(0, m.kind.find_first_of("(:"))]; ++classes[m.cls]; dom += m.inDomain; }
        json j = {{"pool", g_pool.size()}, {"subpool", g_sub.size()}, {"classes", classes.size()}, {"in_si_domain", dom}, {"kinds", kinds}, {"specials", g_special.size() + 1}};
        puts(j.dump().c_str());
        return 0;
    }
    return harnessMain(argc, argv, fs);
}
