// FLAVOURS: asan plain
// C04 — the validator accepts valid models and rejects every rule violation (fault enumeration).
//
// Base models are VALID BY CONSTRUCTION: a plain spec (structs of strings) is enumerated exhaustively from a small
// grammar and turned into libcellml objects by ONE dumb builder through the public API (never through the parser).
// Oracle 1: every base validates with issueCount()==0.
// Oracle 2: the fault catalogue below. One injector per rule the validator implements; every injector edits the spec
// (or the built objects, for things only objects can express) at EVERY applicable location of the base, one fault at a
// time; the faulted model must yield >= 1 issue of level ERROR whose referenceRule() is in the injector's expected set.
//
// Case index = base * (1 + #injectors of the family) + j ;  j == 0 validates the base, j >= 1 runs injector j-1 at all
// of its locations on that base.
#include "common.hpp"
#include "utilities.h"

#include <memory>
#include <sys/wait.h>

using namespace vf;
using Rule = Issue::ReferenceRule;

static bool THOROUGH = false; // C04_TIER=thorough

// =====================================================================================================================
// 1. Spec (what a model is, as plain data) and the single spec -> objects builder
// =====================================================================================================================
struct UnitS { std::string ref, prefix; double exp = 1.0, mult = 1.0; std::string id; };
struct UnitsS { std::string name, id; std::vector<UnitS> unit; int isrc = -1; std::string iref; };
struct VarS { std::string name, id, units, iface, init; }; // units "" = no units at all
struct VRef { int c = -1, s = -1; };                       // c == -1: none; c == -2: an orphan variable (no parent)
struct ResetS { bool hasOrder = true; int order = 1; VRef var, tvar; std::string test, value, id, tid, rid; };
struct CompS { std::string name, id, encId; int parent = -1; std::vector<VarS> vars; std::vector<ResetS> resets; std::string math; int isrc = -1; std::string iref; };
struct EqS { VRef a, b; std::string mapId, connId; };
struct ISrcS { std::string url, id; int lib = -1; };
struct ModelS
{
    std::string name = "m", id, encId;
    std::vector<UnitsS> units;
    std::vector<CompS> comps; // parents precede children; children are attached in index order
    std::vector<EqS> eqs;
    std::vector<ISrcS> isrc;
    std::vector<std::shared_ptr<ModelS>> libs; // library models (resolved imports); libs[i] is registered under libUrl[i]
    std::vector<std::string> libUrl;
    int resolve = 0; // 0: imports left unresolved; 1: resolved by Importer::addModel + resolveImports
    std::string desc; // human-readable descriptor of the grammar choices (show / replay)
};

struct Built
{
    ModelPtr model;
    std::vector<ComponentPtr> comps;
    std::vector<UnitsPtr> units;
    std::vector<ImportSourcePtr> isrc;
    std::vector<std::shared_ptr<Built>> libs;
    std::vector<VariablePtr> orphans;
    std::vector<ModelPtr> extraModels; // kept alive for post hooks (import sources reference models weakly)
    ImporterPtr importer;
    VariablePtr var(const VRef &r)
    {
        if (r.c == -1) return nullptr;
        if (r.c == -2) {
            while (int(orphans.size()) <= r.s) {
                auto v = Variable::create("orphan" + std::to_string(orphans.size()));
                v->setUnits("dimensionless");
                v->setInterfaceType("public_and_private");
                orphans.push_back(v);
            }
            return orphans[size_t(r.s)];
        }
        return comps.at(size_t(r.c))->variable(size_t(r.s));
    }
};

static void collectLibs(const std::shared_ptr<Built> &b, const ModelS &s, std::vector<std::pair<std::string, ModelPtr>> &out)
{
    for (size_t i = 0; i < b->libs.size(); ++i) {
        out.emplace_back(s.libUrl[i], b->libs[i]->model);
        collectLibs(b->libs[i], *s.libs[i], out);
    }
}

static std::shared_ptr<Built> buildModel(const ModelS &s, Ctx *ctx, bool top = true)
{
    auto b = std::make_shared<Built>();
    b->model = Model::create(s.name);
    if (!s.id.empty()) b->model->setId(s.id);
    if (!s.encId.empty()) b->model->setEncapsulationId(s.encId);
    for (auto &l : s.libs) b->libs.push_back(buildModel(*l, ctx, false));
    for (auto &i : s.isrc) {
        auto is = ImportSource::create();
        is->setUrl(i.url);
        if (!i.id.empty()) is->setId(i.id);
        b->isrc.push_back(is);
    }
    for (auto &u : s.units) {
        auto x = Units::create(u.name);
        if (!u.id.empty()) x->setId(u.id);
        for (auto &c : u.unit) x->addUnit(c.ref, c.prefix, c.exp, c.mult, c.id);
        if (u.isrc >= 0) { x->setImportSource(b->isrc.at(size_t(u.isrc))); x->setImportReference(u.iref); }
        b->model->addUnits(x);
        b->units.push_back(x);
    }
    for (auto &c : s.comps) {
        auto x = Component::create(c.name);
        if (!c.id.empty()) x->setId(c.id);
        if (!c.encId.empty()) x->setEncapsulationId(c.encId);
        if (c.isrc >= 0) { x->setImportSource(b->isrc.at(size_t(c.isrc))); x->setImportReference(c.iref); }
        for (auto &v : c.vars) {
            auto y = Variable::create(v.name);
            if (!v.id.empty()) y->setId(v.id);
            if (!v.units.empty()) {
                UnitsPtr mu;
                for (size_t k = 0; k < s.units.size() && !mu; ++k) if (s.units[k].name == v.units) mu = b->units[k];
                if (mu) y->setUnits(mu); else y->setUnits(v.units);
            }
            if (!v.iface.empty()) y->setInterfaceType(v.iface);
            if (!v.init.empty()) y->setInitialValue(v.init);
            x->addVariable(y);
        }
        if (!c.math.empty()) x->setMath(c.math);
        b->comps.push_back(x);
    }
    for (size_t i = 0; i < s.comps.size(); ++i) {
        if (s.comps[i].parent < 0) b->model->addComponent(b->comps[i]);
        else b->comps.at(size_t(s.comps[i].parent))->addComponent(b->comps[i]);
    }
    for (size_t i = 0; i < s.comps.size(); ++i) {
        for (auto &r : s.comps[i].resets) {
            auto x = Reset::create();
            if (r.hasOrder) x->setOrder(r.order);
            if (auto v = b->var(r.var)) x->setVariable(v);
            if (auto v = b->var(r.tvar)) x->setTestVariable(v);
            if (!r.test.empty()) x->setTestValue(r.test);
            if (!r.value.empty()) x->setResetValue(r.value);
            if (!r.id.empty()) x->setId(r.id);
            if (!r.tid.empty()) x->setTestValueId(r.tid);
            if (!r.rid.empty()) x->setResetValueId(r.rid);
            b->comps[i]->addReset(x);
        }
    }
    for (auto &e : s.eqs) {
        auto v1 = b->var(e.a), v2 = b->var(e.b);
        Variable::addEquivalence(v1, v2);
        if (!e.mapId.empty()) Variable::setEquivalenceMappingId(v1, v2, e.mapId);
        if (!e.connId.empty()) Variable::setEquivalenceConnectionId(v1, v2, e.connId);
    }
    if (top && s.resolve == 1) {
        b->importer = Importer::create();
        std::vector<std::pair<std::string, ModelPtr>> all;
        collectLibs(b, s, all);
        for (auto &p : all) b->importer->addModel(p.second, p.first);
        b->importer->resolveImports(b->model, "");
        if (ctx) ctx->logger(b->importer, "importer");
    }
    return b;
}

// ---------------------------------------------------------------------------------------------------------------------
// spec helpers
static std::vector<int> siblingsOf(const ModelS &m, int c)
{
    std::vector<int> r;
    for (size_t i = 0; i < m.comps.size(); ++i) if (m.comps[i].parent == m.comps[size_t(c)].parent) r.push_back(int(i));
    return r;
}
static int depthOf(const ModelS &m, int c) { int d = 0; while (m.comps[size_t(c)].parent >= 0) { c = m.comps[size_t(c)].parent; ++d; } return d; }
static bool hasChildren(const ModelS &m, int c) { for (auto &x : m.comps) if (x.parent == c) return true; return false; }
// location class of a component: imported?, nesting level, position among its siblings — never an index
static std::string compClass(const ModelS &m, int c)
{
    std::string s = m.comps[size_t(c)].isrc >= 0 ? "imp-" : "";
    int d = depthOf(m, c);
    s += d == 0 ? "top" : d == 1 ? "enc" : "deep";
    auto sib = siblingsOf(m, c);
    s += sib.size() == 1 ? "-only" : sib.front() == c ? "-first" : sib.back() == c ? "-last" : "-mid";
    if (hasChildren(m, c)) s += "-parent";
    return s;
}
static std::string posClass(size_t i, size_t n) { return n == 1 ? "only" : i == 0 ? "first" : i + 1 == n ? "last" : "mid"; }
static bool admissible(const ModelS &m, int a, int b)
{
    return m.comps[size_t(a)].parent == m.comps[size_t(b)].parent || m.comps[size_t(a)].parent == b || m.comps[size_t(b)].parent == a;
}
static int unitsIndex(const ModelS &m, const std::string &name) { for (size_t i = 0; i < m.units.size(); ++i) if (m.units[i].name == name) return int(i); return -1; }
// names of model units reachable from the units of CONNECTED variables (the validator recurses through those without a
// visited set: cycles there overflow the stack — a C01 finding; C04 injects cycles elsewhere and has one small family for it)
static std::set<std::string> unitsUnderConnections(const ModelS &m)
{
    std::set<std::string> seen;
    std::vector<std::string> todo;
    auto add = [&](const VRef &r) { if (r.c >= 0) todo.push_back(m.comps[size_t(r.c)].vars[size_t(r.s)].units); };
    for (auto &e : m.eqs) { add(e.a); add(e.b); }
    while (!todo.empty()) {
        auto n = todo.back();
        todo.pop_back();
        if (!seen.insert(n).second) continue;
        int k = unitsIndex(m, n);
        if (k >= 0) for (auto &u : m.units[size_t(k)].unit) todo.push_back(u.ref);
    }
    return seen;
}

// MathML text
static const std::string MNS = "http://www.w3.org/1998/Math/MathML";
static const std::string CNS = "http://www.cellml.org/cellml/2.0#";
static std::string M(const std::string &body) { return "<math xmlns=\"" + MNS + "\" xmlns:cellml=\"" + CNS + "\">" + body + "</math>"; }
static std::string ci(const std::string &n) { return "<ci>" + n + "</ci>"; }
static std::string cn(const std::string &v, const std::string &u) { return "<cn cellml:units=\"" + u + "\">" + v + "</cn>"; }
static std::string ap(const std::string &op, const std::string &args) { return "<apply><" + op + "/>" + args + "</apply>"; }
static std::string eq(const std::string &l, const std::string &r) { return ap("eq", l + r); }

// =====================================================================================================================
// 2. Base grammars (valid by construction). Every family is a vector of specs generated by nested loops (exhaustive in
//    its own dimensions); the position in the vector is the base index.
// =====================================================================================================================
struct IdGen
{ // distinct valid XML names in several shapes (plain, underscore start, dot, dash, 2-byte and Greek start characters)
    int n = 0;
    std::string next()
    {
        static const char *form[] = {"i%d", "_%d", "a.%d", "b-%d", "\xc3\xa9%d", "\xce\xa9%d", "a\xc2\xb7%d"};
        char b[32];
        snprintf(b, sizeof b, form[n % 7], n);
        ++n;
        return b;
    }
};

// ---- units pool used by the hierarchy family; groups are mutually compatible (same base-unit exponents)
static UnitsS mkUnits(const std::string &name, std::vector<UnitS> ch) { UnitsS u; u.name = name; u.unit = std::move(ch); return u; }
static const std::vector<UnitsS> &pool()
{
    static const std::vector<UnitsS> p = {
        mkUnits("ub", {}),                                                   // a model base unit
        mkUnits("ud", {{"ub", "milli", 1.0, 2.0, ""}}),                      // through another units with prefix and multiplier
        mkUnits("uq", {{"ud", "kilo", 2.0, 0.5, ""}}),                       // ub^2, two levels deep
        mkUnits("uh", {{"uq", "", 0.5, 1.0, ""}}),                           // ub^1 again, three levels deep, fractional exponent
        mkUnits("us", {{"second", "-3", 1.0, 1.0, ""}}),                     // integer prefix on a standard unit
        mkUnits("ul", {{"second", "", 1.0, 1.0, ""}, {"second", "", -1.0, 1000.0, ""}}), // dimensionless in disguise
    };
    return p;
}
static const std::vector<std::vector<std::string>> GROUPS = {{"dimensionless", "ul"}, {"second", "us"}, {"ub", "ud", "uh"}};
static void addPoolClosure(ModelS &m, const std::set<std::string> &want, bool reverse)
{
    std::set<std::string> need;
    std::vector<std::string> todo(want.begin(), want.end());
    while (!todo.empty()) {
        auto n = todo.back();
        todo.pop_back();
        for (auto &u : pool()) if (u.name == n && need.insert(n).second) for (auto &c : u.unit) todo.push_back(c.ref);
    }
    std::vector<UnitsS> sel;
    for (auto &u : pool()) if (need.count(u.name)) sel.push_back(u);
    if (reverse) std::reverse(sel.begin(), sel.end());
    for (auto &u : sel) m.units.push_back(u);
}
// interfaces required by the connection list, computed from the tree (the CellML rule: public towards siblings and the
// parent, private towards children)
static void computeInterfaces(ModelS &m, bool generous)
{
    std::map<std::pair<int, int>, int> need; // bit0 public, bit1 private
    for (auto &e : m.eqs) {
        if (e.a.c < 0 || e.b.c < 0) continue;
        auto side = [&](const VRef &me, const VRef &other) {
            int bit = (m.comps[size_t(other.c)].parent == me.c) ? 2 : 1;
            need[{me.c, me.s}] |= bit;
        };
        side(e.a, e.b);
        side(e.b, e.a);
    }
    for (size_t c = 0; c < m.comps.size(); ++c)
        for (size_t s = 0; s < m.comps[c].vars.size(); ++s) {
            int n = need.count({int(c), int(s)}) ? need[{int(c), int(s)}] : 0;
            auto &v = m.comps[c].vars[s];
            if (generous) v.iface = n ? "public_and_private" : "none";
            else v.iface = n == 3 ? "public_and_private" : n == 2 ? "private" : n == 1 ? "public" : "";
        }
}
static void decorateIds(ModelS &m, IdGen &g)
{ // a unique valid id on every carrier the model has
    m.id = g.next();
    bool enc = false;
    for (auto &c : m.comps) if (c.parent >= 0) enc = true;
    if (enc) m.encId = g.next();
    for (auto &i : m.isrc) i.id = g.next();
    for (auto &u : m.units) { u.id = g.next(); for (auto &c : u.unit) c.id = g.next(); }
    for (size_t c = 0; c < m.comps.size(); ++c) {
        auto &x = m.comps[c];
        x.id = g.next();
        if (x.parent >= 0 || hasChildren(m, int(c))) x.encId = g.next();
        for (auto &v : x.vars) v.id = g.next();
        for (auto &r : x.resets) { r.id = g.next(); r.tid = g.next(); r.rid = g.next(); }
    }
    std::map<std::pair<int, int>, std::string> conn;
    for (auto &e : m.eqs) {
        e.mapId = g.next();
        auto k = std::make_pair(std::min(e.a.c, e.b.c), std::max(e.a.c, e.b.c));
        if (!conn.count(k)) conn[k] = g.next();
        e.connId = conn[k];
    }
}

// ---- family H: component forests x variables x admissible connections x units x naming x decoration
struct HParam { std::vector<int> par; int names, mask; std::vector<std::pair<int, int>> pairs; int cp, up, style; };
static void forests(int k, std::vector<int> &par, std::vector<std::vector<int>> &out)
{
    if (int(par.size()) == k) { out.push_back(par); return; }
    std::vector<int> opts = {-1};
    if (!par.empty()) for (int a = int(par.size()) - 1; a >= 0; a = par[size_t(a)]) opts.push_back(a);
    for (int o : opts) { par.push_back(o); forests(k, par, out); par.pop_back(); }
}
static ModelS makeH(const HParam &p)
{
    ModelS m;
    int k = int(p.par.size());
    static const char *adv[] = {"bc", "c", "ab", "a"}; // 'x'+"bc" == "xb"+'c' and "bc"+"a" == "c"+"ab": concatenation look-alikes
    static const int UP[4][2] = {{0, 1}, {1, 2}, {2, 0}, {2, 2}};
    std::set<std::string> used;
    for (int c = 0; c < k; ++c) {
        CompS x;
        x.name = p.names == 2 ? adv[c] : "c" + std::to_string(p.names == 1 ? k - 1 - c : c);
        x.parent = p.par[size_t(c)];
        int nv = (p.mask >> c & 1) ? 2 : 1;
        for (int s = 0; s < nv; ++s) {
            VarS v;
            v.name = s == 0 ? ((p.names == 2 && c == 1) ? "xb" : "x") : "y";
            int g = UP[p.up][p.cp == 1 ? 0 : s];
            v.units = GROUPS[size_t(g)][size_t(c + s) % GROUPS[size_t(g)].size()];
            used.insert(v.units);
            x.vars.push_back(v);
        }
        m.comps.push_back(x);
    }
    addPoolClosure(m, used, p.names == 1);
    for (auto &pr : p.pairs) {
        int a = pr.first, b = pr.second;
        int la = int(m.comps[size_t(a)].vars.size()) - 1, lb = int(m.comps[size_t(b)].vars.size()) - 1;
        if (p.cp == 0) m.eqs.push_back({{a, 0}, {b, 0}, "", ""});
        else if (p.cp == 1) m.eqs.push_back({{a, la}, {b, 0}, "", ""});
        else { m.eqs.push_back({{a, 0}, {b, 0}, "", ""}); if (la == 1 && lb == 1) m.eqs.push_back({{a, 1}, {b, 1}, "", ""}); }
    }
    computeInterfaces(m, p.style == 1);
    if (p.style == 1) { IdGen g; decorateIds(m, g); }
    std::string d = "H par=";
    for (int x : p.par) d += std::to_string(x) + ",";
    d += " names=" + std::to_string(p.names) + " mask=" + std::to_string(p.mask) + " pairs=";
    for (auto &pr : p.pairs) d += std::to_string(pr.first) + "-" + std::to_string(pr.second) + ",";
    d += " cp=" + std::to_string(p.cp) + " up=" + std::to_string(p.up) + " style=" + std::to_string(p.style);
    m.desc = d;
    return m;
}
static const std::vector<HParam> &hParams()
{
    static std::vector<HParam> all;
    if (!all.empty()) return all;
    int K = THOROUGH ? 4 : 3;
    for (int k = 1; k <= K; ++k) {
        std::vector<std::vector<int>> fs;
        std::vector<int> par;
        forests(k, par, fs);
        bool big = k == 4; // the largest size is pruned in the decoration dimensions only, never in shape/mask/connections
        for (auto &f : fs) {
            std::vector<std::pair<int, int>> adm;
            for (int a = 0; a < k; ++a) for (int b = a + 1; b < k; ++b) if (f[size_t(a)] == f[size_t(b)] || f[size_t(b)] == a) adm.emplace_back(a, b);
            for (int names = 0; names < 3; ++names) {
                for (int mask = 0; mask < (1 << k); ++mask) {
                    for (unsigned sub = 0; sub < (1u << adm.size()); ++sub) {
                        if (__builtin_popcount(sub) > 3) continue;
                        std::vector<std::pair<int, int>> pairs;
                        for (size_t i = 0; i < adm.size(); ++i) if (sub >> i & 1) pairs.push_back(adm[i]);
                        bool any2a = false, any22 = false;
                        for (auto &pr : pairs) {
                            bool a2 = mask >> pr.first & 1, b2 = mask >> pr.second & 1;
                            any2a |= a2; any22 |= a2 && b2;
                        }
                        for (int cp = 0; cp < 3; ++cp) {
                            if (cp == 1 && !any2a) continue; // identical to cp 0
                            if (cp == 2 && !any22) continue;
                            for (int up = 0; up < 4; ++up) {
                                if (big && up != (mask + int(sub)) % 4) continue;
                                for (int style = 0; style < 2; ++style) {
                                    if (big && style != (names + cp + int(sub)) % 2) continue;
                                    all.push_back({f, names, mask, pairs, cp, up, style});
                                }
                            }
                        }
                    }
                }
            }
        }
    }
    return all;
}

// ---- family U: one units definition in every attribute combination, used by a variable
static std::vector<ModelS> makeUAll()
{
    std::vector<ModelS> all;
    std::vector<std::string> refs = {"second", "litre", "ub", "um", "un", "ui"};
    std::vector<std::string> prefixes = {"", "milli", "yotta", "deca", "3", "-24", "+3", "0"};
    if (THOROUGH) for (auto p : {"zetta", "exa", "peta", "tera", "giga", "mega", "kilo", "hecto", "deci", "centi", "micro", "nano", "pico", "femto", "atto", "zepto", "yocto", "-2147483648", "2147483647", "007"}) prefixes.push_back(p);
    std::vector<double> exps = {1.0, -2.0, 0.5}, mults = {1.0, 1000.0, 0.001};
    for (auto &ref : refs) for (auto &pre : prefixes) for (double e : exps) for (double mu : mults) for (int second = 0; second < 3; ++second) for (int style = 0; style < 2; ++style) {
        ModelS m;
        UnitsS t = mkUnits("ut", {{ref, pre, e, mu, ""}});
        if (second == 1) t.unit.push_back({"kilogram", "", 1.0, 1.0, ""});
        if (second == 2) t.unit.push_back({"ub", "deca", -1.0, 1.0, ""});
        bool needUb = ref == "ub" || second == 2, needUm = ref == "um" || ref == "un";
        if (style == 0) m.units.push_back(t);
        if (needUb) m.units.push_back(mkUnits("ub", {}));
        if (ref == "un") m.units.push_back(mkUnits("un", {{"um", "kilo", 1.0, 1.0, ""}}));
        if (needUm) m.units.push_back(mkUnits("um", {{"metre", "", 2.0, 1.0, ""}}));
        if (ref == "ui") { m.isrc.push_back({"ulib.cellml", "", -1}); UnitsS ui; ui.name = "ui"; ui.isrc = 0; ui.iref = "remote_units"; m.units.push_back(ui); }
        if (style == 1) m.units.push_back(t); // definition listed after what it references
        CompS c;
        c.name = "c";
        c.vars.push_back({"x", "", "ut", "", ""});
        c.vars.push_back({"y", "", "dimensionless", "", ""});
        m.comps.push_back(c);
        if (style == 1) { IdGen g; decorateIds(m, g); }
        char b[160];
        snprintf(b, sizeof b, "U ref=%s prefix='%s' exp=%g mult=%g second=%d style=%d", ref.c_str(), pre.c_str(), e, mu, second, style);
        m.desc = b;
        all.push_back(m);
    }
    return all;
}

// ---- family V: variable attributes (units kind x initial value x interface on an unconnected variable)
static std::vector<ModelS> makeVAll()
{
    std::vector<ModelS> all;
    std::vector<std::string> units = {"dimensionless", "kelvin", "ub", "ud"};
    std::vector<std::string> inits = {"", "0", "-1.5", "2.5e-3", "1E+3", ".5", "x"}; // "x": reference to a sibling variable
    std::vector<std::string> ifaces = {"", "none", "public", "private", "public_and_private"};
    for (auto &u : units) for (auto &in : inits) for (auto &ifc : ifaces) for (int enc = 0; enc < 2; ++enc) {
        ModelS m;
        std::set<std::string> want = {u};
        addPoolClosure(m, want, false);
        CompS p;
        p.name = "outer";
        p.vars.push_back({"x", "", "dimensionless", "", "1"});
        CompS c;
        c.name = "c";
        c.parent = enc ? 0 : -1;
        c.vars.push_back({"x", "", u, "", ""});
        c.vars.push_back({"y", "", u, ifc, in});
        if (enc) m.comps.push_back(p);
        m.comps.push_back(c);
        m.desc = "V units=" + u + " init='" + in + "' iface='" + ifc + "' enc=" + std::to_string(enc);
        all.push_back(m);
    }
    return all;
}

// ---- family R: resets (0-2) over small connected layouts; variables have component-specific names
static std::string valueMath(int kind, const std::string &v, const std::string &u)
{
    switch (kind) {
    case 0: return M(cn("1", u));
    case 1: return M(ci(v));
    default: return M(ap("plus", ci(v) + cn("2.5", u)));
    }
}
struct RReset { int comp, var, tvar, order, tk, rk; };
static ModelS makeR(int layout, const std::vector<RReset> &rs, int style)
{
    ModelS m;
    int n = layout == 0 ? 1 : layout <= 2 ? 2 : 3;
    for (int c = 0; c < n; ++c) {
        CompS x;
        x.name = "c" + std::to_string(c);
        x.parent = (layout == 1 || layout == 3) ? c - 1 : -1;
        x.vars.push_back({"x" + std::to_string(c), "", "second", "", ""});
        x.vars.push_back({"y" + std::to_string(c), "", "dimensionless", "", c == 0 ? "0.5" : ""});
        m.comps.push_back(x);
    }
    for (int c = 0; c + 1 < n; ++c) m.eqs.push_back({{c, 0}, {c + 1, 0}, "", ""});
    computeInterfaces(m, style == 1);
    for (auto &r : rs) {
        ResetS x;
        x.order = r.order;
        x.var = {r.comp, r.var};
        x.tvar = {r.comp, r.tvar};
        auto &cv = m.comps[size_t(r.comp)].vars;
        x.test = valueMath(r.tk, cv[size_t(r.tvar)].name, cv[size_t(r.tvar)].units);
        x.value = valueMath(r.rk, cv[size_t(r.var)].name, cv[size_t(r.var)].units);
        m.comps[size_t(r.comp)].resets.push_back(x);
    }
    if (style == 1) { IdGen g; decorateIds(m, g); }
    std::string d = "R layout=" + std::to_string(layout) + " style=" + std::to_string(style) + " resets=";
    for (auto &r : rs) d += "(c" + std::to_string(r.comp) + " v" + std::to_string(r.var) + " tv" + std::to_string(r.tvar) + " o" + std::to_string(r.order) + " k" + std::to_string(r.tk) + std::to_string(r.rk) + ")";
    m.desc = d;
    return m;
}
static std::vector<ModelS> makeRAll()
{
    std::vector<ModelS> all;
    static const int orders[3] = {1, -5, 0};
    for (int layout = 0; layout < 5; ++layout) {
        if (!THOROUGH && (layout == 2 || layout == 4)) continue;
        int n = layout == 0 ? 1 : layout <= 2 ? 2 : 3;
        for (int style = 0; style < 2; ++style) {
            if ((!THOROUGH || layout == 2 || layout == 4) && style != layout % 2) continue;
            all.push_back(makeR(layout, {}, style));
            // one reset: every component x variable x test_variable; order and value shapes enumerated in thorough, rotated in quick
            for (int c = 0; c < n; ++c) for (int v = 0; v < 2; ++v) for (int tv = 0; tv < 2; ++tv) {
                if (!THOROUGH && c != 0 && c != n - 1) continue;
                if (!THOROUGH && layout != 0 && (v + tv + c) % 2) continue;
                for (int o = 0; o < 3; ++o) for (int k = 0; k < 2; ++k) {
                    // order x value-shape: full product on the single-component layout in thorough, rotated elsewhere
                    if (!(THOROUGH && layout == 0 && style == 0) && (o != (c + v + tv) % 3 || k != (v + tv) % 2)) continue;
                    all.push_back(makeR(layout, {{c, v, tv, orders[o], k ? 1 : 0, k ? 2 : 0}}, style));
                }
            }
            // two resets
            // (quick keeps one or two of the four two-reset configurations per layout; each validation of these reads the DTD four times)
            if (THOROUGH || layout == 0) all.push_back(makeR(layout, {{0, 0, 1, 1, 0, 0}, {0, 0, 0, 2, 1, 2}}, style));  // same variable, different orders
            if (THOROUGH || layout == 0) all.push_back(makeR(layout, {{0, 0, 1, 1, 0, 0}, {0, 1, 0, 1, 1, 2}}, style));  // different variables, SAME order (legal)
            if (n > 1) {
                all.push_back(makeR(layout, {{0, 0, 1, 1, 0, 0}, {n - 1, 0, 1, 2, 0, 0}}, style)); // equivalent variables, different orders
                if (THOROUGH || layout == 1) all.push_back(makeR(layout, {{0, 0, 1, 7, 0, 0}, {n - 1, 1, 0, 7, 0, 0}}, style)); // NON-equivalent variables, same order (legal)
            }
        }
    }
    return all;
}

// ---- family I: imports (units, components; top-level, encapsulated, nested; shared or separate sources; resolved or not)
static std::shared_ptr<ModelS> lib2()
{
    auto l = std::make_shared<ModelS>();
    l->name = "lib2";
    l->units.push_back(mkUnits("du", {{"second", "", 1.0, 1.0, ""}}));
    CompS d;
    d.name = "deep";
    d.vars.push_back({"d", "", "du", "public", ""});
    l->comps.push_back(d);
    return l;
}
static std::shared_ptr<ModelS> lib1()
{
    auto l = std::make_shared<ModelS>();
    l->name = "lib1";
    l->libs.push_back(lib2());
    l->libUrl.push_back("lib2.cellml");
    l->isrc.push_back({"lib2.cellml", "", 0});
    l->units.push_back(mkUnits("lu", {{"metre", "milli", 1.0, 1.0, ""}}));
    l->units.push_back(mkUnits("lu2", {{"lu", "", 2.0, 1.0, ""}}));
    UnitsS lnu;
    lnu.name = "lnu"; lnu.isrc = 0; lnu.iref = "du";
    l->units.push_back(lnu);
    CompS lc, lcc, ld, ln;
    lc.name = "lc";
    lc.vars.push_back({"p", "", "lu", "", "1"});
    lc.vars.push_back({"q", "", "dimensionless", "public_and_private", ""});
    lcc.name = "lcc"; lcc.parent = 0;
    lcc.vars.push_back({"q", "", "dimensionless", "public", ""});
    ld.name = "ld";
    ld.vars.push_back({"s", "", "lu2", "", ""});
    ln.name = "ln"; ln.isrc = 0; ln.iref = "deep";
    l->comps = {lc, lcc, ld, ln};
    l->eqs.push_back({{0, 1}, {1, 0}, "", ""});
    return l;
}
enum { IU = 1, IU2 = 2, IC = 4, IE = 8, INEST = 16, ICC = 32, IKID = 64 };
static ModelS makeI(int items, int share, int style, int resolve)
{
    ModelS m;
    m.resolve = resolve;
    if (resolve) { m.libs.push_back(lib1()); m.libUrl.push_back("lib1.cellml"); }
    auto src = [&]() {
        if (share && !m.isrc.empty()) return 0;
        m.isrc.push_back({"lib1.cellml", "", resolve ? 0 : -1});
        return int(m.isrc.size()) - 1;
    };
    if (items & IU) { UnitsS u; u.name = "iu"; u.isrc = src(); u.iref = "lu"; m.units.push_back(u); }
    if (items & IU2) { UnitsS u; u.name = "iu2"; u.isrc = src(); u.iref = "lnu"; m.units.push_back(u); }
    CompS loc;
    loc.name = "loc";
    loc.vars.push_back({"x", "", (items & IU) ? "iu" : "dimensionless", "", ""});
    loc.vars.push_back({"y", "", (items & IU2) ? "iu2" : "second", "", "2"});
    m.comps.push_back(loc);
    if (items & IC) {
        CompS c; c.name = "ic"; c.isrc = src(); c.iref = "lc";
        if (items & ICC) c.vars.push_back({"q", "", "dimensionless", "public", ""}); // dummy variable, as the parser creates for a connection
        m.comps.push_back(c);
        int ic = int(m.comps.size()) - 1;
        if (items & ICC) m.eqs.push_back({{0, 0}, {ic, 0}, "", ""});
        if (items & IKID) { CompS k; k.name = "kid"; k.parent = ic; k.vars.push_back({"z", "", "dimensionless", "", ""}); m.comps.push_back(k); }
    }
    if (items & IE) { CompS c; c.name = "ie"; c.isrc = src(); c.iref = "ld"; c.parent = 0; m.comps.push_back(c); }
    if (items & INEST) { CompS c; c.name = "inest"; c.isrc = src(); c.iref = "ln"; m.comps.push_back(c); }
    if (items & ICC) { m.comps[0].vars[0].units = "dimensionless"; }
    computeInterfaces(m, style == 1);
    if (items & ICC) for (auto &c : m.comps) if (c.name == "ic") c.vars[0].iface = "public";
    if (style == 1) { IdGen g; decorateIds(m, g); }
    m.desc = "I items=" + std::to_string(items) + " share=" + std::to_string(share) + " style=" + std::to_string(style) + " resolve=" + std::to_string(resolve);
    return m;
}
static std::vector<ModelS> makeIAll()
{
    std::vector<ModelS> all;
    for (int items = 1; items < 32; ++items) for (int extra = 0; extra < 4; ++extra) {
        if (extra && !(items & IC)) continue;
        int it = items | ((extra & 1) ? ICC : 0) | ((extra & 2) ? IKID : 0);
        int nimp = __builtin_popcount(unsigned(items));
        for (int share = 0; share < 2; ++share) {
            if (share && nimp < 2) continue;
            for (int style = 0; style < 2; ++style) for (int resolve = 0; resolve < 2; ++resolve) all.push_back(makeI(it, share, style, resolve));
        }
    }
    return all;
}

// ---- family M: math. M1 = equation shapes in contexts; M2 = one valid use of every supported MathML element
static const std::vector<std::string> UNARY = {"abs", "exp", "ln", "floor", "ceiling", "sin", "cos", "tan", "sec", "csc", "cot", "sinh", "cosh", "tanh", "sech", "csch", "coth",
                                               "arcsin", "arccos", "arctan", "arcsec", "arccsc", "arccot", "arcsinh", "arccosh", "arctanh", "arcsech", "arccsch", "arccoth"};
static const std::vector<std::string> RELATIONAL = {"eq", "neq", "lt", "leq", "gt", "geq"};
static std::string pw(const std::string &val, const std::string &cond, const std::string &other) { return "<piecewise><piece>" + val + cond + "</piece><otherwise>" + other + "</otherwise></piecewise>"; }
static std::string shapeMath(int shape, const std::string &x, const std::string &y, const std::string &t, const std::string &u)
{
    std::string d = "<apply><diff/><bvar>" + ci(t) + "</bvar>" + ci(x) + "</apply>";
    switch (shape) {
    case 0: return M(eq(ci(x), ap("plus", ci(y) + cn("1", u))));
    case 1: return M(eq(d, ci(y)));
    case 2: return M(eq(ci(x), pw(ci(y), ap("gt", ci(y) + cn("0", u)), cn("-2.5", u))));
    case 3: return M(eq(ci(x), cn("3", u)) + eq(ci(y), ap("times", ci(x) + ci(x))));
    case 4: return M(eq(ci(x), cn("3", u))) + "\n" + M(eq(ci(y), ap("minus", ci(x))));
    default:
        return M(eq(ci(x), ap("plus", "<cn cellml:units=\"" + u + "\" type=\"e-notation\">1.5<sep/>-3</cn>" + "<apply><root/><degree>" + cn("3", "dimensionless") + "</degree>" + ci(y) + "</apply>"
                                          + "<apply><log/><logbase>" + cn("2", "dimensionless") + "</logbase>" + ci(y) + "</apply>"))
                 + eq("<apply><diff/><bvar>" + ci(t) + "<degree>" + cn("1", "dimensionless") + "</degree></bvar>" + ci(y) + "</apply>", "<cn cellml:units=\"" + u + "\" type=\"real\" base=\"10\"> 7 </cn>"));
    }
}
static ModelS makeM1(int layout, int shape, const std::string &u)
{
    ModelS m;
    if (u == "ub") m.units.push_back(mkUnits("ub", {}));
    int n = layout == 0 ? 1 : 2;
    for (int c = 0; c < n; ++c) {
        CompS x;
        x.name = "c" + std::to_string(c);
        x.parent = c - 1;
        std::string s = std::to_string(c);
        x.vars = {{"x" + s, "", u, "", ""}, {"y" + s, "", u, "", ""}, {"t" + s, "", "second", "", ""}};
        if (c == n - 1 || layout == 2) x.math = shapeMath(shape, "x" + s, "y" + s, "t" + s, u);
        m.comps.push_back(x);
    }
    m.desc = "M1 layout=" + std::to_string(layout) + " shape=" + std::to_string(shape) + " units=" + u;
    return m;
}
static ModelS makeM2(const std::string &label, const std::string &body)
{
    ModelS m;
    CompS x;
    x.name = "c0";
    x.vars = {{"x0", "", "dimensionless", "", ""}, {"y0", "", "dimensionless", "", ""}, {"t0", "", "second", "", ""}};
    x.math = M(body);
    m.comps.push_back(x);
    m.desc = "M2 " + label;
    return m;
}
static std::vector<ModelS> makeMAll()
{
    std::vector<ModelS> all;
    for (int layout = 0; layout < 3; ++layout) for (int shape = 0; shape < 6; ++shape) for (auto u : {"dimensionless", "second", "ub"}) {
        if (!THOROUGH && !((shape == 0 && std::string(u) == "dimensionless") || (layout == 0 && std::string(u) == "ub") || (shape == 4 && layout == 1 && std::string(u) == "second"))) continue;
        if (THOROUGH && layout != 0 && std::string(u) == "second" && shape != 4) continue; // the standard-unit column is kept for the simplest layout
        all.push_back(makeM1(layout, shape, u));
    }
    return all;
}
// one valid use of every supported MathML element: Oracle 1 only (a math fault replaces the expression, so injecting into
// these bases would repeat family m's cases)
static std::vector<ModelS> makeMOpsAll()
{
    std::vector<ModelS> all;
    std::string a = ci("x0"), b = ci("y0"), one = cn("1", "dimensionless");
    auto val = [&](const std::string &label, const std::string &e) { all.push_back(makeM2(label, eq(a, e))); };
    auto cond = [&](const std::string &label, const std::string &c) { all.push_back(makeM2(label, eq(a, pw(b, c, one)))); };
    for (auto &op : UNARY) val(op, ap(op, b));
    for (auto &op : RELATIONAL) cond(op, ap(op, b + one));
    for (auto op : {"and", "or", "xor"}) { cond(op, ap(op, ap("gt", b + one) + ap("lt", b + one))); cond(std::string(op) + "3", ap(op, ap("gt", b + one) + ap("lt", b + one) + "<true/>")); }
    cond("not", ap("not", ap("gt", b + one)));
    cond("true", "<true/>");
    cond("false", "<false/>");
    val("plus1", ap("plus", b)); val("plus3", ap("plus", b + one + b)); val("minus1", ap("minus", b)); val("minus2", ap("minus", b + one));
    val("times2", ap("times", b + one)); val("times3", ap("times", b + one + b)); val("divide", ap("divide", b + one)); val("power", ap("power", b + one));
    val("rem", ap("rem", b + one)); val("min2", ap("min", b + one)); val("max3", ap("max", b + one + b));
    val("root", ap("root", b)); val("root-degree", "<apply><root/><degree>" + one + "</degree>" + b + "</apply>");
    val("log", ap("log", b)); val("log-logbase", "<apply><log/><logbase>" + one + "</logbase>" + b + "</apply>");
    for (auto c : {"pi", "exponentiale", "notanumber", "infinity"}) val(c, std::string("<") + c + "/>");
    val("cn-enotation", "<cn cellml:units=\"dimensionless\" type=\"e-notation\">-1.5<sep/>+3</cn>");
    val("cn-real-type", "<cn cellml:units=\"dimensionless\" type=\"real\">.5</cn>");
    val("piecewise-2pieces", "<piecewise><piece>" + b + ap("gt", b + one) + "</piece><piece>" + one + ap("lt", b + one) + "</piece></piecewise>");
    all.push_back(makeM2("diff", eq("<apply><diff/><bvar>" + ci("t0") + "</bvar>" + a + "</apply>", b)));
    all.push_back(makeM2("diff-degree", eq("<apply><diff/><bvar>" + ci("t0") + "<degree>" + one + "</degree></bvar>" + a + "</apply>", b)));
    all.push_back(makeM2("comment+ids", "<!-- c -->" + eq("<ci id=\"m1\">x0</ci>", "<cn id=\"m2\" cellml:units=\"dimensionless\">1</cn>")));
    return all;
}

// ---- family CHAIN: units defined through 1-4 levels of other units, with an exponent (and optionally a prefix and a
// multiplier) at EVERY level, used by one of two connected variables; the other variable has flat units base^p.
// The pairing is valid exactly when p equals the PRODUCT of the exponents along the chain (reduction done here, with
// exact binary fractions; nothing of the library is consulted). Valid pairings are judged by oracle 1 (zero issues),
// invalid ones by oracle 2 (an ERROR citing MAP_VARIABLES_ELEMENT): the candidates for p are the answers a wrong
// reduction would give (innermost exponent only, outer exponent dropped, outer exponent only, sign lost, 1).
struct ChainParam { std::vector<double> e; unsigned deco; int inner; double p; bool direct; int layout; bool swap; };
static const std::vector<std::pair<std::string, std::vector<std::pair<std::string, double>>>> &chainInner()
{ // innermost reference and its base dimensions (from the CellML 2.0 table of standard units; "ub" is a model base unit)
    static const std::vector<std::pair<std::string, std::vector<std::pair<std::string, double>>>> t = {
        {"metre", {{"metre", 1}}}, {"ub", {{"ub", 1}}}, {"litre", {{"metre", 3}}}, {"newton", {{"kilogram", 1}, {"metre", 1}, {"second", -2}}}};
    return t;
}
static double chainProduct(const ChainParam &c) { double r = 1; for (double x : c.e) r *= x; return r; }
static const std::vector<ChainParam> &chainParams()
{
    static std::vector<ChainParam> all;
    if (!all.empty()) return all;
    std::vector<double> E = {1, 2, -1, 0.5};
    if (THOROUGH) E.push_back(3);
    for (int L = 1; L <= 4; ++L) {
        uint64_t n = 1;
        for (int i = 0; i < L; ++i) n *= E.size();
        for (uint64_t code = 0; code < n; ++code) {
            std::vector<double> e;
            uint64_t c = code;
            for (int i = 0; i < L; ++i) { e.push_back(E[c % E.size()]); c /= E.size(); }
            std::vector<unsigned> decos;
            if (THOROUGH) for (unsigned d = 0; d < (1u << L); ++d) decos.push_back(d);
            else decos = {0u, (1u << L) - 1, 0x5u & ((1u << L) - 1)};
            std::sort(decos.begin(), decos.end());
            decos.erase(std::unique(decos.begin(), decos.end()), decos.end());
            for (unsigned deco : decos) for (int inner = 0; inner < int(chainInner().size()); ++inner) {
                if (!THOROUGH && inner >= 2 && deco != 0) continue;
                ChainParam base {e, deco, inner, 1, false, 0, false};
                double prod = chainProduct(base);
                std::vector<double> ps = {prod, e.back(), prod / e.front(), e.front(), 1.0, -prod, prod * 2};
                std::sort(ps.begin(), ps.end());
                ps.erase(std::unique(ps.begin(), ps.end()), ps.end());
                for (double p : ps) for (int layout = 0; layout < 2; ++layout) for (int sw = 0; sw < 2; ++sw) {
                    if (!THOROUGH && (layout + sw + int(code)) % 2) continue;
                    all.push_back({e, deco, inner, p, false, layout, sw == 1});
                }
                // the other variable names the innermost unit itself (p = 1 without a units definition of its own)
                all.push_back({e, deco, inner, 1.0, true, int(code % 2), (code / 2) % 2 == 1});
            }
        }
    }
    return all;
}
static ModelS makeChain(const ChainParam &c)
{
    ModelS m;
    int L = int(c.e.size());
    auto &inner = chainInner()[size_t(c.inner)];
    std::vector<UnitsS> us;
    for (int i = 0; i < L; ++i) {
        bool d = c.deco >> i & 1;
        us.push_back(mkUnits("k" + std::to_string(i), {{i + 1 < L ? "k" + std::to_string(i + 1) : inner.first, d ? (i % 2 ? "kilo" : "-3") : "", c.e[size_t(i)], d ? 10.0 : 1.0, ""}}));
    }
    if (c.deco & 1) std::reverse(us.begin(), us.end()); // definition order must not matter
    m.units = us;
    if (inner.first == "ub") m.units.push_back(mkUnits("ub", {}));
    std::string other = inner.first;
    if (!c.direct) {
        UnitsS flat = mkUnits("flat", {});
        for (auto &d : inner.second) flat.unit.push_back({d.first, "", d.second * c.p, 1.0, ""});
        if (inner.first == "litre" && c.p == 1.0) flat.unit = {{"litre", "", 1.0, 1.0, ""}};
        m.units.insert(m.units.begin(), flat);
        other = "flat";
    }
    for (int k = 0; k < 2; ++k) {
        CompS x;
        x.name = "c" + std::to_string(k);
        x.parent = c.layout ? k - 1 : -1;
        x.vars.push_back({"x", "", (k == 0) != c.swap ? "k0" : other, "", ""});
        m.comps.push_back(x);
    }
    if (c.swap) m.eqs.push_back({{1, 0}, {0, 0}, "", ""}); else m.eqs.push_back({{0, 0}, {1, 0}, "", ""});
    computeInterfaces(m, false);
    std::string d = "CHAIN exps=";
    for (double x : c.e) d += dbl(x) + ",";
    d += " deco=" + std::to_string(c.deco) + " inner=" + inner.first + " other=" + (c.direct ? inner.first : "flat^" + dbl(c.p)) + " layout=" + std::to_string(c.layout) + " swap=" + std::to_string(c.swap) + " product=" + dbl(chainProduct(c));
    m.desc = d;
    return m;
}

// ---- family CYC: the one crash class C04 meets by design — cyclic units that ARE used by connected variables.
// (DESIGN section 4 #2: updateBaseUnitCount recurses without a visited set.) These are faulted models; the verdict
// expected is UNIT_UNITS_CIRCULAR_REFERENCE without a crash.
static ModelS makeCyc(int len, int layout)
{
    ModelS m;
    for (int i = 0; i < len; ++i) m.units.push_back(mkUnits("cy" + std::to_string(i), {{"cy" + std::to_string((i + 1) % len), "", 1.0, 1.0, ""}}));
    for (int c = 0; c < 2; ++c) {
        CompS x;
        x.name = "c" + std::to_string(c);
        x.parent = layout ? c - 1 : -1;
        x.vars.push_back({"x", "", "cy0", "", ""});
        m.comps.push_back(x);
    }
    m.eqs.push_back({{0, 0}, {1, 0}, "", ""});
    computeInterfaces(m, false);
    m.desc = "CYC len=" + std::to_string(len) + " layout=" + std::to_string(layout);
    return m;
}

// =====================================================================================================================
// 3. Fault catalogue.
//
// EXPECTED-RULE TABLE (decided once, from the rule names of Issue::ReferenceRule and the CellML 2.0 section headings in
// issue.cpp's ruleToInformation; NOT from what the validator emits). Where the specification rule that is broken and
// the rule the validator cites are neighbours, both are listed and the reason is given here:
//
//  fault                                               expected set                                   reason for more than one member
//  --------------------------------------------------  ---------------------------------------------  -----------------------------------------
//  model / component / units / variable name illegal   <X>_NAME_VALUE                                 -
//  imported component / units name illegal             IMPORT_<X>_NAME_VALUE                          -
//  component_ref / units_ref illegal                   IMPORT_COMPONENT_COMPONENT_REFERENCE_VALUE /   -
//                                                      IMPORT_UNITS_UNITS_REFERENCE_VALUE
//  duplicate component name                            COMPONENT_NAME_UNIQUE (local+local),           2.7.1.2 and 2.4.1.2 each forbid a clash with "any
//                                                      IMPORT_COMPONENT_NAME_UNIQUE (import+import),  other component or import component": a mixed pair
//                                                      both (mixed pair)                              breaks both rules
//  duplicate units name                                UNITS_NAME_UNIQUE / IMPORT_UNITS_NAME_UNIQUE   same (2.5.1.2 / 2.3.1.2)
//  duplicate variable name in a component              VARIABLE_NAME_UNIQUE                           -
//  id not an XML name; same id on two carriers         XML_ID_ATTRIBUTE                               -
//  id inside MathML invalid                            XML_ID_ATTRIBUTE, MATH_MATHML                  the DTD types id as ID: also a MathML violation
//  units named like a standard unit                    UNITS_STANDARD                                 -
//  unit reference illegal / unknown                    UNIT_UNITS_REFERENCE                           -
//  unit prefix not SI name nor integer / out of int    UNIT_ATTRIBUTE_PREFIX_VALUE                    -
//  cyclic units (length 1-3)                           UNIT_UNITS_CIRCULAR_REFERENCE                  -
//  variable without units / illegal / unknown units    VARIABLE_UNITS_VALUE, VARIABLE_ATTRIBUTE_REQUIRED   2.8.1 "MUST contain name and units" is the rule
//                                                      (the second only for the missing attribute)        for an absent attribute; 2.8.1.2.1 for its value
//  interface not one of the four values                VARIABLE_INTERFACE_VALUE                       -
//  initial value neither real nor sibling variable     VARIABLE_INITIAL_VALUE_VALUE                   -
//  reset without order                                 RESET_ATTRIBUTE_REQUIRED, RESET_ORDER_VALUE    2.9.1 (attribute required) vs 2.9.1.3.1 (its value)
//  reset without variable / variable elsewhere         RESET_ATTRIBUTE_REQUIRED (missing only),       same
//                                                      RESET_VARIABLE_REFERENCE
//  reset without test_variable / elsewhere             RESET_ATTRIBUTE_REQUIRED (missing only),       same
//                                                      RESET_TEST_VARIABLE_REFERENCE
//  reset with empty test_value                         RESET_CHILD, RESET_TEST_VALUE_CHILD,           the object model cannot tell an absent test_value from
//                                                      TEST_VALUE_ELEMENT, TEST_VALUE_CHILD           an empty one: 2.9.2, 2.9.2.2, 2.10, 2.10.1 all apply
//  reset with empty reset_value                        RESET_CHILD, RESET_RESET_VALUE_CHILD,          same
//                                                      RESET_VALUE_ELEMENT, RESET_VALUE_CHILD
//  duplicate reset order in a connected variable set   RESET_ORDER_UNIQUE                             -
//  interface insufficient for a connection             MAP_VARIABLES_ELEMENT, VARIABLE_INTERFACE_VALUE the interface rules live in part C (no enum); the
//                                                                                                     element that is illegal is the map_variables, the
//                                                                                                     attribute that is wrong is the interface
//  connection between unreachable components           MAP_VARIABLES_ELEMENT, CONNECTION_ELEMENT      same: the illegal element is the connection / its map
//  incompatible units across a connection              MAP_VARIABLES_ELEMENT                          -
//  equivalent variable without parent component        MAP_VARIABLES_VARIABLE{1,2}_ATTRIBUTE[_REFERENCE]  "variable1/2 MUST reference a variable in
//                                                                                                     component1/2"; which side is 1 is not defined by the API
//  import href empty                                   IMPORT_HREF, IMPORT_HREF_LOCATOR               absent vs empty not distinguishable
//  import href not a URI                               IMPORT_HREF_LOCATOR                            -
//  import target missing in the resolved model         IMPORT_COMPONENT_COMPONENT_REFERENCE_TARGET /  -
//                                                      IMPORT_UNITS_UNITS_REFERENCE_VALUE_TARGET
//  import cycle                                        IMPORT_EQUIVALENT_INFOSET,                     2.2.3 is the cycle rule; the validator cites the
//                                                      IMPORT_COMPONENT_COMPONENT_REFERENCE /         reference attribute that closes the loop (2.4.2 / 2.3.2)
//                                                      IMPORT_UNITS_UNITS_REFERENCE
//  same units imported twice (same source, same ref)   IMPORT_UNITS_UNITS_REFERENCE                   libcellml's own reading of 2.3.2
//  fault inside a resolved library item                the rule of the fault itself                   -
//  math: not XML                                       XML, MATH_MATHML                               not an infoset at all (1.2.1.1) / not MathML (2.12.1)
//  math: root element not math / wrong namespace       MATH_ELEMENT, MATH_MATHML                      2.12 / 2.12.1
//  math: MathML element outside the CellML subset      MATH_CHILD                                     -
//  math: element that is not MathML at all             MATH_CHILD, MATH_MATHML                        breaks 2.12.2 and 2.12.1
//  math: DTD violation, wrong arity, operator position MATH_MATHML                                    -
//  math: ci empty / unknown / variable elsewhere       MATH_CI_VARIABLE_REFERENCE                     -
//  math: cn without / with illegal cellml:units        MATH_CN_UNITS_ATTRIBUTE                        -
//  math: cn units unknown                              MATH_CN_UNITS_ATTRIBUTE_REFERENCE              -
//  math: cn base != 10                                 MATH_CN_BASE10                                 -
//  math: cn type / text                                MATH_CN_FORMAT (+ MATH_MATHML for a type the   -
//                                                      DTD does not list)
//  math: other attribute in the cellml namespace       MATH_MATHML, XML_ATTRIBUTE_HAS_NAMESPACE       1.2.4.2 is the rule about namespaced attributes
//
// Arity table (operator families of MathML 2.0 section 4.2.3, operand counts as libcellml states them in its messages):
// relational eq neq lt leq gt geq: exactly 2; and or xor: >= 2; not: 1; plus: >= 1; times: >= 2; minus: 1 or 2;
// divide power rem: exactly 2; min max: >= 2 (as times, the other n-ary operator libcellml generates a binary call for); unary functions: exactly 1;
// root / log: 1 operand plus an optional degree / logbase; diff: bvar + 1 operand; piece: 2 children; otherwise: 1.
// =====================================================================================================================
struct Fault
{
    std::string loc;                                          // location class (no indices)
    std::function<void(ModelS &)> pre;                        // edit of the spec before building
    std::function<void(Built &, const ModelS &)> post;        // edit of the built objects (API mutation)
    std::vector<Rule> expect;                                 // overrides the injector's set when non-empty
    std::string sigloc;                                       // shorter class used in the violation signature (default: loc)
    bool isolate = false;                                     // run in a forked child: a crash of the validator becomes a violation of this fault
};
struct Injector
{
    std::string name;
    std::vector<Rule> expect;
    std::function<void(const ModelS &, std::vector<Fault> &)> gen;
    int kind = 0; // 0 structural; 1 math (core variants everywhere, all variants in family M)
};
using NV = std::pair<std::string, std::string>;
// ("no-letter": 1.3.1.1 asks for at least one alphabetic character — the validator's own message says so — and '_' has none)
static const std::vector<NV> BADNAME = {{"empty", ""}, {"digit-first", "9x"}, {"dash", "x-y"}, {"non-latin", "\xc3\xa9"}, {"no-letter", "_"}};
static const std::vector<NV> BADID = {{"digit-first", "1a"}, {"space", "a b"}, {"dash-first", "-a"}, {"times-sign", "\xc3\x97" "a"}};

static std::string unitsClass(const ModelS &m, size_t u) { return std::string(m.units[u].isrc >= 0 ? "imp-units-" : "units-") + posClass(u, m.units.size()); }
static std::string varClass(const ModelS &m, int c, size_t s) { return compClass(m, c) + "/var-" + posClass(s, m.comps[size_t(c)].vars.size()); }

struct Carrier { std::string kind, loc; std::function<void(ModelS &, const std::string &)> set; };
static std::set<std::string> g_idFocus; // non-empty: the id injectors only touch pairs/carriers involving these kinds (math-bearing families)
static bool inFocus(const std::string &k) { return g_idFocus.empty() || g_idFocus.count(k); }
static std::vector<Carrier> carriers(const ModelS &m)
{
    std::vector<Carrier> r;
    r.push_back({"model", "model", [](ModelS &x, const std::string &id) { x.id = id; }});
    bool enc = false;
    for (auto &c : m.comps) if (c.parent >= 0) enc = true;
    if (enc) r.push_back({"encapsulation", "model", [](ModelS &x, const std::string &id) { x.encId = id; }});
    for (size_t i = 0; i < m.isrc.size(); ++i) {
        int users = 0;
        for (auto &u : m.units) users += u.isrc == int(i);
        for (auto &c : m.comps) users += c.isrc == int(i);
        if (users) r.push_back({"import", users > 1 ? "shared-source" : "own-source", [i](ModelS &x, const std::string &id) { x.isrc[i].id = id; }});
    }
    for (size_t u = 0; u < m.units.size(); ++u) {
        r.push_back({"units", unitsClass(m, u), [u](ModelS &x, const std::string &id) { x.units[u].id = id; }});
        for (size_t j = 0; j < m.units[u].unit.size(); ++j)
            r.push_back({"unit", unitsClass(m, u) + "/unit-" + posClass(j, m.units[u].unit.size()), [u, j](ModelS &x, const std::string &id) { x.units[u].unit[j].id = id; }});
    }
    for (size_t c = 0; c < m.comps.size(); ++c) {
        r.push_back({"component", compClass(m, int(c)), [c](ModelS &x, const std::string &id) { x.comps[c].id = id; }});
        if (m.comps[c].parent >= 0 || hasChildren(m, int(c))) r.push_back({"component_ref", compClass(m, int(c)), [c](ModelS &x, const std::string &id) { x.comps[c].encId = id; }});
        // (variables of an imported component are placeholders for connections: they are never serialised and carry no id)
        for (size_t s = 0; s < m.comps[c].vars.size() && m.comps[c].isrc < 0; ++s) r.push_back({"variable", varClass(m, int(c), s), [c, s](ModelS &x, const std::string &id) { x.comps[c].vars[s].id = id; }});
        for (size_t k = 0; k < m.comps[c].resets.size(); ++k) {
            std::string l = compClass(m, int(c)) + "/reset-" + posClass(k, m.comps[c].resets.size());
            r.push_back({"reset", l, [c, k](ModelS &x, const std::string &id) { x.comps[c].resets[k].id = id; }});
            r.push_back({"test_value", l, [c, k](ModelS &x, const std::string &id) { x.comps[c].resets[k].tid = id; }});
            r.push_back({"reset_value", l, [c, k](ModelS &x, const std::string &id) { x.comps[c].resets[k].rid = id; }});
        }
    }
    std::set<std::pair<int, int>> conns;
    for (size_t e = 0; e < m.eqs.size(); ++e) {
        auto &q = m.eqs[e];
        if (q.a.c < 0 || q.b.c < 0) continue;
        std::string rel = m.comps[size_t(q.a.c)].parent == m.comps[size_t(q.b.c)].parent ? "siblings" : "parent-child";
        if (m.comps[size_t(q.a.c)].isrc >= 0 || m.comps[size_t(q.b.c)].isrc >= 0) rel += "-imp";
        r.push_back({"map_variables", rel + "/map-" + posClass(e, m.eqs.size()), [e](ModelS &x, const std::string &id) { x.eqs[e].mapId = id; }});
        auto k = std::make_pair(std::min(q.a.c, q.b.c), std::max(q.a.c, q.b.c));
        if (conns.insert(k).second)
            r.push_back({"connection", rel + "/conn-" + std::to_string(conns.size() == 1 ? 1 : 2) + (conns.size() > 2 ? "+" : ""), [k](ModelS &x, const std::string &id) {
                             for (auto &y : x.eqs) if (std::min(y.a.c, y.b.c) == k.first && std::max(y.a.c, y.b.c) == k.second) y.connId = id;
                         }});
    }
    return r;
}

static std::vector<std::string> standardNames()
{
    if (!THOROUGH) return {"second", "litre", "dimensionless", "katal"};
    std::vector<std::string> r;
    for (auto &p : libcellml::standardUnitsList) r.push_back(p.first);
    return r;
}

static std::vector<Injector> structuralInjectors()
{
    std::vector<Injector> I;
    auto names = [](std::vector<Fault> &out, const std::string &loc, std::function<void(ModelS &, const std::string &)> set) {
        for (auto &f : BADNAME) out.push_back({loc + "/" + f.first, [=](ModelS &m) { set(m, f.second); }, nullptr, {}});
    };
    // ---------------------------------------------------------------- identifier syntax
    I.push_back({"model-name-illegal", {Rule::MODEL_NAME_VALUE}, [=](const ModelS &, std::vector<Fault> &o) { names(o, "model", [](ModelS &m, const std::string &n) { m.name = n; }); }});
    I.push_back({"component-name-illegal", {Rule::COMPONENT_NAME_VALUE}, [=](const ModelS &b, std::vector<Fault> &o) {
                     for (size_t c = 0; c < b.comps.size(); ++c) if (b.comps[c].isrc < 0) names(o, compClass(b, int(c)), [c](ModelS &m, const std::string &n) { m.comps[c].name = n; });
                 }});
    I.push_back({"impcomp-name-illegal", {Rule::IMPORT_COMPONENT_NAME_VALUE}, [=](const ModelS &b, std::vector<Fault> &o) {
                     for (size_t c = 0; c < b.comps.size(); ++c) if (b.comps[c].isrc >= 0) names(o, compClass(b, int(c)), [c](ModelS &m, const std::string &n) { m.comps[c].name = n; });
                 }});
    I.push_back({"impcomp-ref-illegal", {Rule::IMPORT_COMPONENT_COMPONENT_REFERENCE_VALUE}, [=](const ModelS &b, std::vector<Fault> &o) {
                     for (size_t c = 0; c < b.comps.size(); ++c) if (b.comps[c].isrc >= 0) names(o, compClass(b, int(c)), [c](ModelS &m, const std::string &n) { m.comps[c].iref = n; });
                 }});
    auto unitsNames = [](const ModelS &b, std::vector<Fault> &o, bool imported) {
        for (size_t u = 0; u < b.units.size(); ++u) if ((b.units[u].isrc >= 0) == imported)
            for (auto &f : BADNAME) o.push_back({unitsClass(b, u) + "/" + f.first, nullptr, [u, f](Built &x, const ModelS &) { x.units[u]->setName(f.second); }, {}});
    };
    I.push_back({"units-name-illegal", {Rule::UNITS_NAME_VALUE}, [=](const ModelS &b, std::vector<Fault> &o) { unitsNames(b, o, false); }});
    I.push_back({"impunits-name-illegal", {Rule::IMPORT_UNITS_NAME_VALUE}, [=](const ModelS &b, std::vector<Fault> &o) { unitsNames(b, o, true); }});
    I.push_back({"impunits-ref-illegal", {Rule::IMPORT_UNITS_UNITS_REFERENCE_VALUE}, [=](const ModelS &b, std::vector<Fault> &o) {
                     for (size_t u = 0; u < b.units.size(); ++u) if (b.units[u].isrc >= 0) names(o, unitsClass(b, u), [u](ModelS &m, const std::string &n) { m.units[u].iref = n; });
                 }});
    I.push_back({"variable-name-illegal", {Rule::VARIABLE_NAME_VALUE}, [=](const ModelS &b, std::vector<Fault> &o) {
                     for (size_t c = 0; c < b.comps.size(); ++c) if (b.comps[c].isrc < 0)
                         for (size_t s = 0; s < b.comps[c].vars.size(); ++s) names(o, varClass(b, int(c), s), [c, s](ModelS &m, const std::string &n) { m.comps[c].vars[s].name = n; });
                 }});
    I.push_back({"unit-ref-illegal", {Rule::UNIT_UNITS_REFERENCE}, [=](const ModelS &b, std::vector<Fault> &o) {
                     for (size_t u = 0; u < b.units.size(); ++u) for (size_t j = 0; j < b.units[u].unit.size(); ++j)
                         names(o, unitsClass(b, u) + "/unit-" + posClass(j, b.units[u].unit.size()), [u, j](ModelS &m, const std::string &n) { m.units[u].unit[j].ref = n; });
                 }});
    I.push_back({"variable-units-illegal", {Rule::VARIABLE_UNITS_VALUE}, [=](const ModelS &b, std::vector<Fault> &o) {
                     for (size_t c = 0; c < b.comps.size(); ++c) if (b.comps[c].isrc < 0)
                         for (size_t s = 0; s < b.comps[c].vars.size(); ++s)
                             for (auto &f : BADNAME) if (!f.second.empty()) o.push_back({varClass(b, int(c), s) + "/" + f.first, [c, s, f](ModelS &m) { m.comps[c].vars[s].units = f.second; }, nullptr, {}});
                 }});
    // ---------------------------------------------------------------- uniqueness of names
    I.push_back({"component-name-dup", {}, [](const ModelS &b, std::vector<Fault> &o) {
                     for (size_t c = 0; c < b.comps.size(); ++c) {
                         std::vector<size_t> others;
                         for (size_t d = 0; d < b.comps.size(); ++d) if (d != c) others.push_back(d);
                         if (others.empty()) continue;
                         std::set<size_t> pick = {others.front(), others.back()};
                         for (size_t d : pick) {
                             bool ic = b.comps[c].isrc >= 0, id = b.comps[d].isrc >= 0;
                             std::vector<Rule> ex;
                             if (!ic || !id) ex.push_back(Rule::COMPONENT_NAME_UNIQUE);
                             if (ic || id) ex.push_back(Rule::IMPORT_COMPONENT_NAME_UNIQUE);
                             o.push_back({compClass(b, int(c)) + "=" + compClass(b, int(d)), [c, d](ModelS &m) { m.comps[c].name = m.comps[d].name; }, nullptr, ex});
                         }
                     }
                 }});
    I.push_back({"units-name-dup", {}, [](const ModelS &b, std::vector<Fault> &o) {
                     for (size_t c = 0; c < b.units.size(); ++c) {
                         std::vector<size_t> others;
                         for (size_t d = 0; d < b.units.size(); ++d) if (d != c) others.push_back(d);
                         if (others.empty()) continue;
                         std::set<size_t> pick = {others.front(), others.back()};
                         for (size_t d : pick) {
                             // (if c's definition reaches d, giving c the name of d would ALSO make c refer to itself: a second fault)
                             std::set<std::string> reach;
                             std::vector<std::string> todo = {b.units[c].name};
                             while (!todo.empty()) {
                                 auto n = todo.back();
                                 todo.pop_back();
                                 int k = unitsIndex(b, n);
                                 if (k >= 0) for (auto &u : b.units[size_t(k)].unit) if (reach.insert(u.ref).second) todo.push_back(u.ref);
                             }
                             if (reach.count(b.units[d].name)) continue;
                             bool ic = b.units[c].isrc >= 0, id = b.units[d].isrc >= 0;
                             std::vector<Rule> ex;
                             if (!ic || !id) ex.push_back(Rule::UNITS_NAME_UNIQUE);
                             if (ic || id) ex.push_back(Rule::IMPORT_UNITS_NAME_UNIQUE);
                             o.push_back({unitsClass(b, c) + "=" + unitsClass(b, d), nullptr, [c, d](Built &x, const ModelS &) { x.units[c]->setName(x.units[d]->name()); }, ex});
                         }
                     }
                 }});
    I.push_back({"variable-name-dup", {Rule::VARIABLE_NAME_UNIQUE}, [](const ModelS &b, std::vector<Fault> &o) {
                     for (size_t c = 0; c < b.comps.size(); ++c) if (b.comps[c].isrc < 0 && b.comps[c].vars.size() > 1) {
                         size_t n = b.comps[c].vars.size();
                         o.push_back({compClass(b, int(c)) + "/last=first", [c, n](ModelS &m) { m.comps[c].vars[n - 1].name = m.comps[c].vars[0].name; }, nullptr, {}});
                         o.push_back({compClass(b, int(c)) + "/first=last", [c, n](ModelS &m) { m.comps[c].vars[0].name = m.comps[c].vars[n - 1].name; }, nullptr, {}});
                     }
                 }});
    // ---------------------------------------------------------------- XML ids
    I.push_back({"id-invalid", {Rule::XML_ID_ATTRIBUTE}, [](const ModelS &b, std::vector<Fault> &o) {
                     for (auto &k : carriers(b)) if (inFocus(k.kind)) for (auto &f : BADID) { auto set = k.set; o.push_back({k.kind + "@" + k.loc + "/" + f.first, [set, f](ModelS &m) { set(m, f.second); }, nullptr, {}}); }
                 }});
    I.push_back({"id-dup", {Rule::XML_ID_ATTRIBUTE}, [](const ModelS &b, std::vector<Fault> &o) {
                     auto cs = carriers(b);
                     std::vector<std::string> kinds;
                     std::map<std::string, std::vector<size_t>> by;
                     for (size_t i = 0; i < cs.size(); ++i) { if (!by.count(cs[i].kind)) kinds.push_back(cs[i].kind); by[cs[i].kind].push_back(i); }
                     for (size_t a = 0; a < kinds.size(); ++a) for (size_t c = a; c < kinds.size(); ++c) {
                         if (!inFocus(kinds[a]) && !inFocus(kinds[c])) continue;
                         auto &A = by[kinds[a]], &B = by[kinds[c]];
                         std::set<std::pair<size_t, size_t>> pairs = {{A.front(), B.back()}, {A.back(), B.front()}};
                         for (auto &p : pairs) {
                             if (p.first == p.second) continue;
                             auto s1 = cs[p.first].set, s2 = cs[p.second].set;
                             o.push_back({kinds[a] + "+" + kinds[c], [s1, s2](ModelS &m) { s1(m, "dupid"); s2(m, "dupid"); }, nullptr, {}});
                         }
                     }
                 }});
    // ---------------------------------------------------------------- units
    I.push_back({"units-standard-name", {Rule::UNITS_STANDARD}, [](const ModelS &b, std::vector<Fault> &o) {
                     for (size_t u = 0; u < b.units.size(); ++u) for (auto &n : standardNames())
                         o.push_back({unitsClass(b, u), nullptr, [u, n](Built &x, const ModelS &) { x.units[u]->setName(n); }, {}});
                 }});
    I.push_back({"unit-ref-unknown", {Rule::UNIT_UNITS_REFERENCE}, [](const ModelS &b, std::vector<Fault> &o) {
                     for (size_t u = 0; u < b.units.size(); ++u) for (size_t j = 0; j < b.units[u].unit.size(); ++j)
                         o.push_back({unitsClass(b, u) + "/unit-" + posClass(j, b.units[u].unit.size()), [u, j](ModelS &m) { m.units[u].unit[j].ref = "nosuchunits"; }, nullptr, {}});
                 }});
    auto prefixes = [](const std::vector<NV> &forms) {
        return [forms](const ModelS &b, std::vector<Fault> &o) {
            for (size_t u = 0; u < b.units.size(); ++u) for (size_t j = 0; j < b.units[u].unit.size(); ++j) for (auto &f : forms)
                o.push_back({unitsClass(b, u) + "/unit-" + posClass(j, b.units[u].unit.size()) + "/" + f.first, [u, j, f](ModelS &m) { m.units[u].unit[j].prefix = f.second; }, nullptr, {}});
        };
    };
    I.push_back({"unit-prefix-bad", {Rule::UNIT_ATTRIBUTE_PREFIX_VALUE}, prefixes({{"misspelt", "millli"}, {"real", "1.5"}, {"exponent", "1e3"}, {"letter", "k"}, {"trailing-space", "3 "}, {"capital", "Kilo"}})});
    I.push_back({"unit-prefix-range", {Rule::UNIT_ATTRIBUTE_PREFIX_VALUE}, prefixes({{"int-max+1", "2147483648"}, {"int-min-1", "-2147483649"}, {"huge", "99999999999999999999"}})});
    I.push_back({"units-cycle", {Rule::UNIT_UNITS_CIRCULAR_REFERENCE}, [](const ModelS &b, std::vector<Fault> &o) {
                     auto hot = unitsUnderConnections(b);
                     std::vector<size_t> safe;
                     for (size_t u = 0; u < b.units.size(); ++u) if (b.units[u].isrc < 0 && !hot.count(b.units[u].name)) safe.push_back(u);
                     auto fresh = [](ModelS &m, const std::string &n, const std::string &ref) { m.units.push_back(mkUnits(n, {{ref, "", 1.0, 1.0, ""}})); };
                     for (size_t u : safe) {
                         std::string cls = unitsClass(b, u) + (b.units[u].unit.empty() ? "-base" : "-derived");
                         o.push_back({cls + "/len1", [u](ModelS &m) { m.units[u].unit.push_back({m.units[u].name, "", 1.0, 1.0, ""}); }, nullptr, {}});
                         o.push_back({cls + "/len2-fresh", [u, fresh](ModelS &m) { m.units[u].unit.push_back({"cyA", "", 1.0, 1.0, ""}); fresh(m, "cyA", m.units[u].name); }, nullptr, {}});
                         o.push_back({cls + "/len3-fresh", [u, fresh](ModelS &m) { m.units[u].unit.push_back({"cyA", "", 1.0, 1.0, ""}); fresh(m, "cyA", "cyB"); fresh(m, "cyB", m.units[u].name); }, nullptr, {}});
                         for (size_t w : safe) if (w != u && (w == safe.front() || w == safe.back())) {
                             // close the loop through an existing definition: u -> w -> u
                             o.push_back({cls + "/len2-existing", [u, w](ModelS &m) { m.units[u].unit.push_back({m.units[w].name, "", 1.0, 1.0, ""}); m.units[w].unit.push_back({m.units[u].name, "milli", 2.0, 1.0, ""}); }, nullptr, {}});
                         }
                     }
                     o.push_back({"fresh/len1", [fresh](ModelS &m) { fresh(m, "cyA", "cyA"); }, nullptr, {}});
                     o.push_back({"fresh/len2", [fresh](ModelS &m) { fresh(m, "cyA", "cyB"); fresh(m, "cyB", "cyA"); }, nullptr, {}});
                     o.push_back({"fresh/len3", [fresh](ModelS &m) { fresh(m, "cyA", "cyB"); fresh(m, "cyB", "cyC"); fresh(m, "cyC", "cyA"); }, nullptr, {}});
                 }});
    // ---------------------------------------------------------------- variables
    auto eachVar = [](const ModelS &b, std::function<void(size_t, size_t)> f) {
        for (size_t c = 0; c < b.comps.size(); ++c) if (b.comps[c].isrc < 0) for (size_t s = 0; s < b.comps[c].vars.size(); ++s) f(c, s);
    };
    I.push_back({"variable-units-missing", {Rule::VARIABLE_UNITS_VALUE, Rule::VARIABLE_ATTRIBUTE_REQUIRED}, [=](const ModelS &b, std::vector<Fault> &o) {
                     eachVar(b, [&](size_t c, size_t s) { o.push_back({varClass(b, int(c), s), [c, s](ModelS &m) { m.comps[c].vars[s].units = ""; }, nullptr, {}}); });
                 }});
    I.push_back({"variable-units-unknown", {Rule::VARIABLE_UNITS_VALUE}, [=](const ModelS &b, std::vector<Fault> &o) {
                     eachVar(b, [&](size_t c, size_t s) { o.push_back({varClass(b, int(c), s), [c, s](ModelS &m) { m.comps[c].vars[s].units = "nosuchunits"; }, nullptr, {}}); });
                 }});
    I.push_back({"variable-interface-bad", {Rule::VARIABLE_INTERFACE_VALUE}, [=](const ModelS &b, std::vector<Fault> &o) {
                     eachVar(b, [&](size_t c, size_t s) {
                         for (auto &f : std::vector<NV> {{"suffix", "publicx"}, {"word", "both"}, {"capital", "Public"}, {"spaces", "public and private"}, {"superset", "public_and_private_"}})
                             o.push_back({varClass(b, int(c), s) + "/" + f.first, [c, s, f](ModelS &m) { m.comps[c].vars[s].iface = f.second; }, nullptr, {}});
                     });
                 }});
    I.push_back({"variable-initial-bad", {Rule::VARIABLE_INITIAL_VALUE_VALUE}, [=](const ModelS &b, std::vector<Fault> &o) {
                     eachVar(b, [&](size_t c, size_t s) {
                         std::vector<NV> forms = {{"missing-variable", "nosuchvar"}, {"two-dots", "1.2.3"}, {"dangling-exponent", "1e"}, {"double-sign", "--1"}, {"hex", "0x10"}};
                         // a variable that exists, but only in ANOTHER component
                         for (size_t d = 0; d < b.comps.size(); ++d) for (auto &w : b.comps[d].vars) {
                             bool local = false;
                             for (auto &v : b.comps[c].vars) local |= v.name == w.name;
                             if (!local && d != c) { forms.push_back({"variable-of-other-component", w.name}); d = b.comps.size() - 1; break; }
                         }
                         for (auto &f : forms) o.push_back({varClass(b, int(c), s) + "/" + f.first, [c, s, f](ModelS &m) { m.comps[c].vars[s].init = f.second; }, nullptr, {}});
                     });
                 }});
    return I;
}

static std::map<std::pair<int, int>, int> ifaceNeed(const ModelS &m)
{
    std::map<std::pair<int, int>, int> need;
    for (auto &e : m.eqs) {
        if (e.a.c < 0 || e.b.c < 0) continue;
        need[{e.a.c, e.a.s}] |= (m.comps[size_t(e.b.c)].parent == e.a.c) ? 2 : 1;
        need[{e.b.c, e.b.s}] |= (m.comps[size_t(e.a.c)].parent == e.b.c) ? 2 : 1;
    }
    return need;
}
static std::string relClass(const ModelS &m, int from, int to)
{ // how component `to` relates to component `from`
    if (m.comps[size_t(to)].parent == from) return "child";
    if (m.comps[size_t(from)].parent == to) return "parent";
    if (m.comps[size_t(from)].parent == m.comps[size_t(to)].parent) return "sibling";
    for (int a = m.comps[size_t(to)].parent; a >= 0; a = m.comps[size_t(a)].parent) if (a == from) return "descendant";
    for (int a = m.comps[size_t(from)].parent; a >= 0; a = m.comps[size_t(a)].parent) if (a == to) return "ancestor";
    return "unrelated";
}

static std::vector<Injector> connectionResetImportInjectors()
{
    std::vector<Injector> I;
    // ---------------------------------------------------------------- connections
    I.push_back({"iface-insufficient", {Rule::MAP_VARIABLES_ELEMENT, Rule::VARIABLE_INTERFACE_VALUE}, [](const ModelS &b, std::vector<Fault> &o) {
                     for (auto &kv : ifaceNeed(b)) {
                         size_t c = size_t(kv.first.first), s = size_t(kv.first.second);
                         if (b.comps[c].isrc >= 0) continue; // variables of imported components are not the importing model's to declare
                         std::vector<std::string> weak = kv.second == 1 ? std::vector<std::string> {"private", "none", ""} : kv.second == 2 ? std::vector<std::string> {"public", "none", ""} : std::vector<std::string> {"public", "private", "none", ""};
                         static const char *needName[] = {"", "needs-public", "needs-private", "needs-both"};
                         for (auto &w : weak)
                             o.push_back({varClass(b, int(c), s) + "/" + needName[kv.second] + "/has-" + (w.empty() ? "nothing" : w), [c, s, w](ModelS &m) { m.comps[c].vars[s].iface = w; }, nullptr, {}});
                     }
                 }});
    I.push_back({"conn-unreachable", {Rule::MAP_VARIABLES_ELEMENT, Rule::CONNECTION_ELEMENT}, [](const ModelS &b, std::vector<Fault> &o) {
                     for (size_t a = 0; a < b.comps.size(); ++a) for (size_t c = a + 1; c < b.comps.size(); ++c) {
                         if (admissible(b, int(a), int(c)) || b.comps[a].isrc >= 0 || b.comps[c].isrc >= 0) continue;
                         // a fresh, correctly declared variable on each side, so that the connection itself is the only fault
                         o.push_back({compClass(b, int(a)) + "~" + relClass(b, int(a), int(c)) + "/fresh-vars", [a, c](ModelS &m) {
                                          m.comps[a].vars.push_back({"zz", "", "dimensionless", "public_and_private", ""});
                                          m.comps[c].vars.push_back({"zz", "", "dimensionless", "public_and_private", ""});
                                          m.eqs.push_back({{int(a), int(m.comps[a].vars.size()) - 1}, {int(c), int(m.comps[c].vars.size()) - 1}, "", ""});
                                      }, nullptr, {}});
                         // the same between existing first variables (their other connections stay as they are)
                         if (b.comps[a].vars[0].units == b.comps[c].vars[0].units)
                             o.push_back({compClass(b, int(a)) + "~" + relClass(b, int(a), int(c)) + "/existing-vars", [a, c](ModelS &m) {
                                              m.comps[a].vars[0].iface = "public_and_private";
                                              m.comps[c].vars[0].iface = "public_and_private";
                                              m.eqs.push_back({{int(a), 0}, {int(c), 0}, "", ""});
                                          }, nullptr, {}});
                     }
                 }});
    I.push_back({"conn-parentless", {Rule::MAP_VARIABLES_VARIABLE1_ATTRIBUTE, Rule::MAP_VARIABLES_VARIABLE2_ATTRIBUTE, Rule::MAP_VARIABLES_VARIABLE1_ATTRIBUTE_REFERENCE, Rule::MAP_VARIABLES_VARIABLE2_ATTRIBUTE_REFERENCE},
                 [](const ModelS &b, std::vector<Fault> &o) {
                     auto need = ifaceNeed(b);
                     for (size_t c = 0; c < b.comps.size(); ++c) {
                         if (b.comps[c].isrc >= 0) continue;
                         o.push_back({compClass(b, int(c)) + "/fresh-var", [c](ModelS &m) {
                                          m.comps[c].vars.push_back({"zz", "", "dimensionless", "public_and_private", ""});
                                          m.eqs.push_back({{int(c), int(m.comps[c].vars.size()) - 1}, {-2, 0}, "", ""});
                                      }, nullptr, {}});
                         for (size_t s = 0; s < b.comps[c].vars.size(); ++s)
                             o.push_back({varClass(b, int(c), s) + (need.count({int(c), int(s)}) ? "/connected-var" : "/unconnected-var"), [c, s](ModelS &m) { m.eqs.push_back({{int(c), int(s)}, {-2, 0}, "", ""}); }, nullptr, {}});
                     }
                 }});
    I.push_back({"conn-units-incompatible", {Rule::MAP_VARIABLES_ELEMENT}, [](const ModelS &b, std::vector<Fault> &o) {
                     std::set<std::pair<int, int>> done;
                     for (auto &e : b.eqs) {
                         if (e.a.c < 0 || e.b.c < 0 || b.comps[size_t(e.a.c)].isrc >= 0 || b.comps[size_t(e.b.c)].isrc >= 0) continue;
                         for (int side = 0; side < 2; ++side) {
                             const VRef &r = side ? e.b : e.a;
                             if (!done.insert({r.c, r.s}).second) continue;
                             size_t c = size_t(r.c), s = size_t(r.s);
                             std::string rel = relClass(b, r.c, (side ? e.a : e.b).c);
                             o.push_back({varClass(b, r.c, s) + "/to-" + rel + "/standard-unit", [c, s](ModelS &m) { m.comps[c].vars[s].units = "kilogram"; }, nullptr, {}});
                             o.push_back({varClass(b, r.c, s) + "/to-" + rel + "/model-units", [c, s](ModelS &m) {
                                              m.units.push_back(mkUnits("uz", {{"ampere", "milli", 2.0, 1.0, ""}}));
                                              m.comps[c].vars[s].units = "uz";
                                          }, nullptr, {}});
                         }
                     }
                 }});
    // ---------------------------------------------------------------- resets
    auto eachReset = [](const ModelS &b, std::function<void(size_t, size_t, const std::string &)> f) {
        for (size_t c = 0; c < b.comps.size(); ++c) for (size_t k = 0; k < b.comps[c].resets.size(); ++k) f(c, k, compClass(b, int(c)) + "/reset-" + posClass(k, b.comps[c].resets.size()));
    };
    I.push_back({"reset-no-order", {Rule::RESET_ATTRIBUTE_REQUIRED, Rule::RESET_ORDER_VALUE}, [=](const ModelS &b, std::vector<Fault> &o) {
                     eachReset(b, [&](size_t c, size_t k, const std::string &l) { o.push_back({l, [c, k](ModelS &m) { m.comps[c].resets[k].hasOrder = false; }, nullptr, {}}); });
                 }});
    I.push_back({"reset-no-variable", {Rule::RESET_ATTRIBUTE_REQUIRED, Rule::RESET_VARIABLE_REFERENCE}, [=](const ModelS &b, std::vector<Fault> &o) {
                     eachReset(b, [&](size_t c, size_t k, const std::string &l) { o.push_back({l, [c, k](ModelS &m) { m.comps[c].resets[k].var = VRef(); }, nullptr, {}}); });
                 }});
    I.push_back({"reset-no-test-variable", {Rule::RESET_ATTRIBUTE_REQUIRED, Rule::RESET_TEST_VARIABLE_REFERENCE}, [=](const ModelS &b, std::vector<Fault> &o) {
                     eachReset(b, [&](size_t c, size_t k, const std::string &l) { o.push_back({l, [c, k](ModelS &m) { m.comps[c].resets[k].tvar = VRef(); }, nullptr, {}}); });
                 }});
    I.push_back({"reset-no-test-value", {Rule::RESET_CHILD, Rule::RESET_TEST_VALUE_CHILD, Rule::TEST_VALUE_ELEMENT, Rule::TEST_VALUE_CHILD}, [=](const ModelS &b, std::vector<Fault> &o) {
                     eachReset(b, [&](size_t c, size_t k, const std::string &l) {
                         o.push_back({l + "/empty", [c, k](ModelS &m) { m.comps[c].resets[k].test = ""; }, nullptr, {}});
                         o.push_back({l + "/blank", [c, k](ModelS &m) { m.comps[c].resets[k].test = " \n\t "; }, nullptr, {}});
                     });
                 }});
    I.push_back({"reset-no-reset-value", {Rule::RESET_CHILD, Rule::RESET_RESET_VALUE_CHILD, Rule::RESET_VALUE_ELEMENT, Rule::RESET_VALUE_CHILD}, [=](const ModelS &b, std::vector<Fault> &o) {
                     eachReset(b, [&](size_t c, size_t k, const std::string &l) {
                         o.push_back({l + "/empty", [c, k](ModelS &m) { m.comps[c].resets[k].value = ""; }, nullptr, {}});
                         o.push_back({l + "/blank", [c, k](ModelS &m) { m.comps[c].resets[k].value = " \n\t "; }, nullptr, {}});
                     });
                 }});
    auto elsewhere = [=](bool test) {
        return [=](const ModelS &b, std::vector<Fault> &o) {
            eachReset(b, [&](size_t c, size_t k, const std::string &l) {
                for (size_t d = 0; d < b.comps.size(); ++d) if (d != c && !b.comps[d].vars.empty())
                    o.push_back({l + "/in-" + relClass(b, int(c), int(d)), [c, k, d, test](ModelS &m) { (test ? m.comps[c].resets[k].tvar : m.comps[c].resets[k].var) = {int(d), 0}; }, nullptr, {}});
            });
        };
    };
    auto orphan = [=](bool test) { // the referenced variable belongs to no component at all
        return [=](const ModelS &b, std::vector<Fault> &o) {
            eachReset(b, [&](size_t c, size_t k, const std::string &l) {
                Fault f {l, [c, k, test](ModelS &m) { (test ? m.comps[c].resets[k].tvar : m.comps[c].resets[k].var) = {-2, 0}; }, nullptr, {}};
                f.sigloc = "reset-" + posClass(k, b.comps[c].resets.size());
                f.isolate = true;
                o.push_back(f);
            });
        };
    };
    I.push_back({"reset-variable-elsewhere", {Rule::RESET_VARIABLE_REFERENCE}, elsewhere(false)});
    I.push_back({"reset-testvar-elsewhere", {Rule::RESET_TEST_VARIABLE_REFERENCE}, elsewhere(true)});
    I.push_back({"reset-variable-orphan", {Rule::RESET_VARIABLE_REFERENCE}, orphan(false)});
    I.push_back({"reset-testvar-orphan", {Rule::RESET_TEST_VARIABLE_REFERENCE}, orphan(true)});
    I.push_back({"reset-order-dup", {Rule::RESET_ORDER_UNIQUE}, [=](const ModelS &b, std::vector<Fault> &o) {
                     eachReset(b, [&](size_t c, size_t k, const std::string &l) {
                         auto &r = b.comps[c].resets[k];
                         if (r.var.c < 0 || !r.hasOrder) return;
                         // connected variable set of the reset's variable, with the distance in map_variables steps
                         std::map<std::pair<int, int>, int> dist = {{{r.var.c, r.var.s}, 0}};
                         for (bool grown = true; grown;) {
                             grown = false;
                             for (auto &e : b.eqs) for (int dir = 0; dir < 2; ++dir) {
                                 auto &p = dir ? e.b : e.a; auto &q = dir ? e.a : e.b;
                                 if (p.c < 0 || q.c < 0) continue;
                                 if (dist.count({p.c, p.s}) && !dist.count({q.c, q.s})) { dist[{q.c, q.s}] = dist[{p.c, p.s}] + 1; grown = true; }
                             }
                         }
                         for (auto &kv : dist) {
                             size_t d = size_t(kv.first.first), s = size_t(kv.first.second);
                             if (b.comps[d].isrc >= 0) continue;
                             std::string cls = kv.second == 0 ? "same-variable" : kv.second == 1 ? "directly-equivalent" : "indirectly-equivalent";
                             int order = r.order;
                             o.push_back({l + "/" + cls + "/added-in-" + (d == c ? "same-component" : relClass(b, int(c), int(d))), [d, s, order](ModelS &m) {
                                              ResetS x;
                                              x.order = order;
                                              x.var = {int(d), int(s)};
                                              x.tvar = {int(d), 0};
                                              x.test = M(cn("1", "dimensionless"));
                                              x.value = M(cn("0", "dimensionless"));
                                              m.comps[d].resets.push_back(x);
                                          }, nullptr, {}});
                         }
                     });
                 }});
    // ---------------------------------------------------------------- imports
    auto eachSource = [](const ModelS &b, std::function<void(size_t, const std::string &)> f) {
        for (size_t i = 0; i < b.isrc.size(); ++i) {
            int nu = 0, nc = 0;
            for (auto &u : b.units) nu += u.isrc == int(i);
            for (auto &c : b.comps) nc += c.isrc == int(i);
            if (nu + nc) f(i, std::string(nu && nc ? "units+components" : nu ? "units" : "components") + (nu + nc > 1 ? "-shared" : "-own") + (b.resolve ? "/resolved" : "/unresolved"));
        }
    };
    I.push_back({"import-href-empty", {Rule::IMPORT_HREF, Rule::IMPORT_HREF_LOCATOR}, [=](const ModelS &b, std::vector<Fault> &o) {
                     eachSource(b, [&](size_t i, const std::string &l) { o.push_back({l, [i](ModelS &m) { m.isrc[i].url = ""; }, nullptr, {}}); });
                 }});
    I.push_back({"import-href-invalid", {Rule::IMPORT_HREF_LOCATOR}, [=](const ModelS &b, std::vector<Fault> &o) {
                     eachSource(b, [&](size_t i, const std::string &l) {
                         for (auto &f : std::vector<NV> {{"space", "a b.cellml"}, {"open-bracket", "http://["}, {"bad-escape", "%zz"}, {"two-fragments", "a#b#c"}})
                             o.push_back({l + "/" + f.first, [i, f](ModelS &m) { m.isrc[i].url = f.second; }, nullptr, {}});
                     });
                 }});
    auto concreteLibComp = [](const std::string &ref) { return ref == "lc" || ref == "ld"; };
    I.push_back({"impcomp-target-missing", {Rule::IMPORT_COMPONENT_COMPONENT_REFERENCE_TARGET}, [](const ModelS &b, std::vector<Fault> &o) {
                     if (!b.resolve) return;
                     for (size_t c = 0; c < b.comps.size(); ++c) if (b.comps[c].isrc >= 0)
                         o.push_back({compClass(b, int(c)), nullptr, [c](Built &x, const ModelS &) { x.comps[c]->setImportReference("absent_component"); }, {}});
                 }});
    I.push_back({"impunits-target-missing", {Rule::IMPORT_UNITS_UNITS_REFERENCE_VALUE_TARGET}, [](const ModelS &b, std::vector<Fault> &o) {
                     if (!b.resolve) return;
                     for (size_t u = 0; u < b.units.size(); ++u) if (b.units[u].isrc >= 0)
                         o.push_back({unitsClass(b, u), nullptr, [u](Built &x, const ModelS &) { x.units[u]->setImportReference("absent_units"); }, {}});
                 }});
    I.push_back({"import-cycle-component", {Rule::IMPORT_EQUIVALENT_INFOSET, Rule::IMPORT_COMPONENT_COMPONENT_REFERENCE}, [=](const ModelS &b, std::vector<Fault> &o) {
                     if (!b.resolve) return;
                     for (size_t c = 0; c < b.comps.size(); ++c) if (b.comps[c].isrc >= 0 && concreteLibComp(b.comps[c].iref)) {
                         for (int len = 1; len <= 2; ++len)
                             o.push_back({compClass(b, int(c)) + "/len" + std::to_string(len), nullptr, [c, len](Built &x, const ModelS &s) {
                                              auto L = x.comps[c]->importSource()->model();
                                              if (!L) return;
                                              auto target = L->component(s.comps[c].iref);
                                              auto back = ImportSource::create();
                                              back->setUrl(s.isrc[size_t(s.comps[c].isrc)].url);
                                              back->setModel(L);
                                              if (len == 1) { // the library component imports itself
                                                  target->setImportSource(back);
                                                  target->setImportReference(s.comps[c].iref);
                                              } else { // library component -> second library -> back
                                                  auto L2 = Model::create("cyc2");
                                                  auto hop = Component::create("hop");
                                                  hop->setImportSource(back);
                                                  hop->setImportReference(s.comps[c].iref);
                                                  L2->addComponent(hop);
                                                  auto fwd = ImportSource::create();
                                                  fwd->setUrl("cyc2.cellml");
                                                  fwd->setModel(L2);
                                                  target->setImportSource(fwd);
                                                  target->setImportReference("hop");
                                                  x.extraModels.push_back(L2);
                                              }
                                          }, {}});
                     }
                 }});
    I.push_back({"import-cycle-units", {Rule::IMPORT_EQUIVALENT_INFOSET, Rule::IMPORT_UNITS_UNITS_REFERENCE}, [](const ModelS &b, std::vector<Fault> &o) {
                     if (!b.resolve) return;
                     for (size_t u = 0; u < b.units.size(); ++u) if (b.units[u].isrc >= 0 && b.units[u].iref == "lu") {
                         for (int len = 1; len <= 2; ++len)
                             o.push_back({unitsClass(b, u) + "/len" + std::to_string(len), nullptr, [u, len](Built &x, const ModelS &s) {
                                              auto L = x.units[u]->importSource()->model();
                                              if (!L) return;
                                              auto target = L->units(s.units[u].iref);
                                              auto back = ImportSource::create();
                                              back->setUrl(s.isrc[size_t(s.units[u].isrc)].url);
                                              back->setModel(L);
                                              if (len == 1) {
                                                  target->setImportSource(back);
                                                  target->setImportReference(s.units[u].iref);
                                              } else {
                                                  auto L2 = Model::create("cyc2");
                                                  auto hop = Units::create("hop");
                                                  hop->setImportSource(back);
                                                  hop->setImportReference(s.units[u].iref);
                                                  L2->addUnits(hop);
                                                  auto fwd = ImportSource::create();
                                                  fwd->setUrl("cyc2.cellml");
                                                  fwd->setModel(L2);
                                                  target->setImportSource(fwd);
                                                  target->setImportReference("hop");
                                                  x.extraModels.push_back(L2);
                                              }
                                          }, {}});
                     }
                 }});
    I.push_back({"impunits-same-source-ref-twice", {Rule::IMPORT_UNITS_UNITS_REFERENCE}, [](const ModelS &b, std::vector<Fault> &o) {
                     for (size_t u = 0; u < b.units.size(); ++u) if (b.units[u].isrc >= 0)
                         o.push_back({unitsClass(b, u) + (b.resolve ? "/resolved" : "/unresolved"), [u](ModelS &m) { UnitsS t = m.units[u]; t.name = "imported_twice"; t.id = ""; m.units.push_back(t); }, nullptr, {}});
                 }});
    I.push_back({"lib-variable-name-illegal", {Rule::VARIABLE_NAME_VALUE}, [=](const ModelS &b, std::vector<Fault> &o) {
                     if (!b.resolve) return;
                     for (size_t c = 0; c < b.comps.size(); ++c) if (b.comps[c].isrc >= 0 && concreteLibComp(b.comps[c].iref))
                         o.push_back({compClass(b, int(c)), nullptr, [c](Built &x, const ModelS &s) {
                                          auto L = x.comps[c]->importSource()->model();
                                          if (L) L->component(s.comps[c].iref)->variable(0)->setName("9bad");
                                      }, {}});
                 }});
    I.push_back({"lib-unit-ref-unknown", {Rule::UNIT_UNITS_REFERENCE}, [](const ModelS &b, std::vector<Fault> &o) {
                     if (!b.resolve) return;
                     for (size_t u = 0; u < b.units.size(); ++u) if (b.units[u].isrc >= 0 && b.units[u].iref == "lu")
                         o.push_back({unitsClass(b, u), nullptr, [u](Built &x, const ModelS &s) {
                                          auto L = x.units[u]->importSource()->model();
                                          if (L) L->units(s.units[u].iref)->setUnitAttributeReference(0, "nosuchunits");
                                      }, {}});
                 }});
    return I;
}

// ---------------------------------------------------------------- MathML faults
struct MathLoc { size_t c; int reset; bool test; std::string cls, holder; }; // reset < 0: the component's own math
static std::vector<MathLoc> mathLocs(const ModelS &m)
{
    std::vector<MathLoc> r;
    for (size_t c = 0; c < m.comps.size(); ++c) {
        if (!m.comps[c].math.empty()) r.push_back({c, -1, false, compClass(m, int(c)) + "/component-math", "component-math"});
        for (size_t k = 0; k < m.comps[c].resets.size(); ++k) {
            std::string l = compClass(m, int(c)) + "/reset-" + posClass(k, m.comps[c].resets.size());
            r.push_back({c, int(k), true, l + "/test_value", "test_value"});
            r.push_back({c, int(k), false, l + "/reset_value", "reset_value"});
        }
    }
    return r;
}
struct MCtx { std::string a, b, u, other; }; // two local variables, a units name, a variable that exists only elsewhere
static MCtx mathCtx(const ModelS &m, size_t c)
{
    MCtx x;
    auto &v = m.comps[c].vars;
    x.a = v.empty() ? "a" : v[0].name;
    x.b = v.size() > 1 ? v[1].name : x.a;
    x.u = v.empty() || v[0].units.empty() ? "dimensionless" : v[0].units;
    for (size_t d = 0; d < m.comps.size() && x.other.empty(); ++d) if (d != c) for (auto &w : m.comps[d].vars) {
        bool local = false;
        for (auto &l : v) local |= l.name == w.name;
        if (!local) { x.other = w.name; break; }
    }
    return x;
}
struct MathVariant
{
    std::string label;
    bool core;  // applied to every base that carries math; the rest only in family M
    bool whole; // replaces the whole math string instead of the right-hand side / value expression
    std::function<std::string(const MCtx &)> make;
    std::vector<Rule> expect;
};
static bool g_fullMath = false;
static void setMath(ModelS &m, const MathLoc &l, const std::string &text, bool whole, const MCtx &x)
{
    if (l.reset < 0) m.comps[l.c].math = whole ? text : M(eq(ci(x.a), text));
    else (l.test ? m.comps[l.c].resets[size_t(l.reset)].test : m.comps[l.c].resets[size_t(l.reset)].value) = whole ? text : M(text);
}
// position contexts: the faulty expression is not only the whole right-hand side / value but also sits at every kind of child
// position the children/siblings walk distinguishes (operand, piece value, piece condition, otherwise, degree, logbase, the
// operand after a qualifier, the degree of a bvar, two levels down). Family M only (g_fullMath); context 0 everywhere.
static const std::vector<std::string> &mathPositions()
{
    static const std::vector<std::string> p = {"", "operand", "piece-value", "piece-condition", "otherwise", "degree", "logbase", "after-degree", "after-logbase", "bvar-degree", "level-2"};
    return p;
}
static std::string atPosition(size_t pos, const std::string &t, const MCtx &x)
{
    const std::string one = cn("1", "dimensionless");
    const std::string cond = ap("gt", ci(x.a) + one);
    switch (pos) {
    case 1: return ap("plus", ci(x.a) + t);
    case 2: return "<piecewise><piece>" + t + cond + "</piece><otherwise>" + ci(x.a) + "</otherwise></piecewise>";
    case 3: return "<piecewise><piece>" + ci(x.a) + t + "</piece><otherwise>" + ci(x.a) + "</otherwise></piecewise>";
    case 4: return "<piecewise><piece>" + ci(x.a) + cond + "</piece><otherwise>" + t + "</otherwise></piecewise>";
    case 5: return "<apply><root/><degree>" + t + "</degree>" + ci(x.a) + "</apply>";
    case 6: return "<apply><log/><logbase>" + t + "</logbase>" + ci(x.a) + "</apply>";
    case 7: return "<apply><root/><degree>" + one + "</degree>" + t + "</apply>";
    case 8: return "<apply><log/><logbase>" + one + "</logbase>" + t + "</apply>";
    case 9: return "<apply><diff/><bvar>" + ci(x.b) + "<degree>" + t + "</degree></bvar>" + ci(x.a) + "</apply>";
    case 10: return ap("minus", ap("times", ci(x.a) + ap("plus", t + ci(x.a))));
    default: return t;
    }
}
static Injector mathInjector(const std::string &name, std::vector<Rule> expect, std::vector<MathVariant> variants)
{
    Injector inj;
    inj.name = name;
    inj.expect = std::move(expect);
    inj.kind = 1;
    inj.gen = [variants](const ModelS &b, std::vector<Fault> &o) {
        for (auto &l : mathLocs(b)) {
            MCtx x = mathCtx(b, l.c);
            for (auto &v : variants) {
                if (!v.core && !g_fullMath) continue;
                std::string text = v.make(x);
                if (text.empty()) continue; // variant not applicable here (e.g. no variable in another component)
                o.push_back({l.cls + "/" + v.label, [l, text, v, x](ModelS &m) { setMath(m, l, text, v.whole, x); }, nullptr, v.expect, l.holder + "/" + v.label});
                if (v.whole || !g_fullMath) continue;
                for (size_t pos = 1; pos < mathPositions().size(); ++pos) {
                    std::string placed = atPosition(pos, text, x);
                    std::string at = "@" + mathPositions()[pos];
                    o.push_back({l.cls + "/" + v.label + at, [l, placed, v, x](ModelS &m) { setMath(m, l, placed, false, x); }, nullptr, v.expect, l.holder + "/" + v.label + at});
                }
            }
        }
    };
    return inj;
}
static std::string rep(const std::string &s, int n) { std::string r; for (int i = 0; i < n; ++i) r += s; return r; }
static std::vector<Injector> mathInjectors()
{
    std::vector<Injector> I;
    using X = const MCtx &;
    const std::string open = "<math xmlns=\"" + MNS + "\" xmlns:cellml=\"" + CNS + "\">";
    I.push_back(mathInjector("math-not-xml", {Rule::XML, Rule::MATH_MATHML}, {
        {"unclosed", true, true, [=](X x) { return open + "<apply><eq/>" + ci(x.a); }, {}},
        {"mismatched-tags", true, true, [=](X x) { return open + "<apply>" + ci(x.a) + "</math>"; }, {}},
        {"plain-text", true, true, [=](X x) { return x.a + " = 1"; }, {Rule::XML, Rule::MATH_MATHML, Rule::MATH_ELEMENT}},
    }));
    I.push_back(mathInjector("math-root-not-math", {Rule::MATH_ELEMENT, Rule::MATH_MATHML}, {
        {"apply-root", true, true, [=](X x) { return "<apply xmlns=\"" + MNS + "\" xmlns:cellml=\"" + CNS + "\"><eq/>" + ci(x.a) + cn("1", x.u) + "</apply>"; }, {}},
        {"unknown-root", true, true, [=](X) { return "<notmath xmlns=\"" + MNS + "\"/>"; }, {}},
        {"no-namespace", true, true, [=](X x) { return "<math><apply><eq/>" + ci(x.a) + ci(x.b) + "</apply></math>"; }, {}},
        {"cellml-namespace", false, true, [=](X x) { return "<math xmlns=\"" + CNS + "\"><apply><eq/>" + ci(x.a) + ci(x.b) + "</apply></math>"; }, {}},
    }));
    {
        std::vector<MathVariant> v;
        for (auto op : {"factorial", "conjugate", "arg", "real", "imaginary"}) v.push_back({std::string("unary/") + op, std::string(op) == "factorial", false, [=](X x) { return ap(op, ci(x.a)); }, {}});
        for (auto op : {"quotient", "gcd", "lcm", "implies"}) v.push_back({std::string("binary/") + op, std::string(op) == "quotient", false, [=](X x) { return ap(op, ci(x.a) + ci(x.b)); }, {}});
        for (auto c : {"eulergamma", "imaginaryi", "emptyset", "integers", "reals"}) v.push_back({std::string("constant/") + c, std::string(c) == "eulergamma", false, [=](X) { return std::string("<") + c + "/>"; }, {}});
        for (auto c : {"vector", "set", "list", "matrixrow"}) v.push_back({std::string("container/") + c, std::string(c) == "vector", false, [=](X x) { return std::string("<") + c + ">" + ci(x.a) + ci(x.b) + "</" + c + ">"; }, {}});
        v.push_back({"semantics", true, false, [=](X x) { return "<semantics>" + ci(x.a) + "</semantics>"; }, {}});
        v.push_back({"csymbol", false, false, [=](X x) { return "<apply><csymbol>f</csymbol>" + ci(x.a) + "</apply>"; }, {}});
        v.push_back({"lambda", false, false, [=](X x) { return "<lambda><bvar>" + ci(x.a) + "</bvar>" + ci(x.a) + "</lambda>"; }, {}});
        v.push_back({"sum", false, false, [=](X x) { return "<apply><sum/><bvar>" + ci(x.a) + "</bvar>" + ci(x.a) + "</apply>"; }, {}});
        v.push_back({"int", false, false, [=](X x) { return "<apply><int/><bvar>" + ci(x.a) + "</bvar>" + ci(x.a) + "</apply>"; }, {}});
        v.push_back({"partialdiff", false, false, [=](X x) { return "<apply><partialdiff/><bvar>" + ci(x.a) + "</bvar>" + ci(x.b) + "</apply>"; }, {}});
        v.push_back({"condition", false, false, [=](X x) { return "<apply><min/><bvar>" + ci(x.a) + "</bvar><condition>" + ap("gt", ci(x.a) + ci(x.b)) + "</condition>" + ci(x.a) + "</apply>"; }, {}});
        v.push_back({"presentation/mi", true, false, [=](X x) { return "<mi>" + x.a + "</mi>"; }, {}});
        v.push_back({"presentation/mrow", false, false, [=](X x) { return "<mrow><mi>" + x.a + "</mi><mo>+</mo><mn>1</mn></mrow>"; }, {}});
        I.push_back(mathInjector("math-unsupported-mathml", {Rule::MATH_CHILD}, v));
    }
    I.push_back(mathInjector("math-nonmathml-element", {Rule::MATH_CHILD, Rule::MATH_MATHML}, {
        {"unknown-operator", true, false, [=](X x) { return "<apply><foo/>" + ci(x.a) + "</apply>"; }, {}},
        {"unknown-token", true, false, [=](X) { return "<bar>1</bar>"; }, {}},
        {"foreign-namespace", true, false, [=](X x) { return "<apply><plus/>" + ci(x.a) + "<z:q xmlns:z=\"urn:z\"/></apply>"; }, {}},
        {"cellml-element", false, false, [=](X x) { return "<apply><plus/>" + ci(x.a) + "<cellml:variable/></apply>"; }, {}},
    }));
    I.push_back(mathInjector("math-dtd", {Rule::MATH_MATHML}, {
        {"empty-element-with-text", true, false, [=](X) { return "<pi>3</pi>"; }, {}},
        {"empty-element-with-child", false, false, [=](X x) { return "<true>" + ci(x.a) + "</true>"; }, {}},
        {"undeclared-attribute", true, false, [=](X x) { return "<apply bogus=\"1\"><plus/>" + ci(x.a) + ci(x.b) + "</apply>"; }, {}},
        {"two-otherwise", true, false, [=](X x) { return "<piecewise><otherwise>" + ci(x.a) + "</otherwise><otherwise>" + ci(x.b) + "</otherwise></piecewise>"; }, {}},
        {"otherwise-before-piece", false, false, [=](X x) { return "<piecewise><otherwise>" + ci(x.a) + "</otherwise><piece>" + ci(x.b) + "<true/></piece></piecewise>"; }, {}},
    }));
    {
        // arity: (family, operator, allowed minimum, allowed maximum (-1 = any)) -> every count in 0..max+1 outside the range
        struct Ar { std::string fam, op; int lo, hi; };
        std::vector<Ar> t;
        for (auto &op : RELATIONAL) t.push_back({"relational", op, 2, 2});
        for (auto op : {"and", "or", "xor"}) t.push_back({"logical-nary", op, 2, -1});
        t.push_back({"logical-unary", "not", 1, 1});
        t.push_back({"arith-nary", "plus", 1, -1});
        t.push_back({"arith-nary", "times", 2, -1});
        t.push_back({"arith-nary", "min", 2, -1}); // (as times: the generator emits a two-parameter function for them)
        t.push_back({"arith-nary", "max", 2, -1});
        t.push_back({"arith-unary-or-binary", "minus", 1, 2});
        for (auto op : {"divide", "power", "rem"}) t.push_back({"arith-binary", op, 2, 2});
        for (auto &op : UNARY) t.push_back({"unary-function", op, 1, 1});
        std::set<std::string> coreOps = {"eq", "and", "not", "plus", "times", "min", "max", "minus", "rem", "sin"};
        std::vector<MathVariant> v;
        std::map<std::string, std::vector<MathVariant>> byFam; // one injector per operator family keeps a case short
        for (auto &r : t) {
            int top = r.hi < 0 ? r.lo - 1 : r.hi + 1;
            for (int n = 0; n <= top; ++n) {
                if (n >= r.lo && (r.hi < 0 || n <= r.hi)) continue;
                std::string op = r.op;
                byFam[r.fam].push_back({op + "/operands-" + std::to_string(n), coreOps.count(op) > 0, false, [=](X x) { return ap(op, rep(ci(x.a), n)); }, {}});
            }
        }
        for (auto &kv : byFam) I.push_back(mathInjector("math-arity-" + kv.first, {Rule::MATH_MATHML}, kv.second));
        std::string one = cn("1", "dimensionless");
        auto q = [&](const std::string &label, bool core, std::function<std::string(X)> f) { v.push_back({label, core, false, f, {}}); };
        q("root/operands-0", true, [=](X) { return ap("root", ""); });
        q("root/operands-2-no-degree", true, [=](X x) { return ap("root", ci(x.a) + ci(x.b)); });
        q("root/operands-2-with-degree", false, [=](X x) { return ap("root", "<degree>" + one + "</degree>" + ci(x.a) + ci(x.b)); });
        q("root/degree-not-second", true, [=](X x) { return ap("root", ci(x.a) + "<degree>" + one + "</degree>"); });
        q("root/degree-empty", true, [=](X x) { return ap("root", "<degree/>" + ci(x.a)); });
        q("root/degree-two-children", false, [=](X x) { return ap("root", "<degree>" + one + one + "</degree>" + ci(x.a)); });
        q("root/logbase-instead-of-degree", false, [=](X x) { return ap("root", "<logbase>" + one + "</logbase>" + ci(x.a)); });
        q("log/operands-0", true, [=](X) { return ap("log", ""); });
        q("log/operands-2-no-logbase", true, [=](X x) { return ap("log", ci(x.a) + ci(x.b)); });
        q("log/logbase-not-second", false, [=](X x) { return ap("log", ci(x.a) + "<logbase>" + one + "</logbase>"); });
        q("log/logbase-empty", true, [=](X x) { return ap("log", "<logbase/>" + ci(x.a)); });
        q("log/logbase-two-children", false, [=](X x) { return ap("log", "<logbase>" + one + one + "</logbase>" + ci(x.a)); });
        q("logbase-without-log", false, [=](X x) { return ap("plus", "<logbase>" + one + "</logbase>" + ci(x.a)); });
        q("diff/no-bvar", true, [=](X x) { return ap("diff", ci(x.a)); });
        q("diff/bvar-not-second", true, [=](X x) { return ap("diff", ci(x.a) + "<bvar>" + ci(x.b) + "</bvar>"); });
        q("diff/bvar-empty", true, [=](X x) { return ap("diff", "<bvar/>" + ci(x.a)); });
        q("diff/bvar-three-children", false, [=](X x) { return ap("diff", "<bvar>" + ci(x.b) + "<degree>" + one + "</degree>" + ci(x.b) + "</bvar>" + ci(x.a)); });
        q("diff/operands-2", false, [=](X x) { return ap("diff", "<bvar>" + ci(x.b) + "</bvar>" + ci(x.a) + ci(x.a)); });
        q("diff/operands-0", false, [=](X x) { return ap("diff", "<bvar>" + ci(x.b) + "</bvar>"); });
        q("bvar-without-diff", false, [=](X x) { return ap("plus", "<bvar>" + ci(x.b) + "</bvar>" + ci(x.a)); });
        q("piece/one-child", true, [=](X x) { return "<piecewise><piece>" + ci(x.a) + "</piece></piecewise>"; });
        q("piece/three-children", true, [=](X x) { return "<piecewise><piece>" + ci(x.a) + "<true/>" + ci(x.b) + "</piece></piecewise>"; });
        q("piece/empty", false, [=](X) { return "<piecewise><piece/></piecewise>"; });
        q("otherwise/empty", true, [=](X x) { return "<piecewise><piece>" + ci(x.a) + "<true/></piece><otherwise/></piecewise>"; });
        q("otherwise/two-children", false, [=](X x) { return "<piecewise><piece>" + ci(x.a) + "<true/></piece><otherwise>" + ci(x.a) + ci(x.b) + "</otherwise></piecewise>"; });
        q("apply/empty", true, [=](X) { return "<apply/>"; });
        I.push_back(mathInjector("math-arity-qualifier", {Rule::MATH_MATHML}, v));
        std::vector<MathVariant> w;
        for (auto &r : t) {
            std::string op = r.op;
            int n = r.lo;
            w.push_back({r.fam + "/" + op, coreOps.count(op) > 0, false, [=](X x) { return "<apply>" + ci(x.a) + "<" + op + "/>" + rep(ci(x.b), n - 1) + "</apply>"; }, {}});
        }
        w.push_back({"qualifier/root", false, false, [=](X x) { return "<apply>" + ci(x.a) + "<root/></apply>"; }, {}});
        w.push_back({"qualifier/log", false, false, [=](X x) { return "<apply>" + ci(x.a) + "<log/></apply>"; }, {}});
        w.push_back({"qualifier/diff", true, false, [=](X x) { return "<apply><bvar>" + ci(x.b) + "</bvar><diff/>" + ci(x.a) + "</apply>"; }, {}});
        I.push_back(mathInjector("math-operator-not-first", {Rule::MATH_MATHML}, w));
    }
    I.push_back(mathInjector("math-ci", {Rule::MATH_CI_VARIABLE_REFERENCE}, {
        {"empty", true, false, [=](X x) { return ap("plus", ci(x.a) + "<ci></ci>"); }, {}},
        {"self-closed", true, false, [=](X x) { return ap("plus", ci(x.a) + "<ci/>"); }, {}},
        {"blank", true, false, [=](X x) { return ap("plus", ci(x.a) + "<ci> \n </ci>"); }, {}},
        {"unknown-name", true, false, [=](X x) { return ap("plus", ci(x.a) + ci("nosuchvar")); }, {}},
        {"other-case", false, false, [=](X x) { std::string n = x.a; n[0] = char(toupper(n[0])); return n == x.a ? std::string() : ap("plus", ci(x.a) + ci(n)); }, {}},
        {"variable-of-other-component", true, false, [=](X x) { return x.other.empty() ? std::string() : ap("plus", ci(x.a) + ci(x.other)); }, {}},
        {"alone", true, false, [=](X) { return ci("nosuchvar"); }, {}},
    }));
    {
        std::vector<MathVariant> v = {
            {"absent", true, false, [=](X) { return "<cn>1</cn>"; }, {}},
            {"empty", true, false, [=](X) { return "<cn cellml:units=\"\">1</cn>"; }, {}},
            {"no-namespace", true, false, [=](X x) { return "<cn units=\"" + x.u + "\">1</cn>"; }, {}},
            {"nested-absent", false, false, [=](X x) { return ap("plus", ci(x.a) + ap("times", ci(x.b) + "<cn>2</cn>")); }, {}},
        };
        for (auto &f : BADNAME) if (!f.second.empty()) v.push_back({"illegal/" + f.first, f.first == "digit-first", false, [=](X) { return cn("1", f.second); }, {}});
        I.push_back(mathInjector("math-cn-units", {Rule::MATH_CN_UNITS_ATTRIBUTE}, v));
    }
    I.push_back(mathInjector("math-cn-units-unknown", {Rule::MATH_CN_UNITS_ATTRIBUTE_REFERENCE}, {
        {"alone", true, false, [=](X) { return cn("1", "nosuchunits"); }, {}},
        {"nested", true, false, [=](X x) { return ap("plus", ci(x.a) + ap("times", ci(x.b) + cn("2", "nosuchunits"))); }, {}},
        {"in-degree", false, false, [=](X x) { return ap("root", "<degree>" + cn("2", "nosuchunits") + "</degree>" + ci(x.a)); }, {}},
    }));
    I.push_back(mathInjector("math-cn-base", {Rule::MATH_CN_BASE10}, {
        {"base-2", true, false, [=](X x) { return "<cn cellml:units=\"" + x.u + "\" base=\"2\">1</cn>"; }, {}},
        {"base-16", true, false, [=](X x) { return "<cn cellml:units=\"" + x.u + "\" base=\"16\">1F</cn>"; }, {}},
        {"base-16-e-notation", false, false, [=](X x) { return "<cn cellml:units=\"" + x.u + "\" base=\"16\" type=\"e-notation\">1<sep/>2</cn>"; }, {}},
    }));
    {
        std::vector<MathVariant> v;
        for (auto t : {"integer", "rational", "complex-cartesian", "complex-polar", "constant"})
            v.push_back({std::string("mathml-type/") + t, std::string(t) == "integer" || std::string(t) == "rational", false, [=](X x) { return "<cn cellml:units=\"" + x.u + "\" type=\"" + t + "\">1" + (std::string(t) == "integer" || std::string(t) == "constant" ? "" : "<sep/>2") + "</cn>"; }, {}});
        v.push_back({"unknown-type", true, false, [=](X x) { return "<cn cellml:units=\"" + x.u + "\" type=\"bogus\">1</cn>"; }, {Rule::MATH_CN_FORMAT, Rule::MATH_MATHML}});
        I.push_back(mathInjector("math-cn-type", {Rule::MATH_CN_FORMAT}, v));
    }
    {
        std::vector<MathVariant> v;
        auto real = [&](const std::string &label, bool core, const std::string &content) { v.push_back({"real/" + label, core, false, [=](X x) { return "<cn cellml:units=\"" + x.u + "\">" + content + "</cn>"; }, {}}); };
        auto eno = [&](const std::string &label, bool core, const std::string &content) { v.push_back({"e-notation/" + label, core, false, [=](X x) { return "<cn cellml:units=\"" + x.u + "\" type=\"e-notation\">" + content + "</cn>"; }, {}}); };
        real("empty", true, ""); real("letters", true, "abc"); real("exponent", true, "1e3"); real("two-numbers", false, "1 2"); real("comma", false, "1,5"); real("hex", false, "0x1F");
        real("double-sign", false, "--1"); real("two-dots", false, "1.2.3"); real("sep-child", true, "1<sep/>2"); real("plus-sign", false, "+1"); real("element-child", false, "<ci>q</ci>");
        eno("no-sep", true, "1.5"); eno("real-exponent", true, "1<sep/>2.5"); eno("bad-mantissa", false, "a<sep/>2"); eno("two-seps", false, "1<sep/>2<sep/>3"); eno("empty-exponent", true, "1<sep/>"); eno("empty-mantissa", false, "<sep/>2");
        I.push_back(mathInjector("math-cn-format", {Rule::MATH_CN_FORMAT}, v));
    }
    I.push_back(mathInjector("math-foreign-cellml-attr", {Rule::MATH_MATHML, Rule::XML_ATTRIBUTE_HAS_NAMESPACE}, {
        {"cn-extra", true, false, [=](X x) { return "<cn cellml:units=\"" + x.u + "\" cellml:foo=\"1\">1</cn>"; }, {}},
        {"cn-extra-empty-value", true, false, [=](X x) { return "<cn cellml:units=\"" + x.u + "\" cellml:foo=\"\">1</cn>"; }, {}},
        {"ci-units", true, false, [=](X x) { return "<ci cellml:units=\"" + x.u + "\">" + x.a + "</ci>"; }, {}},
        {"apply-units", true, false, [=](X x) { return "<apply cellml:units=\"" + x.u + "\"><plus/>" + ci(x.a) + ci(x.b) + "</apply>"; }, {}},
        {"operator-units", false, false, [=](X x) { return "<apply><plus cellml:units=\"" + x.u + "\"/>" + ci(x.a) + ci(x.b) + "</apply>"; }, {}},
    }));
    I.push_back(mathInjector("math-id-dup", {Rule::XML_ID_ATTRIBUTE}, {
        {"two-elements", true, false, [=](X x) { return "<apply id=\"dupm\"><plus/><ci id=\"dupm\">" + x.a + "</ci>" + ci(x.b) + "</apply>"; }, {}},
    }));
    I.push_back(mathInjector("math-id-invalid", {Rule::XML_ID_ATTRIBUTE, Rule::MATH_MATHML}, {
        {"digit-first", true, false, [=](X x) { return "<ci id=\"1a\">" + x.a + "</ci>"; }, {}},
        {"space", true, false, [=](X x) { return "<ci id=\"a b\">" + x.a + "</ci>"; }, {}},
    }));
    // an id shared between a MathML element and a CellML entity
    Injector shared;
    shared.name = "math-id-dup-with-entity";
    shared.expect = {Rule::XML_ID_ATTRIBUTE};
    shared.kind = 1;
    shared.gen = [](const ModelS &b, std::vector<Fault> &o) {
        for (auto &l : mathLocs(b)) {
            MCtx x = mathCtx(b, l.c);
            std::string text = "<ci id=\"dupe\">" + x.a + "</ci>";
            o.push_back({l.cls + "/component", [l, text, x](ModelS &m) { setMath(m, l, text, false, x); m.comps[l.c].id = "dupe"; }, nullptr, {}, l.holder + "/component"});
            o.push_back({l.cls + "/variable", [l, text, x](ModelS &m) { setMath(m, l, text, false, x); m.comps[l.c].vars[0].id = "dupe"; }, nullptr, {}, l.holder + "/variable"});
            o.push_back({l.cls + "/model", [l, text, x](ModelS &m) { setMath(m, l, text, false, x); m.id = "dupe"; }, nullptr, {}, l.holder + "/model"});
        }
    };
    I.push_back(shared);
    return I;
}

// =====================================================================================================================
// 4. Running and judging
// =====================================================================================================================
static const std::map<Rule, const char *> &ruleNames()
{
#define RN(x) {Rule::x, #x}
    static const std::map<Rule, const char *> n = {
        RN(UNDEFINED), RN(XML), RN(XML_UNEXPECTED_ELEMENT), RN(XML_ATTRIBUTE_HAS_NAMESPACE), RN(XML_ID_ATTRIBUTE), RN(MODEL_NAME), RN(MODEL_NAME_VALUE), RN(IMPORT_HREF), RN(IMPORT_HREF_LOCATOR), RN(IMPORT_EQUIVALENT_INFOSET),
        RN(IMPORT_UNITS_NAME_VALUE), RN(IMPORT_UNITS_NAME_UNIQUE), RN(IMPORT_UNITS_UNITS_REFERENCE), RN(IMPORT_UNITS_UNITS_REFERENCE_VALUE), RN(IMPORT_UNITS_UNITS_REFERENCE_VALUE_TARGET),
        RN(IMPORT_COMPONENT_NAME_VALUE), RN(IMPORT_COMPONENT_NAME_UNIQUE), RN(IMPORT_COMPONENT_COMPONENT_REFERENCE), RN(IMPORT_COMPONENT_COMPONENT_REFERENCE_VALUE), RN(IMPORT_COMPONENT_COMPONENT_REFERENCE_TARGET),
        RN(UNITS_NAME_VALUE), RN(UNITS_NAME_UNIQUE), RN(UNITS_STANDARD), RN(UNIT_UNITS_REFERENCE), RN(UNIT_UNITS_CIRCULAR_REFERENCE), RN(UNIT_ATTRIBUTE_PREFIX_VALUE), RN(COMPONENT_NAME_VALUE), RN(COMPONENT_NAME_UNIQUE),
        RN(VARIABLE_ATTRIBUTE_REQUIRED), RN(VARIABLE_NAME_VALUE), RN(VARIABLE_NAME_UNIQUE), RN(VARIABLE_UNITS_VALUE), RN(VARIABLE_INTERFACE_VALUE), RN(VARIABLE_INITIAL_VALUE_VALUE),
        RN(RESET_ATTRIBUTE_REQUIRED), RN(RESET_VARIABLE_REFERENCE), RN(RESET_TEST_VARIABLE_REFERENCE), RN(RESET_ORDER_VALUE), RN(RESET_ORDER_UNIQUE), RN(RESET_CHILD), RN(RESET_RESET_VALUE_CHILD), RN(RESET_TEST_VALUE_CHILD),
        RN(TEST_VALUE_ELEMENT), RN(TEST_VALUE_CHILD), RN(RESET_VALUE_ELEMENT), RN(RESET_VALUE_CHILD), RN(MATH_ELEMENT), RN(MATH_MATHML), RN(MATH_CHILD), RN(MATH_CI_VARIABLE_REFERENCE), RN(MATH_CN_UNITS_ATTRIBUTE),
        RN(MATH_CN_UNITS_ATTRIBUTE_REFERENCE), RN(MATH_CN_BASE10), RN(MATH_CN_FORMAT), RN(CONNECTION_ELEMENT), RN(MAP_VARIABLES_ELEMENT), RN(MAP_VARIABLES_VARIABLE1_ATTRIBUTE), RN(MAP_VARIABLES_VARIABLE1_ATTRIBUTE_REFERENCE),
        RN(MAP_VARIABLES_VARIABLE2_ATTRIBUTE), RN(MAP_VARIABLES_VARIABLE2_ATTRIBUTE_REFERENCE), RN(INVALID_ARGUMENT)};
#undef RN
    return n;
}
static std::string ruleName(Rule r)
{
    auto it = ruleNames().find(r);
    return it == ruleNames().end() ? "rule" + std::to_string(int(r)) : it->second;
}
static std::string issuedRules(const ValidatorPtr &v, bool errorsOnly)
{
    std::set<std::string> s;
    for (size_t i = 0; i < v->issueCount(); ++i) if (!errorsOnly || v->issue(i)->level() == Issue::Level::ERROR) s.insert(ruleName(v->issue(i)->referenceRule()));
    std::string r;
    for (auto &x : s) r += (r.empty() ? "" : "+") + x;
    return r;
}
static std::string printed(const ModelPtr &m)
{
    auto p = Printer::create();
    return safe(p->printModel(m), 6000);
}

struct FamilyDef
{
    std::string name;
    std::function<uint64_t()> nbase;
    std::function<ModelS(uint64_t)> base;
    std::vector<Injector> inj;
    bool fullMath = false;
    std::set<std::string> idFocus;
};

static void runFaultHere(Ctx &ctx, const ModelS &base, const Injector &inj, const Fault &f);
// The signature of a miss names the injector and the KIND of fault (the form of the bad value, the carrier kinds, the operator);
// the position class of the location is recorded in the detail (and in the outcome histogram), not in the signature.
static std::string sigLocation(const Injector &inj, const Fault &f)
{
    if (!f.sigloc.empty()) return f.sigloc;
    auto parts = [&]() { std::vector<std::string> r; std::string cur; for (char c : f.loc) { if (c == '/') { r.push_back(cur); cur.clear(); } else cur += c; } r.push_back(cur); return r; }();
    const std::string &n = inj.name;
    auto ends = [&](const char *suf) { std::string x = suf; return n.size() >= x.size() && n.compare(n.size() - x.size(), x.size(), x) == 0; };
    if (ends("-illegal") || n == "unit-prefix-bad" || n == "unit-prefix-range" || n == "variable-interface-bad" || n == "variable-initial-bad" || n == "import-href-invalid") return parts.back();
    if (n == "id-invalid") return f.loc.substr(0, f.loc.find('@')) + "/" + parts.back();
    if (n == "iface-insufficient" && parts.size() >= 2) return parts[parts.size() - 2] + "/" + parts.back();
    if (n == "reset-order-dup" && parts.size() >= 2) return parts[parts.size() - 2];
    if (n == "units-cycle") return parts.back();
    return f.loc;
}
// Runs `body` (which returns true when the fault was reported) in a forked child so that a crash is attributed to exactly this
// fault. Returns 1 reported, 0 missed (the child has printed the violation), -1 crashed (status describes how).
static int isolated(const std::function<bool()> &body, std::string &status)
{
    fflush(stdout);
    pid_t pid = fork();
    if (pid == 0) {
        bool ok = body();
        fflush(stdout);
        _exit(ok ? 40 : 41);
    }
    int st = 0;
    waitpid(pid, &st, 0);
    if (WIFEXITED(st) && WEXITSTATUS(st) == 40) return 1;
    if (WIFEXITED(st) && WEXITSTATUS(st) == 41) return 0;
    status = WIFSIGNALED(st) ? "signal-" + std::to_string(WTERMSIG(st)) : "sanitizer-or-abnormal-exit";
    return -1;
}
static void runFault(Ctx &ctx, const ModelS &base, const Injector &inj, const Fault &f)
{
    if (!f.isolate) { runFaultHere(ctx, base, inj, f); return; }
    std::string status;
    int r = isolated([&]() { Ctx child = ctx; child.violations = 0; runFaultHere(child, base, inj, f); return child.violations == 0; }, status);
    ++ctx.judged;
    ctx.count("loc:" + inj.name);
    if (r == 1) ctx.outcome(inj.name + ":reported");
    else if (r == 0) { ++ctx.violations; ctx.outcome(inj.name + ":MISSED"); }
    else {
        ctx.outcome(inj.name + ":VALIDATOR-CRASHED");
        ctx.violation("validator-crashed:" + inj.name + ":" + sigLocation(inj, f) + ":" + status, {{"base", base.desc}, {"location", f.loc}});
    }
}
static void runFaultHere(Ctx &ctx, const ModelS &base, const Injector &inj, const Fault &f)
{
    ModelS s = base;
    if (f.pre) f.pre(s);
    auto b = buildModel(s, &ctx);
    if (f.post) {
        try {
            f.post(*b, s);
        } catch (const std::exception &e) {
            ctx.violation("harness:post-hook-failed:" + inj.name, {{"what", e.what()}, {"base", base.desc}, {"loc", f.loc}});
            return;
        }
    }
    auto v = Validator::create();
    v->validateModel(b->model);
    ctx.logger(v, "validator");
    ++ctx.judged;
    const auto &expect = f.expect.empty() ? inj.expect : f.expect;
    bool hit = false, anyError = false;
    for (size_t i = 0; i < v->issueCount() && !hit; ++i) {
        auto is = v->issue(i);
        if (is->level() != Issue::Level::ERROR) continue;
        anyError = true;
        hit = std::find(expect.begin(), expect.end(), is->referenceRule()) != expect.end();
    }
    ctx.count("loc:" + inj.name);
    if (hit) {
        ctx.outcome(inj.name + ":reported");
        return;
    }
    ctx.outcome(inj.name + (anyError ? ":MISSED-other-rules-only" : ":MISSED-no-error"));
    json ex = json::array();
    for (auto r : expect) ex.push_back(ruleName(r));
    ctx.violation("fault-not-reported:" + inj.name + ":" + sigLocation(inj, f) + ":" + (anyError ? "other-rules-only" : "no-error"),
                  {{"base", base.desc}, {"location", f.loc}, {"expected_any_of", ex}, {"reported_rules", issuedRules(v, true)}, {"issues", issuesJson(v, 12)}, {"faulted_model", printed(b->model)}});
}

static void runCase(const FamilyDef &fam, uint64_t i, Ctx &ctx)
{
    g_fullMath = fam.fullMath;
    g_idFocus = fam.idFocus;
    uint64_t per = fam.inj.size() + 1, bi = i / per, j = i % per;
    ModelS base = fam.base(bi);
    if (j == 0) {
        auto b = buildModel(base, &ctx);
        auto v = Validator::create();
        v->validateModel(b->model);
        ctx.logger(v, "validator");
        ++ctx.judged;
        if (v->issueCount() == 0) { ctx.outcome("base:accepted"); return; }
        ctx.outcome("base:REJECTED");
        ctx.violation("valid-base-rejected:" + fam.name + ":" + issuedRules(v, false), {{"base", base.desc}, {"issues", issuesJson(v, 12)}, {"model", printed(b->model)}});
        return;
    }
    const Injector &inj = fam.inj[j - 1];
    std::vector<Fault> faults;
    inj.gen(base, faults);
    if (faults.empty()) ctx.outcome("no-location"); // legitimate per base; the check fails the run if an injector has no location at all
    for (auto &f : faults) runFault(ctx, base, inj, f);
}

static json showCase(const FamilyDef &fam, uint64_t i)
{
    g_fullMath = fam.fullMath;
    g_idFocus = fam.idFocus;
    uint64_t per = fam.inj.size() + 1, bi = i / per, j = i % per;
    ModelS base = fam.base(bi);
    auto b = buildModel(base, nullptr);
    json r = {{"family", fam.name}, {"base_index", bi}, {"base", base.desc}, {"base_model", printed(b->model)}};
    if (j == 0) { r["case"] = "validate the base: expect zero issues"; return r; }
    const Injector &inj = fam.inj[j - 1];
    std::vector<Fault> faults;
    inj.gen(base, faults);
    json locs = json::array();
    for (auto &f : faults) locs.push_back(f.loc);
    json ex = json::array();
    for (auto x : inj.expect) ex.push_back(ruleName(x));
    r["injector"] = inj.name;
    r["expected_any_of"] = ex;
    r["locations"] = locs;
    return r;
}

int main(int argc, char **argv)
{
    const char *tier = getenv("C04_TIER");
    THOROUGH = tier && std::string(tier) == "thorough";
    static std::vector<ModelS> U, V, R, IM, MM, MO;
    auto structural = structuralInjectors();
    auto cri = connectionResetImportInjectors();
    auto math = mathInjectors();
    std::vector<Injector> all = structural;
    all.insert(all.end(), cri.begin(), cri.end());
    all.insert(all.end(), math.begin(), math.end());
    auto lazy = [](std::vector<ModelS> &store, std::vector<ModelS> (*make)()) {
        return std::make_pair(std::function<uint64_t()>([&store, make]() { if (store.empty()) store = make(); return uint64_t(store.size()); }),
                              std::function<ModelS(uint64_t)>([&store, make](uint64_t i) { if (store.empty()) store = make(); return store.at(size_t(i)); }));
    };
    static std::vector<FamilyDef> defs;
    defs.push_back({"h", []() { return uint64_t(hParams().size()); }, [](uint64_t i) { return makeH(hParams().at(size_t(i))); }, all, false, {}});
    { auto p = lazy(U, makeUAll); defs.push_back({"u", p.first, p.second, all, false, {}}); }
    { auto p = lazy(V, makeVAll); defs.push_back({"v", p.first, p.second, all, false, {}}); }
    // Math-bearing families cost 16-75 ms per validation (the MathML DTD is re-read for every math block), so they run the
    // injectors for which the presence of resets / math matters; every other injector meets the same location classes on
    // the math-free families.
    auto subset = [&](std::initializer_list<const char *> prefixes) {
        std::vector<Injector> r;
        for (auto &x : all) for (auto p : prefixes) if (x.name.rfind(p, 0) == 0) { r.push_back(x); break; }
        return r;
    };
    { auto p = lazy(R, makeRAll); defs.push_back({"r", p.first, p.second, subset({"reset-", "math-", "id-", "variable-name-", "component-name-illegal", "conn-parentless"}), false, {"reset", "test_value", "reset_value"}}); }
    { auto p = lazy(IM, makeIAll); defs.push_back({"i", p.first, p.second, all, false, {}}); }
    { auto p = lazy(MM, makeMAll); defs.push_back({"m", p.first, p.second, subset({"math-", "variable-name-", "component-name-illegal", "variable-units-", "units-name-illegal"}), true, {}}); }
    { auto p = lazy(MO, makeMOpsAll); defs.push_back({"mops", p.first, p.second, {}, false, {}}); }
    std::vector<Family> families;
    for (auto &d : defs) {
        const FamilyDef *fd = &d;
        families.push_back({d.name, [fd]() { return fd->nbase() * (fd->inj.size() + 1); }, [fd](uint64_t i, Ctx &ctx) { runCase(*fd, i, ctx); }, [fd](uint64_t i) { return showCase(*fd, i); }});
    }
    // the crash class: cyclic units under a connection (faulted models, judged directly)
    families.push_back({"cyc", []() { return uint64_t(6); },
                        [](uint64_t i, Ctx &ctx) {
                            ModelS s = makeCyc(int(i % 3) + 1, int(i / 3));
                            std::string where = i / 3 ? "parent-child" : "siblings", status;
                            int r = isolated([&]() {
                                Ctx child = ctx;
                                auto b = buildModel(s, &child);
                                auto v = Validator::create();
                                v->validateModel(b->model);
                                child.logger(v, "validator");
                                if (hasRule(v, Rule::UNIT_UNITS_CIRCULAR_REFERENCE)) return true;
                                child.violation("fault-not-reported:units-cycle-under-connection:" + where + ":" + (v->errorCount() ? "only-" + issuedRules(v, true) : std::string("no-error")), {{"base", s.desc}, {"issues", issuesJson(v, 12)}});
                                return false;
                            }, status);
                            ++ctx.judged;
                            ctx.count("loc:units-cycle-under-connection");
                            if (r == 1) ctx.outcome("units-cycle-under-connection:reported");
                            else if (r == 0) { ++ctx.violations; ctx.outcome("units-cycle-under-connection:MISSED"); }
                            else {
                                ctx.outcome("units-cycle-under-connection:VALIDATOR-CRASHED");
                                ctx.violation("validator-crashed:units-cycle-under-connection:" + where + ":" + status, {{"base", s.desc}});
                            }
                        },
                        [](uint64_t i) { ModelS s = makeCyc(int(i % 3) + 1, int(i / 3)); return json {{"family", "cyc"}, {"base", s.desc}, {"model", printed(buildModel(s, nullptr)->model)}}; }});
    // units chains under a connection: valid and invalid pairings, verdict from the harness's own reduction
    families.push_back({"chain", []() { return uint64_t(chainParams().size()); },
                        [](uint64_t i, Ctx &ctx) {
                            const ChainParam &c = chainParams().at(size_t(i));
                            ModelS s = makeChain(c);
                            auto b = buildModel(s, &ctx);
                            auto v = Validator::create();
                            v->validateModel(b->model);
                            ctx.logger(v, "validator");
                            ++ctx.judged;
                            bool valid = c.p == chainProduct(c);
                            std::string depth = "depth-" + std::to_string(c.e.size());
                            if (valid) {
                                ctx.count("chain-valid-pairings");
                                if (v->issueCount() == 0) { ctx.outcome("chain-valid-pairing:accepted"); return; }
                                ctx.outcome("chain-valid-pairing:REJECTED");
                                ctx.violation("valid-base-rejected:chain:" + depth + ":" + issuedRules(v, false), {{"base", s.desc}, {"issues", issuesJson(v, 12)}, {"model", printed(b->model)}});
                                return;
                            }
                            ctx.count("loc:conn-units-incompatible-chain");
                            if (hasRule(v, Rule::MAP_VARIABLES_ELEMENT)) { ctx.outcome("conn-units-incompatible-chain:reported"); return; }
                            ctx.outcome(std::string("conn-units-incompatible-chain:MISSED-") + (v->errorCount() ? "other-rules-only" : "no-error"));
                            ctx.violation("fault-not-reported:conn-units-incompatible-chain:" + depth + ":" + (v->errorCount() ? "other-rules-only" : "no-error"),
                                          {{"base", s.desc}, {"issues", issuesJson(v, 12)}, {"faulted_model", printed(b->model)}});
                        },
                        [](uint64_t i) { ModelS s = makeChain(chainParams().at(size_t(i))); return json {{"family", "chain"}, {"base", s.desc}, {"expected", chainParams().at(size_t(i)).p == chainProduct(chainParams().at(size_t(i))) ? "zero issues" : "ERROR MAP_VARIABLES_ELEMENT"}, {"model", printed(buildModel(s, nullptr)->model)}}; }});
    // `injectors`: the catalogue, for the supervisor's vacuity check
    if (argc >= 2 && std::string(argv[1]) == "per") { // cases per base, by family
        json o = json::object();
        for (auto &d : defs) { json a = json::array({"base"}); for (auto &x : d.inj) a.push_back(x.name); o[d.name] = a; }
        puts(o.dump().c_str());
        return 0;
    }
    if (argc >= 2 && std::string(argv[1]) == "injectors") {
        json a = json::array();
        for (auto &x : all) a.push_back(x.name);
        a.push_back("units-cycle-under-connection");
        a.push_back("conn-units-incompatible-chain");
        puts(a.dump().c_str());
        return 0;
    }
    return harnessMain(argc, argv, families);
}
