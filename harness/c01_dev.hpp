// C01 helper: the deviation alphabet (families a-d of the design) over a seed's mini DOM.
// Every deviation addresses seed nodes by their document-order id, so two deviations compose on one copy of the tree.
#pragma once
#include "c01_dom.hpp"
#include "c01_seeds.hpp"
#include <map>
#include <set>

namespace c01 {

enum DevKind {
    A_SET, A_DEL, A_DUP, A_RENAME, A_ADD,           // (a) attributes
    X_SET,                                           // (a) text content of ci / cn
    E_DEL, E_DUP, E_MOVE, E_RENAME, E_NS_ELEM, E_NS_TREE, // (b) elements
    C_INS,                                           // (c) insert a child node
    T_TRUNC,                                         // (d) truncation of the serialised text
    D_TEXT                                           // document-level byte edits (prolog, doctype, encodings, trailing bytes)
};
struct Dev
{
    DevKind kind;
    char fam;        // 'a'..'d', 'x' for document level
    int node = -1;   // element id
    std::string attr; // attribute name (A_*)
    int pos = 0;     // E_MOVE: target parent id; C_INS: child element ordinal; T_TRUNC: byte offset; D_TEXT: variant; X_SET: text-kid ordinal
    std::string val;
    std::string why; // non-empty: this single deviation certainly makes the main document an invalid model -> >= 1 error/warning expected
    bool reduced = false; // member of the reduced alphabet used for deviation pairs
};

static const char *NS_MENU[] = {NS20, NS10, NS11, NSMATH, "", "http://example.com/foreign", NSCMETA, NSXLINK};
static const char *CELLML_NAMES[] = {"model", "import", "units", "unit", "component", "variable", "reset", "test_value", "reset_value", "math", "encapsulation",
                                     "component_ref", "connection", "map_variables", "group", "relationship_ref", "map_components", "foo", "apply", "ci"};

// ---- reference grammar for numbers (written from the CellML 2.0 data representation section, as in the C16 harness)
inline bool isDig(char ch) { return ch >= '0' && ch <= '9'; }
inline bool refInteger(const std::string &s)
{
    size_t i = 0, d = 0;
    if (i < s.size() && (s[i] == '+' || s[i] == '-')) ++i;
    while (i < s.size() && isDig(s[i])) { ++i; ++d; }
    return d >= 1 && i == s.size();
}
inline bool refBasicReal(const std::string &s)
{
    size_t i = 0, d = 0, dots = 0;
    if (i < s.size() && s[i] == '-') ++i;
    while (i < s.size() && (isDig(s[i]) || s[i] == '.')) { if (s[i] == '.') ++dots; else ++d; ++i; }
    return d >= 1 && dots <= 1 && i == s.size();
}
inline bool refReal(const std::string &s)
{
    size_t e = s.find_first_of("eE");
    if (e == std::string::npos) return refBasicReal(s);
    return refBasicReal(s.substr(0, e)) && refInteger(s.substr(e + 1));
}
inline bool refIdentifier(const std::string &s)
{
    // only what is beyond dispute is judged here (the full identifier rule, incl. "at least one letter", belongs to C04)
    if (s.empty() || isDig(s[0])) return false;
    for (char ch : s) if (!(isalnum((unsigned char)ch) || ch == '_')) return false;
    return true;
}

static const std::vector<std::string> &numericMenu()
{
    static std::vector<std::string> m = {"", "-", ".", "-.", "+1", "1e", "e1", "1e+", "1.2.3", "1e999", "-1e999", "1e-999", "nan", "inf", "-inf", "NaN", "Infinity",
                                         "1234567890123456789012345678901234567890", "0x10", " 1 ", "1,5", "\xef\xbc\x91", "-0", "0", "-1", "3", "0.5", "1.5", "1e308", "1e-320",
                                         "1e2147483648", "2147483647", "2147483648", "-2147483649", "99999999999999999999", "400", "-400", "milli", "x", "1 2", "--1", "1e1.5", "\xff"};
    return m;
}
static const std::vector<std::string> &identifierMenu()
{
    static std::vector<std::string> m = {"", "1x", "a b", "\xc3\xa9", "_", "a-b", "x.y", "&lt;", "a&#10;b", std::string(10000, 'n'), "metre", "\xff", "\xc3", "&#1;x", " ", "x&#x0;"};
    return m;
}


struct SeedInfo
{
    XN dom;
    std::vector<const XN *> elems; // by id
    std::vector<std::string> unitsNames, componentNames, variableNames, ids, keys;
    std::string text;
    std::vector<Dev> devs;
    std::vector<size_t> reducedIdx;
};

inline void addUnique(std::vector<std::string> &v, const std::string &s) { if (std::find(v.begin(), v.end(), s) == v.end()) v.push_back(s); }

inline void markMath(const XN &n, bool in, std::map<int, bool> &out)
{
    bool here = in;
    if (n.k == XN::ELEM) {
        if (auto *a = n.attr("xmlns")) here = a->value == NSMATH;
        if (n.id >= 0) out[n.id] = here;
    }
    for (auto &k : n.kids) markMath(k, here, out);
}

inline void buildDevs(const Seed &seed, SeedInfo &si)
{
    const std::string &text = seed.docs[seed.target].text;
    si.text = text;
    for (auto &d : seed.docs) si.keys.push_back(d.key);
    bool targetIsMain = seed.target == seed.mainDoc;
    bool judge = targetIsMain && !seed.legacy && seed.valid; // the per-deviation expectation only speaks for deviations of a valid CellML 2.0 main document
    auto push = [&](Dev d) { si.devs.push_back(std::move(d)); };

    if (!seed.opaque) {
        si.dom = parseXml(text);
        assert(serialise(si.dom) == text);
        collectElements(si.dom, si.elems);
        // names present in the whole document set (references may point anywhere)
        for (auto &d : seed.docs) {
            XN dd = parseXml(d.text);
            std::vector<const XN *> es;
            collectElements(dd, es);
            for (auto *e : es) {
                std::string l = e->local();
                if (auto *a = e->attr("name")) {
                    if (l == "units") addUnique(si.unitsNames, a->value);
                    if (l == "component") addUnique(si.componentNames, a->value);
                    if (l == "variable") addUnique(si.variableNames, a->value);
                }
                if (auto *a = e->attr("id")) addUnique(si.ids, a->value);
                if (auto *a = e->attr("cmeta:id")) addUnique(si.ids, a->value);
            }
        }
        std::map<int, bool> mathById;
        markMath(si.dom, false, mathById);
        std::vector<bool> mathEl(si.elems.size());
        for (size_t i = 0; i < si.elems.size(); ++i) mathEl[i] = mathById[si.elems[i]->id];

        std::vector<std::string> parentLocal(si.elems.size());
        for (size_t ei = 0; ei < si.elems.size(); ++ei)
            for (auto &k : si.elems[ei]->kids) if (k.k == XN::ELEM) parentLocal[k.id] = si.elems[ei]->local();
        for (size_t ei = 0; ei < si.elems.size(); ++ei) {
            const XN *e = si.elems[ei];
            std::string el = e->local();
            bool isRoot = ei == 0;
            bool math = mathEl[ei];
            // ---------------- (a) attributes
            for (auto &a : e->at) {
                std::string an = a.name;
                std::vector<std::pair<std::string, std::string>> menu; // value, why-invalid
                auto addv = [&](const std::string &v, const std::string &why = "") { if (v != a.value) menu.push_back({v, why}); };
                bool isNsDecl = an == "xmlns" || an.rfind("xmlns:", 0) == 0;
                std::string al = an.find(':') == std::string::npos || isNsDecl ? an : an.substr(an.find(':') + 1);
                if (isNsDecl) {
                    for (auto *ns : NS_MENU) addv(ns);
                    addv("foo:bar"); addv(" ");
                } else if (!math && (al == "exponent" || al == "multiplier")) {
                    for (auto &v : numericMenu()) addv(v, refReal(v) ? "" : "numeric:" + al);
                } else if (!math && al == "order") {
                    for (auto &v : numericMenu()) addv(v, refInteger(v) ? "" : "numeric:order");
                } else if (!math && al == "prefix") {
                    for (auto &v : numericMenu()) addv(v, (refInteger(v) || v == "milli" || v.empty()) ? "" : "numeric:prefix");
                    for (auto *v : {"kilo", "yotta", "Milli", "deka", "deca"}) addv(v);
                } else if (al == "initial_value") {
                    for (auto &v : numericMenu()) addv(v);
                    for (auto &v : si.variableNames) addv(v);
                    addv("nonexistent"); addv("1x");
                } else if (al == "name") {
                    bool named = el == "model" || el == "component" || el == "variable" || el == "units";
                    for (auto &v : identifierMenu()) addv(v, (named && !refIdentifier(v)) ? "identifier:" + el : "");
                    // the name of each same-kind entity in the document set (duplicates; for imports: shadowing)
                    auto &pool = el == "units" ? si.unitsNames : el == "component" ? si.componentNames : el == "variable" ? si.variableNames : si.ids;
                    for (auto &v : pool) addv(v);
                    addv("second");
                } else if (al == "units" || al == "units_ref") {
                    for (auto &v : si.unitsNames) addv(v); // includes self and every cycle the chain in the seed allows
                    for (auto *v : {"", "nonexistent", "1x", "a b", "metre", "second", "dimensionless", "liter", "meter", "kilogram", "\xff"}) addv(v);
                    for (auto &v : si.componentNames) { addv(v); break; }
                } else if (al == "component" || al == "component_ref" || al == "component_1" || al == "component_2") {
                    for (auto &v : si.componentNames) addv(v);
                    for (auto *v : {"", "nonexistent", "1x", "a b"}) addv(v);
                    for (auto &v : si.unitsNames) { addv(v); break; }
                } else if (al == "variable" || al == "test_variable" || al == "variable_1" || al == "variable_2") {
                    for (auto &v : si.variableNames) addv(v);
                    for (auto *v : {"", "nonexistent", "1x", "a b"}) addv(v);
                } else if (al == "interface" || al == "public_interface" || al == "private_interface") {
                    for (auto *v : {"public", "private", "public_and_private", "none", "", "PUBLIC", "in", "out", "public private", "1"}) addv(v);
                } else if (al == "href") {
                    for (auto &k : si.keys) addv(k); // includes the document's own key: import cycles of length 1..n
                    for (auto *v : {"", "missing.xml", ".", "/", "http://example.com/x.xml", "a b.xml", "lib1.xml#frag", "lib1.xml?x=1&amp;y=2", "file:///nonexistent", "../lib1.xml", "lib1.xml/", "\xff", "&#1;"}) addv(v);
                    addv(std::string(10000, 'p') + ".xml");
                } else if (al == "relationship") {
                    for (auto *v : {"encapsulation", "containment", "", "foo", "Encapsulation"}) addv(v);
                } else if (al == "id") {
                    for (auto &v : si.ids) addv(v);
                    for (auto *v : {"", "1x", "a b", "\xc3\xa9", "x:y"}) addv(v);
                } else if (math && (al == "type")) {
                    for (auto *v : {"real", "e-notation", "integer", "rational", "complex-cartesian", "complex-polar", "constant", "", "E-NOTATION"}) addv(v);
                } else if (math && al == "base") {
                    for (auto *v : {"10", "2", "16", "", "x", "10.0"}) addv(v);
                } else {
                    for (auto *v : {"", "x", "1", "&lt;"}) addv(v);
                }
                size_t k = 0;
                for (auto &mv : menu) {
                    Dev d{A_SET, 'a'};
                    d.node = e->id; d.attr = an; d.val = mv.first;
                    if (judge && !math) d.why = mv.second;
                    d.reduced = (k % 8) == 0;
                    ++k;
                    push(d);
                }
                { Dev d{A_DEL, 'a'}; d.node = e->id; d.attr = an; d.reduced = true; push(d); }
                { Dev d{A_DUP, 'a'}; d.node = e->id; d.attr = an; push(d); }
                if (!isNsDecl) {
                    for (auto *nn : {"foo", "cellml:" , "xml:id", "name", "units"}) {
                        std::string newName = std::string(nn) == "cellml:" ? "cellml:" + al : nn;
                        if (newName == an || e->attr(newName)) continue;
                        Dev d{A_RENAME, 'a'}; d.node = e->id; d.attr = an; d.val = newName; push(d);
                    }
                }
            }
            // add each known attribute name that the element does not carry
            if (!math) {
                for (auto *nn : {"name", "id", "units", "foo", "xmlns:x"}) {
                    if (e->attr(nn)) continue;
                    Dev d{A_ADD, 'a'}; d.node = e->id; d.attr = nn; d.val = std::string(nn) == "xmlns:x" ? "http://example.com/foreign" : "x1"; push(d);
                }
            }
            // a second prefix bound to a namespace the pipeline manipulates (declarations are added, removed and rewritten by the
            // 1.x transformation and by the math clean-up): every element, math included; lands next to the element's own declarations
            for (auto *ns : {NS20, NS10, NS11, NSMATH}) {
                Dev d{A_ADD, 'a'}; d.node = e->id; d.attr = "xmlns:dvp"; d.val = ns; d.reduced = std::string(ns) == NS20 && (el == "math" || el == "cn" || isRoot); push(d);
            }
            // ---------------- (a) text content of token elements
            if (math && (el == "ci" || el == "cn")) {
                int ord = 0;
                for (auto &k : e->kids) {
                    if (k.k == XN::TEXT && !k.blank()) {
                        std::vector<std::string> menu;
                        if (el == "cn") menu = numericMenu();
                        else { menu = {"", "nonexistent", "1x", "a b", " x ", "\xff"}; for (auto &v : si.variableNames) menu.push_back(v); }
                        // long runs of blanks around the token (trimmed by several stages, each in its own way)
                        for (size_t blanks : {size_t(1000), size_t(30000), size_t(60000)}) {
                            menu.push_back(k.text + std::string(blanks, ' '));
                            menu.push_back(std::string(blanks, '\n') + k.text);
                        }
                        for (auto &v : menu) {
                            if (v == k.text) continue;
                            Dev d{X_SET, 'a'}; d.node = e->id; d.pos = ord; d.val = xmlEsc(v); push(d);
                        }
                    }
                    if (k.k == XN::TEXT) ++ord;
                }
            }
            // ---------------- (b) elements
            if (!isRoot) {
                { Dev d{E_DEL, 'b'}; d.node = e->id; d.reduced = true; push(d); }
                { Dev d{E_DUP, 'b'}; d.node = e->id; d.reduced = true; push(d); }
                for (size_t pj = 0; pj < si.elems.size(); ++pj) {
                    const XN *p = si.elems[pj];
                    if (p == e) continue;
                    std::vector<const XN *> sub;
                    collectElements(*e, sub);
                    if (std::find(sub.begin(), sub.end(), p) != sub.end()) continue; // not into its own subtree
                    Dev d{E_MOVE, 'b'}; d.node = e->id; d.pos = p->id;
                    // reduced: one representative target per distinct parent element name
                    bool firstOfName = true;
                    for (size_t q = 0; q < pj; ++q) if (si.elems[q]->local() == p->local() && si.elems[q] != e) { firstOfName = false; break; }
                    d.reduced = firstOfName;
                    push(d);
                }
            }
            {
                std::vector<std::string> names;
                if (math) { names = vocabulary(); names.push_back("math"); names.push_back("component"); names.push_back("variable"); }
                else for (auto *n : CELLML_NAMES) names.push_back(n);
                size_t k = 0;
                for (auto &n : names) {
                    if (n == el) continue;
                    Dev d{E_RENAME, 'b'}; d.node = e->id; d.val = n;
                    if (judge && !math && n == "foo") d.why = "unknown-element";
                    d.reduced = (k++ % 8) == 0;
                    push(d);
                }
            }
            for (auto *ns : NS_MENU) {
                if (*ns) { Dev d{E_NS_ELEM, 'b'}; d.node = e->id; d.val = ns; d.reduced = std::string(ns) == NS10; push(d); }
                { Dev d{E_NS_TREE, 'b'}; d.node = e->id; d.val = ns; d.reduced = !*ns; push(d); }
            }
            // ---------------- (c) insertions at each child position
            {
                int nkids = 0;
                for (auto &k : e->kids) if (k.k == XN::ELEM) ++nkids;
                static const char *INS[] = {"junk", "  x  ", "<!--c-->", "<![CDATA[<x>&]]>", "&amp;", "&#65;", "&nope;", "&e;", "&m;", "<?pi x?>", "<foo/>",
                                            "<foo xmlns=\"http://example.com/foreign\"><bar/></foo>", "]]>", "<!-- -- -->", "&#0;", "#blanks1000", "#blanks30000"};
                bool holdsText = false;
                for (auto &k : e->kids) if (k.k == XN::TEXT && !k.blank()) holdsText = true;
                for (int pos = holdsText ? -1 : 0; pos <= nkids; ++pos) { // -1: in front of everything, i.e. before the text of a token element
                    for (size_t v = 0; v < sizeof INS / sizeof *INS; ++v) {
                        Dev d{C_INS, 'c'}; d.node = e->id; d.pos = pos; d.val = INS[v];
                        if (judge && !math && v == 0) d.why = "text-in-cellml-element:" + parentLocal[ei] + "/" + el;
                        d.reduced = (v == 0 || v == 7) && pos == 0;
                        push(d);
                    }
                }
            }
        }
    }
    // ---------------- (d) truncation at every token boundary (both sides of < > " / = and blanks, and mid-name)
    {
        std::set<size_t> cuts;
        for (size_t i = 0; i < text.size(); ++i) {
            char ch = text[i];
            if (strchr("<>\"/= \n?'&;", ch)) { cuts.insert(i); cuts.insert(i + 1); }
            if (isalnum((unsigned char)ch) && (i == 0 || !isalnum((unsigned char)text[i - 1]))) {
                size_t j = i;
                while (j < text.size() && isalnum((unsigned char)text[j])) ++j;
                if (j - i >= 2) cuts.insert(i + (j - i) / 2);
            }
        }
        cuts.erase(text.size());
        size_t k = 0;
        for (size_t cpos : cuts) {
            Dev d{T_TRUNC, 'd'}; d.pos = int(cpos); d.reduced = (k++ % 24) == 0; push(d);
        }
    }
    // ---------------- document-level byte edits
    for (int v = 0; v < 22; ++v) { Dev d{D_TEXT, 'x'}; d.pos = v; d.reduced = v == 3 || v == 9; push(d); }
    for (size_t i = 0; i < si.devs.size(); ++i) if (si.devs[i].reduced) si.reducedIdx.push_back(i);
}

inline std::string prefixOf(const std::string &qname) { size_t c = qname.find(':'); return c == std::string::npos ? "" : qname.substr(0, c + 1); }

// DOM-level application; returns false when the deviation has become inapplicable (its node vanished)
inline bool applyDom(XN &doc, const Dev &d)
{
    XN *n = d.node >= 0 ? findNode(doc, d.node) : nullptr;
    if (!n) return false;
    switch (d.kind) {
    case A_SET: if (auto *a = n->attr(d.attr)) { a->value = d.val; return true; } return false;
    case A_DEL:
        for (size_t i = 0; i < n->at.size(); ++i) if (n->at[i].name == d.attr) { n->at.erase(n->at.begin() + i); return true; }
        return false;
    case A_DUP: if (auto *a = n->attr(d.attr)) { XA c = *a; n->at.push_back(c); return true; } return false;
    case A_RENAME: if (auto *a = n->attr(d.attr)) { a->name = d.val; return true; } return false;
    case A_ADD: n->at.push_back({d.attr, d.val}); return true;
    case X_SET: {
        int ord = 0;
        for (auto &k : n->kids) if (k.k == XN::TEXT) { if (ord++ == d.pos) { k.text = d.val; return true; } }
        return false;
    }
    case E_DEL: { size_t i; XN *p = findParent(doc, d.node, &i); if (!p) return false; p->kids.erase(p->kids.begin() + i); return true; }
    case E_DUP: { size_t i; XN *p = findParent(doc, d.node, &i); if (!p) return false; XN c = p->kids[i]; stripIds(c); p->kids.insert(p->kids.begin() + i + 1, c); return true; }
    case E_MOVE: {
        XN *t = findNode(doc, d.pos);
        if (!t || findNode(*n, d.pos)) return false;
        size_t i; XN *p = findParent(doc, d.node, &i);
        if (!p) return false;
        XN c = p->kids[i];
        p->kids.erase(p->kids.begin() + i);
        t = findNode(doc, d.pos); // the erase may have moved it
        if (!t) return false;
        t->kids.push_back(c);
        return true;
    }
    case E_RENAME: n->name = prefixOf(n->name) + d.val; return true;
    case E_NS_ELEM: { // this element only: a prefixed name bound on the element itself
        n->name = "dv:" + n->local();
        if (auto *a = n->attr("xmlns:dv")) a->value = d.val; else n->at.push_back({"xmlns:dv", d.val});
        return true;
    }
    case E_NS_TREE: { // the element and its unprefixed descendants: redeclare the default namespace
        n->name = n->local();
        if (auto *a = n->attr("xmlns")) a->value = d.val; else n->at.push_back({"xmlns", d.val});
        return true;
    }
    case C_INS: {
        XN c;
        c.k = XN::RAW;
        c.text = d.val == "#blanks1000" ? std::string(1000, ' ') : d.val == "#blanks30000" ? std::string(30000, ' ') : d.val;
        int seen = 0;
        size_t at = n->kids.size();
        if (d.pos < 0) at = 0;
        else for (size_t i = 0; i < n->kids.size(); ++i) if (n->kids[i].k == XN::ELEM) { if (seen++ == d.pos) { at = i; break; } }
        n->kids.insert(n->kids.begin() + at, c);
        if (d.val == "&e;" || d.val == "&m;") { // needs a declaration: internal subset in front of the root element
            XN dt;
            dt.k = XN::RAW;
            XN *root = rootElement(doc);
            dt.text = "<!DOCTYPE " + (root ? root->name : std::string("model")) + " [<!ENTITY e \"ent\"><!ENTITY m \"<variable name='zz' units='second'/><foo/>\">]>";
            size_t i = 0;
            while (i < doc.kids.size() && doc.kids[i].k != XN::ELEM) ++i;
            doc.kids.insert(doc.kids.begin() + i, dt);
        }
        return true;
    }
    default: return false;
    }
}

inline std::string applyText(std::string t, const Dev &d)
{
    if (d.kind == T_TRUNC) return size_t(d.pos) < t.size() ? t.substr(0, d.pos) : t;
    if (d.kind != D_TEXT) return t;
    auto noProlog = [&]() { size_t e = t.rfind("?>", 60); return (t.rfind("<?xml", 0) == 0 && e != std::string::npos) ? t.substr(e + 2) : t; };
    size_t rootAt = t.find('<', t.rfind("<?xml", 0) == 0 ? t.find("?>") : 0);
    if (rootAt == std::string::npos) rootAt = 0;
    std::string rootName = "model";
    switch (d.pos) {
    case 0: return noProlog();
    case 1: return "<?xml version=\"1.0\" encoding=\"ISO-8859-1\"?>" + noProlog() + "<!-- \xe9 -->";
    case 2: return "<?xml version=\"1.0\" encoding=\"UTF-16\"?>" + noProlog();
    case 3: return "\xef\xbb\xbf" + t;
    case 4: { std::string u("\xff\xfe", 2); for (char ch : t) { u += ch; u += '\0'; } return u; } // real UTF-16LE: the library sees a C string
    case 5: return "<?xml version=\"1.1\"?>" + noProlog();
    case 6: return "<?xml version=\"1.0\" encoding=\"nonexistent-charset\"?>" + noProlog();
    case 7: return t.substr(0, rootAt) + "<!DOCTYPE model SYSTEM \"/nonexistent.dtd\">" + t.substr(rootAt);
    case 8: return t.substr(0, rootAt) + "<!DOCTYPE model PUBLIC \"-//X//Y\" \"http://example.com/x.dtd\" [<!ENTITY % p SYSTEM \"file:///etc/hostname\"> %p;]>" + t.substr(rootAt);
    case 9: { // nested entities expanded inside an attribute value (amplification 10^3)
        std::string dt = "<!DOCTYPE model [<!ENTITY l0 \"nnnnnnnnnn\"><!ENTITY l1 \"&l0;&l0;&l0;&l0;&l0;&l0;&l0;&l0;&l0;&l0;\"><!ENTITY l2 \"&l1;&l1;&l1;&l1;&l1;&l1;&l1;&l1;&l1;&l1;\">]>";
        std::string r = t.substr(0, rootAt) + dt + t.substr(rootAt);
        size_t a = r.find("name=\"", rootAt + dt.size());
        if (a != std::string::npos) r.insert(a + 6, "&l2;");
        return r;
    }
    case 10: return t + "trailing garbage";
    case 11: return t + "<model xmlns=\"" NS20 "\" name=\"second_root\"/>";
    case 12: return "leading garbage" + t;
    case 13: { std::string r = t; r.insert(r.size() / 2, 1, '\0'); return r; }
    case 14: { std::string r = t; r.insert(r.size() / 2, "\x01\x02"); return r; }
    case 15: return t + t;
    case 16: { std::string r = t; for (auto &ch : r) if (ch == '"') ch = '\''; return r; }
    case 17: { std::string r; for (char ch : t) { if (ch == '\n') r += "\r\n"; else r += ch; } return r; }
    case 18: { std::string r; for (char ch : t) if (ch != '\n' && ch != ' ') r += ch; else if (ch == ' ') r += ch; return r; }
    case 19: { std::string r = t; for (auto &ch : r) if (ch == '<') { ch = '>'; break; } return r; }
    case 20: return t.substr(0, rootAt) + "<!DOCTYPE model [<!ELEMENT model ANY><!ATTLIST model name CDATA \"dflt\" extra CDATA \"injected\">]>" + t.substr(rootAt);
    case 21: return std::string(65000, ' ') + t;
    }
    return t;
}

inline std::string describe(const Dev &d)
{
    static const char *K[] = {"attr-set", "attr-delete", "attr-duplicate", "attr-rename", "attr-add", "text-set", "elem-delete", "elem-duplicate", "elem-move", "elem-rename",
                              "elem-namespace", "subtree-namespace", "insert-child", "truncate", "document-bytes"};
    return std::string(1, d.fam) + ":" + K[d.kind] + " node=" + std::to_string(d.node) + (d.attr.empty() ? "" : " attr=" + d.attr) + " pos=" + std::to_string(d.pos) +
           (d.val.size() > 60 ? " val=<" + std::to_string(d.val.size()) + " bytes>" : " val=" + d.val);
}

// applies one or two deviations to the seed's target text
inline std::string deviate(const SeedInfo &si, const std::vector<const Dev *> &ds, int *inapplicable = nullptr)
{
    bool anyDom = false;
    for (auto *d : ds) if (d->kind != T_TRUNC && d->kind != D_TEXT) anyDom = true;
    std::string t = si.text;
    if (anyDom) {
        XN doc = si.dom;
        for (auto *d : ds) if (d->kind != T_TRUNC && d->kind != D_TEXT) if (!applyDom(doc, *d) && inapplicable) ++*inapplicable;
        t = serialise(doc);
    }
    for (auto *d : ds) if (d->kind == D_TEXT) t = applyText(t, *d);
    for (auto *d : ds) if (d->kind == T_TRUNC) t = applyText(t, *d);
    return t;
}

inline const SeedInfo &seedInfo(size_t s)
{
    static std::map<size_t, SeedInfo> cache;
    auto it = cache.find(s);
    if (it == cache.end()) {
        it = cache.emplace(s, SeedInfo()).first;
        buildDevs(seeds()[s], it->second);
    }
    return it->second;
}

} // namespace c01
