// C01 helper: the seed documents. Each seed is a small set of documents {key -> text}; one of them (main) goes through
// the pipeline, the others are the in-memory import library; `target` is the document that receives the deviations.
#pragma once
#include "utilities.h" // supportedMathMLElements (the validator's own vocabulary)
#include <string>
#include <vector>

namespace c01 {

#define NS20 "http://www.cellml.org/cellml/2.0#"
#define NS10 "http://www.cellml.org/cellml/1.0#"
#define NS11 "http://www.cellml.org/cellml/1.1#"
#define NSMATH "http://www.w3.org/1998/Math/MathML"
#define NSXLINK "http://www.w3.org/1999/xlink"
#define NSCMETA "http://www.cellml.org/metadata/1.0#"
#define PROLOG "<?xml version=\"1.0\" encoding=\"UTF-8\"?>\n"
#define MATHOPEN "<math xmlns=\"" NSMATH "\" xmlns:cellml=\"" NS20 "\">"

struct Doc
{
    std::string key, text;
};
struct Seed
{
    std::string name;
    std::vector<Doc> docs;
    int mainDoc = 0; // goes through the pipeline
    int target = 0;  // receives the deviations
    bool math = false;
    bool valid = true;  // parse (in `permissive` if legacy) + validate give no error and no warning
    bool opaque = false; // not parseable by the mini DOM: only text-level deviations apply
    bool legacy = false; // CellML 1.0 / 1.1: the strict parser refuses it by design
    bool analysable = false; // the analyser must give a usable model type and both generators non-empty code
};

static const char *S_UNITS = PROLOG
    "<model xmlns=\"" NS20 "\" name=\"units_model\" id=\"m1\">\n"
    "  <units name=\"u1\" id=\"u1id\">\n"
    "    <unit units=\"metre\" prefix=\"milli\" exponent=\"2\" multiplier=\"1.5\" id=\"un1\"/>\n"
    "    <unit units=\"second\" prefix=\"-3\" exponent=\"-1.0\"/>\n"
    "  </units>\n"
    "  <units name=\"u2\">\n"
    "    <unit units=\"u1\" exponent=\"0.5\" multiplier=\"2e3\"/>\n"
    "  </units>\n"
    "  <units name=\"u3\">\n"
    "    <unit units=\"u2\" prefix=\"kilo\"/>\n"
    "    <unit units=\"kilogram\"/>\n"
    "  </units>\n"
    "  <units name=\"base\"/>\n"
    "  <component name=\"c\">\n"
    "    <variable name=\"a\" units=\"u3\" initial_value=\"1\"/>\n"
    "    <variable name=\"b\" units=\"base\"/>\n"
    "  </component>\n"
    "</model>\n";

static const char *S_VARS = PROLOG
    "<model xmlns=\"" NS20 "\" name=\"vars\">\n"
    "  <component name=\"p\" id=\"pid\">\n"
    "    <variable name=\"x\" units=\"dimensionless\" interface=\"public_and_private\" initial_value=\"1.0e-3\" id=\"xid\"/>\n"
    "    <variable name=\"y\" units=\"dimensionless\" interface=\"none\" initial_value=\"x\"/>\n"
    "    <variable name=\"z\" units=\"volt\" interface=\"private\"/>\n"
    "    <variable name=\"w\" units=\"ampere\" interface=\"public\"/>\n"
    "  </component>\n"
    "  <component name=\"q\"/>\n"
    "</model>\n";

static const char *S_ENCAPS = PROLOG
    "<model xmlns=\"" NS20 "\" name=\"enc\">\n"
    "  <component name=\"root\"/>\n"
    "  <component name=\"a\"/>\n"
    "  <component name=\"b\"/>\n"
    "  <component name=\"a1\"/>\n"
    "  <component name=\"a2\"/>\n"
    "  <component name=\"deep\"/>\n"
    "  <encapsulation id=\"encid\">\n"
    "    <component_ref component=\"root\" id=\"crid\">\n"
    "      <component_ref component=\"a\">\n"
    "        <component_ref component=\"a1\"><component_ref component=\"deep\"/></component_ref>\n"
    "        <component_ref component=\"a2\"/>\n"
    "      </component_ref>\n"
    "      <component_ref component=\"b\"/>\n"
    "    </component_ref>\n"
    "  </encapsulation>\n"
    "</model>\n";

static const char *S_CONN = PROLOG
    "<model xmlns=\"" NS20 "\" name=\"conn\">\n"
    "  <units name=\"mV\"><unit units=\"volt\" prefix=\"milli\"/></units>\n"
    "  <units name=\"mV2\"><unit units=\"mV\"/></units>\n"
    "  <component name=\"parent\">\n"
    "    <variable name=\"v\" units=\"mV\" interface=\"public_and_private\"/>\n"
    "    <variable name=\"t\" units=\"second\" interface=\"public\"/>\n"
    "  </component>\n"
    "  <component name=\"child\"><variable name=\"v\" units=\"mV2\" interface=\"public\"/></component>\n"
    "  <component name=\"sib\">\n"
    "    <variable name=\"v\" units=\"mV\" interface=\"public\"/>\n"
    "    <variable name=\"t\" units=\"second\" interface=\"public\"/>\n"
    "  </component>\n"
    "  <encapsulation><component_ref component=\"parent\"><component_ref component=\"child\"/></component_ref></encapsulation>\n"
    "  <connection component_1=\"parent\" component_2=\"child\" id=\"con1\"><map_variables variable_1=\"v\" variable_2=\"v\" id=\"map1\"/></connection>\n"
    "  <connection component_1=\"parent\" component_2=\"sib\">\n"
    "    <map_variables variable_1=\"v\" variable_2=\"v\"/>\n"
    "    <map_variables variable_1=\"t\" variable_2=\"t\"/>\n"
    "  </connection>\n"
    "</model>\n";

// resets without math: not a valid model (the validator wants MathML children), but every reset attribute and child is
// present, so the structural families reach the reset loader in the quick tier
static const char *S_RESET_NOMATH = PROLOG
    "<model xmlns=\"" NS20 "\" name=\"rnm\">\n"
    "  <component name=\"c\">\n"
    "    <variable name=\"x\" units=\"second\" initial_value=\"0\"/>\n"
    "    <variable name=\"t\" units=\"second\"/>\n"
    "    <reset variable=\"x\" test_variable=\"t\" order=\"1\" id=\"r1\">\n"
    "      <test_value id=\"tv1\"/>\n"
    "      <reset_value id=\"rv1\"/>\n"
    "    </reset>\n"
    "    <reset variable=\"x\" test_variable=\"t\" order=\"-2\"><test_value/><reset_value/></reset>\n"
    "  </component>\n"
    "</model>\n";

static const char *S_RESET = PROLOG
    "<model xmlns=\"" NS20 "\" name=\"rm\">\n"
    "  <component name=\"c\">\n"
    "    <variable name=\"x\" units=\"second\" initial_value=\"0\"/>\n"
    "    <variable name=\"t\" units=\"second\"/>\n"
    "    <reset variable=\"x\" test_variable=\"t\" order=\"1\" id=\"r1\">\n"
    "      <test_value id=\"tv1\">" MATHOPEN "<cn cellml:units=\"second\">3</cn></math></test_value>\n"
    "      <reset_value id=\"rv1\">" MATHOPEN "<apply><plus/><ci>x</ci><cn cellml:units=\"second\" type=\"e-notation\">1<sep/>-1</cn></apply></math></reset_value>\n"
    "    </reset>\n"
    "    " MATHOPEN "<apply><eq/><apply><diff/><bvar><ci>t</ci></bvar><ci>x</ci></apply><cn cellml:units=\"dimensionless\">1</cn></apply></math>\n"
    "  </component>\n"
    "</model>\n";

static const char *S_IMP_MAIN = PROLOG
    "<model xmlns=\"" NS20 "\" xmlns:xlink=\"" NSXLINK "\" name=\"imp\">\n"
    "  <import xlink:href=\"lib1.xml\">\n"
    "    <units name=\"iu\" units_ref=\"lu\" id=\"iuid\"/>\n"
    "    <component name=\"ic\" component_ref=\"lc\" id=\"icid\"/>\n"
    "  </import>\n"
    "  <import xlink:href=\"lib2.xml\" id=\"imp1\">\n"
    "    <component name=\"ic2\" component_ref=\"leaf\"/>\n"
    "  </import>\n"
    "  <component name=\"local\"><variable name=\"v\" units=\"iu\" interface=\"public_and_private\"/></component>\n"
    "  <connection component_1=\"local\" component_2=\"ic\"><map_variables variable_1=\"v\" variable_2=\"v\"/></connection>\n"
    "  <connection component_1=\"local\" component_2=\"ic2\"><map_variables variable_1=\"v\" variable_2=\"w\"/></connection>\n"
    "  <encapsulation><component_ref component=\"local\"><component_ref component=\"ic2\"/></component_ref></encapsulation>\n"
    "</model>\n";
static const char *S_IMP_LIB1 = PROLOG
    "<model xmlns=\"" NS20 "\" xmlns:xlink=\"" NSXLINK "\" name=\"lib1\">\n"
    "  <import xlink:href=\"lib2.xml\">\n"
    "    <units name=\"lu2\" units_ref=\"base2\"/>\n"
    "    <units name=\"lu3\" units_ref=\"other2\"/>\n"
    "    <component name=\"inner\" component_ref=\"leaf\"/>\n"
    "  </import>\n"
    "  <units name=\"lu\"><unit units=\"lu2\"/></units>\n"
    "  <component name=\"lc\"><variable name=\"q\" units=\"lu3\"/><variable name=\"v\" units=\"lu\" interface=\"public_and_private\"/></component>\n"
    "  <encapsulation><component_ref component=\"lc\"><component_ref component=\"inner\"/></component_ref></encapsulation>\n"
    "  <connection component_1=\"lc\" component_2=\"inner\"><map_variables variable_1=\"v\" variable_2=\"w\"/></connection>\n"
    "</model>\n";
static const char *S_IMP_LIB2 = PROLOG
    "<model xmlns=\"" NS20 "\" name=\"lib2\">\n"
    "  <units name=\"base2\"><unit units=\"metre\"/></units>\n"
    "  <units name=\"other2\"><unit units=\"second\"/></units>\n"
    "  <component name=\"leaf\"><variable name=\"w\" units=\"base2\" interface=\"public\"/></component>\n"
    "</model>\n";

static const char *S_OLD10 = "<?xml version=\"1.0\"?>\n"
    "<model xmlns=\"" NS10 "\" xmlns:cmeta=\"" NSCMETA "\" cmeta:id=\"m10\" name=\"old10\">\n"
    "  <units name=\"mM\"><unit units=\"mole\" prefix=\"milli\"/><unit units=\"liter\" exponent=\"-1\"/></units>\n"
    "  <component name=\"membrane\" cmeta:id=\"memb\">\n"
    "    <units name=\"local_u\"><unit units=\"meter\" multiplier=\"2\"/></units>\n"
    "    <variable name=\"V\" units=\"mM\" public_interface=\"out\" private_interface=\"out\" initial_value=\"0\" cmeta:id=\"Vid\"/>\n"
    "    <variable name=\"len\" units=\"local_u\" public_interface=\"in\" private_interface=\"none\"/>\n"
    "  </component>\n"
    "  <component name=\"channel\"><variable name=\"V\" units=\"mM\" public_interface=\"in\"/></component>\n"
    "  <component name=\"env\"><variable name=\"len\" units=\"local_u\" public_interface=\"out\"/></component>\n"
    "  <group>\n"
    "    <relationship_ref relationship=\"encapsulation\"/>\n"
    "    <component_ref component=\"membrane\"><component_ref component=\"channel\"/></component_ref>\n"
    "  </group>\n"
    "  <group>\n"
    "    <relationship_ref relationship=\"containment\" name=\"phys\"/>\n"
    "    <component_ref component=\"membrane\"><component_ref component=\"channel\"/></component_ref>\n"
    "  </group>\n"
    "  <connection>\n"
    "    <map_components component_1=\"membrane\" component_2=\"channel\"/>\n"
    "    <map_variables variable_1=\"V\" variable_2=\"V\"/>\n"
    "  </connection>\n"
    "  <connection>\n"
    "    <map_components component_1=\"env\" component_2=\"membrane\"/>\n"
    "    <map_variables variable_1=\"len\" variable_2=\"len\"/>\n"
    "  </connection>\n"
    "</model>\n";

static const char *S_OLD11 = "<?xml version=\"1.0\"?>\n"
    "<model xmlns=\"" NS11 "\" xmlns:cmeta=\"" NSCMETA "\" xmlns:xlink=\"" NSXLINK "\" cmeta:id=\"m11\" name=\"old11\">\n"
    "  <import xlink:href=\"lib11.xml\">\n"
    "    <units name=\"iu\" units_ref=\"lu\"/>\n"
    "    <component name=\"ic\" component_ref=\"lc\"/>\n"
    "  </import>\n"
    "  <component name=\"top\" cmeta:id=\"topid\">\n"
    "    <variable name=\"v\" units=\"iu\" public_interface=\"in\" private_interface=\"out\"/>\n"
    "  </component>\n"
    "  <component name=\"kid\"><variable name=\"v\" units=\"iu\" public_interface=\"in\"/></component>\n"
    "  <group><relationship_ref relationship=\"encapsulation\"/><component_ref component=\"top\"><component_ref component=\"kid\"/></component_ref></group>\n"
    "  <connection><map_components component_1=\"top\" component_2=\"kid\"/><map_variables variable_1=\"v\" variable_2=\"v\"/></connection>\n"
    "  <connection><map_components component_1=\"top\" component_2=\"ic\"/><map_variables variable_1=\"v\" variable_2=\"v\"/></connection>\n"
    "</model>\n";
static const char *S_OLD11_LIB = "<?xml version=\"1.0\"?>\n"
    "<model xmlns=\"" NS11 "\" name=\"lib11\">\n"
    "  <units name=\"lu\"><unit units=\"meter\"/></units>\n"
    "  <component name=\"lc\"><variable name=\"v\" units=\"lu\" public_interface=\"out\"/></component>\n"
    "</model>\n";

// CellML 1.0 with math (cellml:units in the 1.0 namespace)
static const char *S_OLD10_MATH = "<?xml version=\"1.0\"?>\n"
    "<model xmlns=\"" NS10 "\" xmlns:cellml=\"" NS10 "\" name=\"old10m\">\n"
    "  <component name=\"c\">\n"
    "    <variable name=\"x\" units=\"dimensionless\" initial_value=\"1\"/>\n"
    "    <variable name=\"t\" units=\"dimensionless\"/>\n"
    "    <math xmlns=\"" NSMATH "\"><apply><eq/><apply><diff/><bvar><ci>t</ci></bvar><ci>x</ci></apply><apply><times/><ci>x</ci><cn cellml:units=\"dimensionless\">2</cn></apply></apply></math>\n"
    "  </component>\n"
    "</model>\n";

static const char *S_NOTCELLML = PROLOG
    "<svg xmlns=\"http://www.w3.org/2000/svg\" width=\"10\" height=\"10\">\n"
    "  <g id=\"layer\"><rect x=\"1\" y=\"1\" width=\"5\" height=\"5\"/><text>model</text></g>\n"
    "  <model xmlns=\"" NS20 "\" name=\"inner\"><component name=\"c\"/></model>\n"
    "</svg>\n";

// small ODE model with a piecewise and a computed constant: analysable, few elements
static const char *S_ODE = PROLOG
    "<model xmlns=\"" NS20 "\" name=\"ode\">\n"
    "  <component name=\"c\">\n"
    "    <variable name=\"t\" units=\"second\"/>\n"
    "    <variable name=\"x\" units=\"dimensionless\" initial_value=\"1\"/>\n"
    "    <variable name=\"k\" units=\"dimensionless\"/>\n"
    "    " MATHOPEN "\n"
    "      <apply><eq/><apply><diff/><bvar><ci>t</ci></bvar><ci>x</ci></apply>\n"
    "        <piecewise><piece><apply><minus/><ci>x</ci></apply><apply><gt/><ci>x</ci><cn cellml:units=\"dimensionless\">0.5</cn></apply></piece>\n"
    "          <otherwise><ci>k</ci></otherwise></piecewise></apply>\n"
    "      <apply><eq/><ci>k</ci><cn cellml:units=\"dimensionless\" type=\"e-notation\">2<sep/>-1</cn></apply>\n"
    "    </math>\n"
    "  </component>\n"
    "</model>\n";

static const char GARBAGE[] = "\x7f" "ELF\x02\x01\x01<<>>&&;\xff\xfe\x00\x01model name=\"]]>";

// powers and roots of a non-dimensionless quantity whose exponent / degree is a variable: the analyser evaluates the
// exponent (initial values, cn text) to work out the units
static const char *S_POWER = PROLOG
    "<model xmlns=\"" NS20 "\" name=\"pw\">\n"
    "  <units name=\"m2\"><unit units=\"metre\" exponent=\"2\"/></units>\n"
    "  <component name=\"c\">\n"
    "    <variable name=\"x\" units=\"metre\" initial_value=\"3\"/>\n"
    "    <variable name=\"n\" units=\"dimensionless\" initial_value=\"2\"/>\n"
    "    <variable name=\"k\" units=\"dimensionless\" initial_value=\"2\"/>\n"
    "    <variable name=\"y\" units=\"m2\"/>\n"
    "    <variable name=\"z\" units=\"metre\"/>\n"
    "    <variable name=\"w\" units=\"m2\"/>\n"
    "    " MATHOPEN "\n"
    "      <apply><eq/><ci>y</ci><apply><power/><ci>x</ci><ci>n</ci></apply></apply>\n"
    "      <apply><eq/><ci>z</ci><apply><root/><degree><ci>k</ci></degree><ci>y</ci></apply></apply>\n"
    "      <apply><eq/><ci>w</ci><apply><power/><ci>x</ci><cn cellml:units=\"dimensionless\">2</cn></apply></apply>\n"
    "    </math>\n"
    "  </component>\n"
    "</model>\n";

// ---------------------------------------------------------------- MathML vocabulary
inline const std::vector<std::string> &vocabulary()
{
    static std::vector<std::string> v = [] {
        std::vector<std::string> r(libcellml::supportedMathMLElements.begin(), libcellml::supportedMathMLElements.end());
        for (const char *x : {"csymbol", "lambda", "semantics", "unknownop", "sum"}) r.push_back(x);
        return r;
    }();
    return v;
}
inline std::string leaf(const std::string &name)
{
    if (name == "ci") return "<ci>x</ci>";
    if (name == "cn") return "<cn cellml:units=\"dimensionless\">1</cn>";
    return "<" + name + "/>";
}
inline std::string mathDoc(const std::string &body, const char *vars = "xyt")
{
    std::string d = PROLOG "<model xmlns=\"" NS20 "\" name=\"ms\">\n  <component name=\"c\">\n";
    for (const char *v = vars; *v; ++v) d += std::string("    <variable name=\"") + *v + "\" units=\"dimensionless\"/>\n";
    d += "    " MATHOPEN + body + "</math>\n  </component>\n</model>\n";
    return d;
}

// every supported MathML element in a valid position; each equation defines its own variable
inline std::string allMathSeed()
{
    std::vector<std::string> rhs;
    const std::string x = "<ci>x</ci>", two = "<cn cellml:units=\"dimensionless\">2</cn>", en = "<cn cellml:units=\"dimensionless\" type=\"e-notation\">1.5<sep/>-2</cn>";
    auto ap = [](const std::string &op, const std::string &args) { return "<apply><" + op + "/>" + args + "</apply>"; };
    for (const char *op : {"plus", "minus", "times", "divide", "power", "min", "max", "rem"}) rhs.push_back(ap(op, x + two));
    rhs.push_back(ap("plus", x + two + en));
    rhs.push_back(ap("minus", x));
    rhs.push_back(ap("plus", x));
    rhs.push_back(ap("min", x + two + en));
    for (const char *op : {"abs", "exp", "ln", "log", "floor", "ceiling", "root", "sin", "cos", "tan", "sec", "csc", "cot", "sinh", "cosh", "tanh", "sech", "csch", "coth",
                           "arcsin", "arccos", "arctan", "arcsec", "arccsc", "arccot", "arcsinh", "arccosh", "arctanh", "arcsech", "arccsch", "arccoth"})
        rhs.push_back(ap(op, x));
    rhs.push_back("<apply><root/><degree>" + two + "</degree>" + x + "</apply>");
    rhs.push_back("<apply><log/><logbase>" + two + "</logbase>" + x + "</apply>");
    for (const char *c : {"pi", "exponentiale", "notanumber", "infinity"}) rhs.push_back(std::string("<") + c + "/>");
    for (const char *op : {"eq", "neq", "gt", "lt", "geq", "leq"})
        rhs.push_back("<piecewise><piece>" + two + ap(op, x + two) + "</piece><otherwise>" + x + "</otherwise></piecewise>");
    for (const char *op : {"and", "or", "xor"})
        rhs.push_back("<piecewise><piece>" + two + ap(op, ap("gt", x + two) + ap("lt", x + en)) + "</piece><piece>" + en + "<true/></piece><otherwise>" + x + "</otherwise></piecewise>");
    rhs.push_back("<piecewise><piece>" + two + ap("not", "<false/>") + "</piece></piecewise>");
    std::string d = PROLOG "<model xmlns=\"" NS20 "\" name=\"allmath\">\n  <component name=\"c\">\n"
                    "    <variable name=\"t\" units=\"dimensionless\"/>\n    <variable name=\"x\" units=\"dimensionless\" initial_value=\"1\"/>\n"
                    "    <variable name=\"z\" units=\"dimensionless\" initial_value=\"0\"/>\n";
    for (size_t i = 0; i < rhs.size(); ++i) d += "    <variable name=\"v" + std::to_string(i) + "\" units=\"dimensionless\"/>\n";
    d += "    " MATHOPEN "\n";
    d += "      <apply><eq/><apply><diff/><bvar><ci>t</ci></bvar><ci>x</ci></apply><ci>x</ci></apply>\n";
    d += "      <apply><eq/><apply><diff/><bvar><ci>t</ci><degree><cn cellml:units=\"dimensionless\">1</cn></degree></bvar><ci>z</ci></apply><ci>x</ci></apply>\n";
    for (size_t i = 0; i < rhs.size(); ++i) d += "      <apply><eq/><ci>v" + std::to_string(i) + "</ci>" + rhs[i] + "</apply>\n";
    d += "    </math>\n  </component>\n</model>\n";
    return d;
}

inline const std::vector<Seed> &seeds()
{
    static std::vector<Seed> s = [] {
        std::vector<Seed> r;
        auto add = [&](const std::string &name, std::vector<Doc> docs, int target = 0) -> Seed & {
            Seed x;
            x.name = name;
            x.docs = std::move(docs);
            x.target = target;
            r.push_back(x);
            return r.back();
        };
        // --- math-free, CellML 2.0
        add("units", {{"main.xml", S_UNITS}});
        add("variables", {{"main.xml", S_VARS}});
        add("encapsulation", {{"main.xml", S_ENCAPS}});
        add("connections", {{"main.xml", S_CONN}});
        add("resets-nomath", {{"main.xml", S_RESET_NOMATH}}).valid = false;
        add("imports", {{"main.xml", S_IMP_MAIN}, {"lib1.xml", S_IMP_LIB1}, {"lib2.xml", S_IMP_LIB2}});
        add("imports/lib1", {{"main.xml", S_IMP_MAIN}, {"lib1.xml", S_IMP_LIB1}, {"lib2.xml", S_IMP_LIB2}}, 1);
        add("imports/lib2", {{"main.xml", S_IMP_MAIN}, {"lib1.xml", S_IMP_LIB1}, {"lib2.xml", S_IMP_LIB2}}, 2);
        // --- legacy
        add("cellml10", {{"main.xml", S_OLD10}}).legacy = true;
        add("cellml11", {{"main.xml", S_OLD11}, {"lib11.xml", S_OLD11_LIB}}).legacy = true;
        add("cellml11/lib", {{"main.xml", S_OLD11}, {"lib11.xml", S_OLD11_LIB}}, 1).legacy = true;
        // --- not CellML / not XML
        { auto &x = add("not-cellml", {{"main.xml", S_NOTCELLML}}); x.valid = false; }
        { auto &x = add("empty", {{"main.xml", ""}}); x.valid = false; x.opaque = true; }
        { auto &x = add("blank", {{"main.xml", " \n\t "}}); x.valid = false; x.opaque = true; }
        { auto &x = add("prolog-only", {{"main.xml", PROLOG}}); x.valid = false; x.opaque = true; }
        { auto &x = add("garbage", {{"main.xml", std::string(GARBAGE, sizeof GARBAGE - 1)}}); x.valid = false; x.opaque = true; }
        { auto &x = add("json", {{"main.xml", "{\"model\": {\"name\": \"m\", \"components\": []}}"}}); x.valid = false; x.opaque = true; }
        // --- math
        { auto &x = add("resets", {{"main.xml", S_RESET}}); x.math = true; x.analysable = true; }
        { auto &x = add("ode", {{"main.xml", S_ODE}}); x.math = true; x.analysable = true; }
        { auto &x = add("allmath", {{"main.xml", allMathSeed()}}); x.math = true; x.analysable = true; }
        { auto &x = add("power-units", {{"main.xml", S_POWER}}); x.math = true; x.analysable = true; }
        { auto &x = add("cellml10-math", {{"main.xml", S_OLD10_MATH}}); x.math = true; x.legacy = true; x.analysable = true; }
        { auto &x = add("math-small", {{"main.xml", mathDoc("<apply><eq/><ci>y</ci><apply><plus/><ci>x</ci><cn cellml:units=\"dimensionless\">1</cn></apply></apply>"
                                                               "<apply><eq/><ci>x</ci><cn cellml:units=\"dimensionless\" type=\"e-notation\">2<sep/>3</cn></apply>", "xy")}});
          x.math = true; x.analysable = true; }
        return r;
    }();
    return s;
}

} // namespace c01
