// FLAVOURS: asan
// C09 — ownership invariants survive any API history (explicit-state search, implementation = transition relation).
// Machine "variables": variables moved between / removed from components, with structurally identical look-alikes.
#include "c09_flat.hpp"
#include "c09_forest.hpp"
#include "c09_equiv.hpp"
#include "c09_badargs_entries.hpp"

using namespace vf;

namespace {

// ------------------------------------------------------------------ reference state shared by container machines
struct RefState
{
    std::vector<std::vector<int>> lists; // per container: ordered universe indices of the children it lists
    std::vector<int> parent;             // per entity: container index, -1 none, -2 foreign/unknown
    bool operator==(const RefState &o) const { return lists == o.lists && parent == o.parent; }
    std::string str() const
    {
        std::string s;
        for (size_t c = 0; c < lists.size(); ++c) {
            s += "c" + std::to_string(c) + "[";
            for (size_t i = 0; i < lists[c].size(); ++i) s += (i ? "," : "") + std::to_string(lists[c][i]);
            s += "]";
        }
        s += " parents(";
        for (size_t v = 0; v < parent.size(); ++v) s += (v ? "," : "") + std::to_string(parent[v]);
        return s + ")";
    }
};
struct Allowed
{
    RefState post;
    std::string ret;
};

void containerInvariants(const std::string &machine, const RefState &s, std::vector<Viol> &out)
{
    std::map<int, int> listedBy;
    for (size_t c = 0; c < s.lists.size(); ++c) {
        std::set<int> here;
        for (int v : s.lists[c]) {
            if (v < 0) { out.push_back({machine + ":invariant:container-lists-unknown-object", {{"state", s.str()}}}); continue; }
            if (!here.insert(v).second) out.push_back({machine + ":invariant:entity-listed-twice", {{"state", s.str()}}});
            if (listedBy.count(v) && listedBy[v] != int(c)) out.push_back({machine + ":invariant:entity-listed-by-two-containers", {{"state", s.str()}}});
            listedBy[v] = int(c);
            if (s.parent[v] != int(c)) out.push_back({machine + ":invariant:listed-child-reports-other-parent", {{"state", s.str()}}});
        }
    }
}

// ------------------------------------------------------------------ machine: variables in components
struct VarWorld
{
    static constexpr int NC = 2, NV = 3;
    ModelPtr model;
    std::vector<ComponentPtr> comp;
    std::vector<VariablePtr> var;
    RefState ref;
    bool dead = false;
    std::string deadWhy;

    enum Kind { ADD, RM_IDX, RM_NAME, RM_PTR, TAKE_IDX, TAKE_NAME, RM_ALL, HAS_PTR, HAS_NAME, KINDS };
    struct Op { Kind k; int c; int a; };
    static const std::vector<Op> &ops()
    {
        static std::vector<Op> o;
        if (o.empty()) {
            for (int c = 0; c < NC; ++c) {
                for (int v = 0; v < NV; ++v) o.push_back({ADD, c, v});
                for (int i = 0; i < 3; ++i) o.push_back({RM_IDX, c, i});
                for (int n = 0; n < 3; ++n) o.push_back({RM_NAME, c, n});
                for (int v = 0; v < NV; ++v) o.push_back({RM_PTR, c, v});
                for (int i = 0; i < 3; ++i) o.push_back({TAKE_IDX, c, i});
                for (int n = 0; n < 3; ++n) o.push_back({TAKE_NAME, c, n});
                o.push_back({RM_ALL, c, 0});
                for (int v = 0; v < NV; ++v) o.push_back({HAS_PTR, c, v});
                for (int n = 0; n < 3; ++n) o.push_back({HAS_NAME, c, n});
            }
        }
        return o;
    }
    static const char *nameOf(int n) { static const char *N[] = {"v", "w", "zz"}; return N[n]; }
    static int opCount() { return int(ops().size()); }
    static std::string opName(int i)
    {
        static const char *K[] = {"addVariable", "removeVariable(index)", "removeVariable(name)", "removeVariable(ptr)", "takeVariable(index)", "takeVariable(name)", "removeAllVariables", "hasVariable(ptr)", "hasVariable(name)"};
        const Op &o = ops()[i];
        std::string a = (o.k == RM_NAME || o.k == TAKE_NAME || o.k == HAS_NAME) ? std::string("\"") + nameOf(o.a) + "\"" : (o.k == ADD || o.k == RM_PTR || o.k == HAS_PTR) ? "v" + std::to_string(o.a) : std::to_string(o.a);
        return "c" + std::to_string(o.c) + "." + K[o.k] + "(" + (o.k == RM_ALL ? "" : a) + ")";
    }
    static bool lookAlike(int a, int b) { return a == b || (a < 2 && b < 2); } // v0, v1 structurally identical; v2 distinct
    static std::string nameOfVar(int v) { return v < 2 ? "v" : "w"; }

    VarWorld()
    {
        model = Model::create("m");
        for (int c = 0; c < NC; ++c) { comp.push_back(Component::create("c" + std::to_string(c))); model->addComponent(comp.back()); }
        for (int v = 0; v < NV; ++v) var.push_back(Variable::create(nameOfVar(v)));
        ref.lists.assign(NC, {});
        ref.parent.assign(NV, -1);
    }
    int idxOf(const VariablePtr &p) const
    {
        for (int v = 0; v < NV; ++v) if (var[v] == p) return v;
        return p ? -2 : -1;
    }
    RefState observe() const
    {
        RefState s;
        s.lists.assign(NC, {});
        s.parent.assign(NV, -1);
        for (int c = 0; c < NC; ++c) for (size_t i = 0; i < comp[c]->variableCount() && i < 16; ++i) s.lists[c].push_back(idxOf(comp[c]->variable(i)));
        for (int v = 0; v < NV; ++v) {
            auto p = var[v]->parent();
            s.parent[v] = -1;
            if (p) { s.parent[v] = -2; for (int c = 0; c < NC; ++c) if (p == comp[c]) s.parent[v] = c; }
        }
        return s;
    }
    bool enabled(int) { return !dead; }
    static void erase(std::vector<int> &l, int v) { l.erase(std::find(l.begin(), l.end(), v)); }
    static bool contains(const std::vector<int> &l, int v) { return std::find(l.begin(), l.end(), v) != l.end(); }

    // reference semantics: the set of allowed (post-state, return) pairs; empty => outside the claim (not judged)
    std::vector<Allowed> refStep(const Op &o, std::string &situation) const
    {
        std::vector<Allowed> al;
        const RefState &s = ref;
        auto removeOne = [&](int c, int v, const std::string &ret) { RefState t = s; erase(t.lists[c], v); t.parent[v] = -1; al.push_back({t, ret}); };
        switch (o.k) {
        case ADD: {
            if (s.parent[o.a] == o.c) { situation = "add-to-current-parent"; return {}; }
            RefState t = s;
            if (s.parent[o.a] >= 0) erase(t.lists[s.parent[o.a]], o.a);
            t.lists[o.c].push_back(o.a);
            t.parent[o.a] = o.c;
            al.push_back({t, "true"});
            situation = s.parent[o.a] >= 0 ? "move" : "add";
            for (int w = 0; w < NV; ++w) if (w != o.a && lookAlike(w, o.a) && s.parent[w] == s.parent[o.a] && s.parent[o.a] >= 0) situation += "+look-alike-sibling";
            break;
        }
        case RM_IDX: case TAKE_IDX:
            if (size_t(o.a) < s.lists[o.c].size()) { int v = s.lists[o.c][o.a]; removeOne(o.c, v, o.k == RM_IDX ? "true" : "v" + std::to_string(v)); situation = "in-range"; }
            else { al.push_back({s, o.k == RM_IDX ? "false" : "null"}); situation = "out-of-range"; }
            break;
        case RM_NAME: case TAKE_NAME: {
            bool any = false;
            for (int v : s.lists[o.c]) if (nameOfVar(v) == nameOf(o.a)) { removeOne(o.c, v, o.k == RM_NAME ? "true" : "v" + std::to_string(v)); any = true; }
            if (!any) al.push_back({s, o.k == RM_NAME ? "false" : "null"});
            situation = any ? "name-present" : "name-absent";
            break;
        }
        case RM_PTR:
            if (contains(s.lists[o.c], o.a)) {
                removeOne(o.c, o.a, "true");
                situation = "target-is-child";
                for (int w : s.lists[o.c]) if (w != o.a && lookAlike(w, o.a)) situation = "target-is-child+look-alike-sibling";
            } else {
                al.push_back({s, "false"});
                situation = "target-not-child";
                for (int w : s.lists[o.c]) if (lookAlike(w, o.a)) { removeOne(o.c, w, "true"); situation = "target-not-child+look-alike-child"; }
            }
            break;
        case RM_ALL: {
            RefState t = s;
            for (int v : s.lists[o.c]) t.parent[v] = -1;
            t.lists[o.c].clear();
            al.push_back({t, ""});
            situation = "";
            break;
        }
        case HAS_PTR:
            if (contains(s.lists[o.c], o.a)) { al.push_back({s, "true"}); situation = "target-is-child"; }
            else {
                al.push_back({s, "false"});
                situation = "target-not-child";
                for (int w : s.lists[o.c]) if (lookAlike(w, o.a)) { al.push_back({s, "true"}); break; }
            }
            break;
        case HAS_NAME: {
            bool any = false;
            for (int v : s.lists[o.c]) if (nameOfVar(v) == nameOf(o.a)) any = true;
            al.push_back({s, any ? "true" : "false"});
            break;
        }
        default: break;
        }
        return al;
    }
    void apply(int i, std::vector<Viol> &out)
    {
        if (dead) return;
        const Op &o = ops()[i];
        std::string situation;
        auto allowed = refStep(o, situation);
        std::string ret;
        auto &c = comp[o.c];
        switch (o.k) {
        case ADD: ret = c->addVariable(var[o.a]) ? "true" : "false"; break;
        case RM_IDX: ret = c->removeVariable(size_t(o.a)) ? "true" : "false"; break;
        case RM_NAME: ret = c->removeVariable(std::string(nameOf(o.a))) ? "true" : "false"; break;
        case RM_PTR: ret = c->removeVariable(var[o.a]) ? "true" : "false"; break;
        case TAKE_IDX: { auto p = c->takeVariable(size_t(o.a)); int x = idxOf(p); ret = x >= 0 ? "v" + std::to_string(x) : x == -1 ? "null" : "foreign"; break; }
        case TAKE_NAME: { auto p = c->takeVariable(std::string(nameOf(o.a))); int x = idxOf(p); ret = x >= 0 ? "v" + std::to_string(x) : x == -1 ? "null" : "foreign"; break; }
        case RM_ALL: c->removeAllVariables(); break;
        case HAS_PTR: ret = c->hasVariable(var[o.a]) ? "true" : "false"; break;
        case HAS_NAME: ret = c->hasVariable(std::string(nameOf(o.a))) ? "true" : "false"; break;
        default: break;
        }
        RefState obs = observe();
        if (allowed.empty()) { dead = true; deadWhy = "OUTSIDE-CLAIM:" + situation; return; } // generated, must not crash, not judged
        for (auto &a : allowed) if (a.post == obs && a.ret == ret) { ref = obs; return; }
        static const char *K[] = {"addVariable", "removeVariable(index)", "removeVariable(name)", "removeVariable(ptr)", "takeVariable(index)", "takeVariable(name)", "removeAllVariables", "hasVariable(ptr)", "hasVariable(name)"};
        json al = json::array();
        for (auto &a : allowed) al.push_back({{"state", a.post.str()}, {"ret", a.ret}});
        out.push_back({std::string("variables:") + K[o.k] + ":" + situation + ":post-state-not-allowed", {{"pre", ref.str()}, {"observed", obs.str()}, {"ret", ret}, {"allowed", al}}});
        dead = true;
        deadWhy = "VIOLATED";
    }
    std::string canon() { return dead ? deadWhy : observe().str(); }
    void invariant(std::vector<Viol> &out)
    {
        if (dead) return;
        containerInvariants("variables", observe(), out);
    }
};

} // namespace

int main(int argc, char **argv)
{
    ExploreLimits q, t;
    q.maxDepth = 64;
    t.maxDepth = 64;
    ExploreLimits d5 = q, d6 = t;
    d5.maxDepth = 5;
    d6.maxDepth = 6;
    std::vector<Family> fs = {
        machineFamily<VarWorld>("variables", q, t),
        machineFamily<c09::ForestWorld>("forest", q, t),
        machineFamily<c09::FlatWorld<c09::UnitsTraits>>("units", q, t),
        machineFamily<c09::FlatWorld<c09::ResetTraits<false>>>("resets", q, t),
        machineFamily<c09::FlatWorld<c09::ResetTraits<true>>>("resets-full", q, t),
        machineFamily<c09::EqWorld<4, c09::EQ_CORE>>("equivalences", q, t),
        machineFamily<c09::EqWorld<3, c09::EQ_IDS>>("equivalence-ids", q, t),
        machineFamily<c09::EqWorld<3, c09::EQ_LIFE>>("equivalence-lifetime", q, t),
        machineFamily<c09::EqWorld<4, c09::EQ_LIFE>>("equivalence-lifetime4", d5, d6), // 4 variables: depth-bounded (fixpoint is > 4e5 states)
    };
    fs.push_back(c09b::badargFamily());
    if (argc == 2 && std::string(argv[1]) == "entries") { // the entry-point table, for the header cross-check in checks/c09.py
        json a = json::array();
        for (auto &e : c09b::entries()) a.push_back(e.name);
        puts(a.dump().c_str());
        return 0;
    }
    return harnessMain(argc, argv, fs);
}
