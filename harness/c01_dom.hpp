// C01 helper: a tiny byte-exact XML tree for the hand-written seed documents.
// Values and text are kept in their *escaped source form*, namespaces are ordinary attributes, so that every
// deviation (including ill-formed ones) can be expressed literally and serialised without a library normalising it.
#pragma once
#include <algorithm>
#include <cassert>
#include <cctype>
#include <cstring>
#include <functional>
#include <string>
#include <vector>

namespace c01 {

struct XA
{
    std::string name, value; // value: literal text between the quotes (already escaped)
};
struct XN
{
    enum K { ELEM, TEXT, RAW } k = ELEM; // TEXT: escaped character data; RAW: verbatim markup (prolog, comment, PI, CDATA, doctype)
    int id = -1;                         // element id in seed document order; -1 for inserted / cloned nodes
    std::string name;                    // qualified name as written
    std::string text;
    std::vector<XA> at;
    std::vector<XN> kids;
    bool blank() const { return k == TEXT && text.find_first_not_of(" \t\r\n") == std::string::npos; }
    XA *attr(const std::string &n) { for (auto &a : at) if (a.name == n) return &a; return nullptr; }
    const XA *attr(const std::string &n) const { for (auto &a : at) if (a.name == n) return &a; return nullptr; }
    std::string local() const { size_t c = name.find(':'); return c == std::string::npos ? name : name.substr(c + 1); }
};

struct XParser
{
    const std::string &s;
    size_t p = 0;
    int nextId = 0;
    explicit XParser(const std::string &in) : s(in) {}
    bool starts(const char *t) const { return s.compare(p, strlen(t), t) == 0; }
    XN raw(const char *end)
    {
        size_t e = s.find(end, p);
        assert(e != std::string::npos);
        e += strlen(end);
        XN n;
        n.k = XN::RAW;
        n.text = s.substr(p, e - p);
        p = e;
        return n;
    }
    void content(XN &parent)
    {
        while (p < s.size()) {
            if (starts("</")) return;
            if (starts("<!--")) parent.kids.push_back(raw("-->"));
            else if (starts("<?")) parent.kids.push_back(raw("?>"));
            else if (starts("<![CDATA[")) parent.kids.push_back(raw("]]>"));
            else if (starts("<!DOCTYPE")) parent.kids.push_back(raw(s.find('[', p) != std::string::npos && s.find('[', p) < s.find('>', p) ? "]>" : ">"));
            else if (s[p] == '<') parent.kids.push_back(element());
            else {
                size_t e = s.find('<', p);
                if (e == std::string::npos) e = s.size();
                XN t;
                t.k = XN::TEXT;
                t.text = s.substr(p, e - p);
                parent.kids.push_back(t);
                p = e;
            }
        }
    }
    void ws() { while (p < s.size() && isspace((unsigned char)s[p])) ++p; }
    XN element()
    {
        XN n;
        n.id = nextId++;
        ++p; // <
        size_t b = p;
        while (p < s.size() && !isspace((unsigned char)s[p]) && s[p] != '/' && s[p] != '>') ++p;
        n.name = s.substr(b, p - b);
        for (;;) {
            ws();
            assert(p < s.size());
            if (s[p] == '/') { p += 2; return n; }
            if (s[p] == '>') { ++p; break; }
            b = p;
            while (s[p] != '=' && !isspace((unsigned char)s[p])) ++p;
            XA a;
            a.name = s.substr(b, p - b);
            ws();
            assert(s[p] == '=');
            ++p;
            ws();
            char qc = s[p++];
            assert(qc == '"' || qc == '\'');
            b = p;
            while (s[p] != qc) ++p;
            a.value = s.substr(b, p - b);
            ++p;
            n.at.push_back(a);
        }
        content(n);
        assert(starts("</"));
        size_t e = s.find('>', p);
        p = e + 1;
        return n;
    }
};

inline XN parseXml(const std::string &text)
{
    XN doc;
    doc.name = "#doc";
    XParser ps(text);
    ps.content(doc);
    assert(ps.p == text.size());
    return doc;
}

inline void serialise(const XN &n, std::string &out)
{
    if (n.k != XN::ELEM) { out += n.text; return; }
    if (n.name == "#doc") { for (auto &k : n.kids) serialise(k, out); return; }
    out += "<" + n.name;
    for (auto &a : n.at) out += " " + a.name + "=\"" + a.value + "\"";
    if (n.kids.empty()) { out += "/>"; return; }
    out += ">";
    for (auto &k : n.kids) serialise(k, out);
    out += "</" + n.name + ">";
}
inline std::string serialise(const XN &n) { std::string s; serialise(n, s); return s; }

inline XN *findNode(XN &n, int id)
{
    if (n.k == XN::ELEM && n.id == id) return &n;
    for (auto &k : n.kids) if (auto *r = findNode(k, id)) return r;
    return nullptr;
}
inline XN *findParent(XN &n, int id, size_t *index = nullptr)
{
    for (size_t i = 0; i < n.kids.size(); ++i) {
        if (n.kids[i].k == XN::ELEM && n.kids[i].id == id) { if (index) *index = i; return &n; }
        if (auto *r = findParent(n.kids[i], id, index)) return r;
    }
    return nullptr;
}
inline void stripIds(XN &n) { n.id = -1; for (auto &k : n.kids) stripIds(k); }
inline void collectElements(const XN &n, std::vector<const XN *> &out)
{
    if (n.k == XN::ELEM && n.name != "#doc") out.push_back(&n);
    for (auto &k : n.kids) collectElements(k, out);
}
inline XN *rootElement(XN &doc) { for (auto &k : doc.kids) if (k.k == XN::ELEM) return &k; return nullptr; }

inline std::string xmlEsc(const std::string &s)
{
    std::string r;
    for (char c : s) {
        if (c == '&') r += "&amp;"; else if (c == '<') r += "&lt;"; else if (c == '>') r += "&gt;"; else if (c == '"') r += "&quot;";
        else if (c == '\t') r += "&#9;"; else if (c == '\n') r += "&#10;"; else r += c;
    }
    return r;
}

} // namespace c01
